(* Byte-string helpers mirroring the Go strings/bytes functions the package uses. Definitions only. *)
From AP.Model Require Import Prelude.

Fixpoint is_prefix (p s : bytes) : bool :=
  match p, s with
  | [], _ => true
  | x :: p', y :: s' => Byte.eqb x y && is_prefix p' s'
  | _ :: _, [] => false
  end.

(* strings.Index: offset of the first occurrence of [sep] in [s] *)
Fixpoint index_from (n : nat) (sep s : bytes) : option nat :=
  if is_prefix sep s then Some n
  else match s with
       | [] => None
       | _ :: s' => index_from (S n) sep s'
       end.
Definition index (sep s : bytes) : option nat := index_from 0 sep s.

(* split at the first occurrence of byte [c]: (before, Some after) or (s, None) *)
Fixpoint cut_byte (c : byte) (s : bytes) : bytes * option bytes :=
  match s with
  | [] => ([], None)
  | x :: r => if Byte.eqb x c then ([], Some r)
              else let '(a, b) := cut_byte c r in (x :: a, b)
  end.

(* strings.Split(s, c) for a one-byte separator *)
Fixpoint split_byte (c : byte) (s : bytes) : list bytes :=
  match s with
  | [] => [[]]
  | x :: r =>
      match split_byte c r with
      | [] => [[]]    (* unreachable: split_byte never returns [] *)
      | seg :: segs => if Byte.eqb x c then [] :: seg :: segs else (x :: seg) :: segs
      end
  end.

Fixpoint join_with (sep : bytes) (l : list bytes) : bytes :=
  match l with
  | [] => []
  | [x] => x
  | x :: r => x ++ sep ++ join_with sep r
  end.

(* strings.TrimRight(s, "c") *)
Definition trim_right_byte (c : byte) (s : bytes) : bytes :=
  rev ((fix drop (l : bytes) : bytes :=
          match l with
          | x :: r => if Byte.eqb x c then drop r else l
          | [] => []
          end) (rev s)).

Definition trim_left_byte (c : byte) (s : bytes) : bytes :=
  (fix drop (l : bytes) : bytes :=
     match l with
     | x :: r => if Byte.eqb x c then drop r else l
     | [] => []
     end) s.

Definition is_alpha (b : byte) : bool :=
  let n := byteN b in ((65 <=? n) && (n <=? 90) || (97 <=? n) && (n <=? 122))%N.
Definition is_digit (b : byte) : bool :=
  let n := byteN b in ((48 <=? n) && (n <=? 57))%N.
Definition byte_in (b : byte) (set : bytes) : bool := existsb (Byte.eqb b) set.

Definition last_byte (s : bytes) : option byte :=
  match rev s with [] => None | x :: _ => Some x end.

Fixpoint bytes_contains (sub s : bytes) : bool :=
  is_prefix sub s || match s with [] => false | _ :: r => bytes_contains sub r end.
