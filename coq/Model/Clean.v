(* Clean() of the vocabulary types, CleanRecipients and ItemCollection.Clean.  Definitions only.

   The per-type walks are NOT modelled by hand: coq/Gen/Walks.v is regenerated from the Clean methods
   on every run (translator/walks.go) and interpreted here ([clean_item]).  The specification [strip]
   is written from the PROPERTY's list of walked properties, independently of the generated walk. *)
From AP.Model Require Import Prelude Vocab Pred.

(* ------------------------------------------------------------------ table vocabulary *)
Inductive wstep :=
| WTruncate (f : fid)             (* x.F = x.F[:0] *)
| WClean (f : fid)                (* CleanRecipients(x.F) *)
| WDelegate (k : kind)            (* _ = OnObject(x, func(o *Object) error { o.Clean(); return nil }) *)
| WEachEntry                      (* for j, it := range i { i[j] = CleanRecipients(it) } *)
| WUnrecognised (src pos : bytes).

Record cleanfn := mkcleanfn { cl_kind : kind; cl_ptr : bool; cl_steps : list wstep }.

Record walk_tables := mkwt {
  wt_methods : list cleanfn;
  wt_items : list wstep;                (* ItemCollection.Clean *)
  wt_cr_src : bytes;                    (* CleanRecipients *)
  wt_has : list (kind * bool);          (* (struct type, pointer form) implementing HasRecipients *)
  wt_items_has : bool * bool }.         (* ItemCollection, *ItemCollection implement HasRecipients *)

Definition clean_recipients_text : bytes :=
  B "func(it Item) Item { if IsNil(it) { return nil } if s, ok := it.(HasRecipients); ok { s.Clean() } return it }".

(* ------------------------------------------------------------------ canonical walk table *)
Definition all_fids : list fid :=
  [F_ID; F_Type; F_Name; F_Attachment; F_AttributedTo; F_Audience; F_Content; F_Context;
   F_MediaType; F_EndTime; F_Generator; F_Icon; F_Image; F_InReplyTo; F_Location; F_Preview;
   F_Published; F_Replies; F_StartTime; F_Summary; F_Tag; F_Updated; F_URL; F_To; F_Bto;
   F_CC; F_BCC; F_Duration; F_Likes; F_Shares; F_Source;
   F_Actor; F_Target; F_Result; F_Origin; F_Instrument; F_Object;
   F_OneOf; F_AnyOf; F_Closed;
   F_Inbox; F_Outbox; F_Following; F_Followers; F_Liked; F_PreferredUsername; F_Endpoints;
   F_Streams; F_PublicKey;
   F_Current; F_First; F_Last; F_TotalItems; F_Items; F_OrderedItems;
   F_PartOf; F_Next; F_Prev; F_StartIndex;
   F_Accuracy; F_Altitude; F_Latitude; F_Longitude; F_Radius; F_Units;
   F_Describes; F_Subject; F_Relationship; F_FormerType; F_Deleted;
   F_Href; F_Rel; F_HrefLang; F_Height; F_Width;
   F_UploadMedia; F_OauthAuthorizationEndpoint; F_OauthTokenEndpoint; F_ProvideClientKey;
   F_SignClientKey; F_SharedInbox].

Definition memf (f : fid) (l : list fid) : bool := existsb (fid_beq f) l.
(* a field set in canonical form: declaration order of [fid], no repetitions *)
Definition canon_list (l : list fid) : list fid := filter (fun f => memf f l) all_fids.

Record centry := mkce { ce_kind : kind; ce_has : bool; ce_trunc : list fid; ce_clean : list fid }.

Fixpoint list_beq {A} (e : A -> A -> bool) (a b : list A) : bool :=
  match a, b with
  | [], [] => true
  | x :: a', y :: b' => e x y && list_beq e a' b'
  | _, _ => false
  end.
Definition centry_beq (a b : centry) : bool :=
  kind_beq (ce_kind a) (ce_kind b) && Bool.eqb (ce_has a) (ce_has b)
  && list_beq fid_beq (ce_trunc a) (ce_trunc b) && list_beq fid_beq (ce_clean a) (ce_clean b).

Definition method_of (W : walk_tables) (k : kind) : option cleanfn :=
  find (fun m => kind_beq (cl_kind m) k && cl_ptr m) (wt_methods W).

(* the pointer-receiver Clean of struct k as (truncated fields, cleaned fields), delegations expanded;
   None: no such method, an unrecognised statement, or fuel *)
Fixpoint flat_walk (W : walk_tables) (fuel : nat) (k : kind) : option (list fid * list fid) :=
  match fuel with
  | O => None
  | S n =>
      match method_of W k with
      | None => None
      | Some m =>
          (fix go (steps : list wstep) : option (list fid * list fid) :=
             match steps with
             | [] => Some ([], [])
             | WTruncate f :: r => option_map (fun tc => (f :: fst tc, snd tc)) (go r)
             | WClean f :: r => option_map (fun tc => (fst tc, f :: snd tc)) (go r)
             | WDelegate k' :: r =>
                 match flat_walk W n k', go r with
                 | Some (t1, c1), Some (t2, c2) => Some (t1 ++ t2, c1 ++ c2)
                 | _, _ => None
                 end
             | _ :: _ => None
             end) (cl_steps m)
      end
  end.

Definition memkb (k : kind) (p : bool) (l : list (kind * bool)) : bool :=
  existsb (fun x => kind_beq (fst x) k && Bool.eqb (snd x) p) l.

Definition wstep_is_each (s : wstep) : bool := match s with WEachEntry => true | _ => false end.

(* None: CleanRecipients or ItemCollection.Clean are not what the interpreter understands *)
Definition canon (W : walk_tables) : option (list centry) :=
  if bytes_eqb (wt_cr_src W) clean_recipients_text
     && match wt_items W with [s] => wstep_is_each s | _ => false end
     && fst (wt_items_has W) && snd (wt_items_has W)
     && negb (existsb (fun x => negb (snd x)) (wt_has W))        (* no value form implements the interface *)
  then Some (map (fun k => match flat_walk W 3 k with
                           | Some (t, c) => mkce k (memkb k true (wt_has W)) (canon_list t) (canon_list c)
                           | None => mkce k false [] []
                           end) all_kinds)
  else None.

(* ------------------------------------------------------------------ the walk over a value *)
Definition entry_of (tbl : list centry) (k : kind) : option centry :=
  find (fun e => kind_beq (ce_kind e) k) tbl.

(* x.F = x.F[:0]: a nil slice stays nil, anything else becomes empty *)
Definition trunc (v : fval) : fval := match v with FItems (Some _) => FItems (Some []) | _ => v end.

Fixpoint walk_item (tbl : list centry) (i : item) {struct i} : item :=
  match i with
  | IObj true k fs =>
      match entry_of tbl k with
      | Some e =>
          if ce_has e then
            IObj true k
              ((fix go (fs : list (fid * fval)) : list (fid * fval) :=
                  match fs with
                  | [] => []
                  | (f, v) :: r =>
                      (f, if memf f (ce_trunc e) then trunc v
                          else if memf f (ce_clean e) then walk_fval tbl v else v) :: go r
                  end) fs)
          else i
      | None => i
      end
  | IItems p (Some l) =>
      IItems p (Some ((fix go (l : list item) : list item :=
                         match l with
                         | [] => []
                         | x :: r => (if is_nil x then INil else walk_item tbl x) :: go r
                         end) l))
  | _ => i       (* nil, IRIs, struct VALUES (no pointer receiver, not HasRecipients) *)
  end
with walk_fval (tbl : list centry) (v : fval) {struct v} : fval :=
  match v with
  | FItem i => FItem (walk_item tbl i)
  | FItems (Some l) =>
      FItems (Some ((fix go (l : list item) : list item :=
                       match l with
                       | [] => []
                       | x :: r => (if is_nil x then INil else walk_item tbl x) :: go r
                       end) l))
  | _ => v
  end.

(* x.Clean() / CleanRecipients(x) as the generated tables say; OutOfFuel = uninterpretable tables *)
Definition clean_item (W : walk_tables) (i : item) : outcome item :=
  match canon W with Some tbl => Ok (walk_item tbl i) | None => OutOfFuel end.
(* value returned by CleanRecipients *)
Definition clean_recipients_ret (i : item) (after : item) : item := if is_nil i then INil else after.

(* ------------------------------------------------------------------ specification, from the property text *)
(* "... its audience, attachment, icon, image, context, generator, attributedTo, preview or tag
   (and, for an activity, its object, actor and target)" *)
Definition walked_object : list fid :=
  [F_Audience; F_Attachment; F_Icon; F_Image; F_Context; F_Generator; F_AttributedTo; F_Preview; F_Tag].
(* IntransitiveActivity and Question are activities without an object property *)
Definition walked_activity (k : kind) : list fid :=
  match k with
  | KActivity => [F_Object; F_Actor; F_Target]
  | KIntransitive | KQuestion => [F_Actor; F_Target]
  | _ => []
  end.
Definition is_link_kind (k : kind) : bool := match k with KLink => true | _ => false end.
Definition private_fields : list fid := [F_Bto; F_BCC].

Definition spec_trunc : list fid := canon_list private_fields.
Definition spec_clean (k : kind) : list fid :=
  canon_list (walked_object ++ walked_activity k).
Definition spec_entry (k : kind) : centry :=
  if is_link_kind k then mkce k false [] [] else mkce k true spec_trunc (spec_clean k).
Definition spec_tbl : list centry := map spec_entry all_kinds.

Definition strip (i : item) : item := walk_item spec_tbl i.
Definition strip_fval (v : fval) : fval := walk_fval spec_tbl v.

Definition walk_matches_spec (W : walk_tables) : bool :=
  match canon W with Some t => list_beq centry_beq t spec_tbl | None => false end.

(* first struct type whose generated walk differs from the specification, with both entries *)
Definition first_bad_walk (W : walk_tables) : option (centry * centry) :=
  match canon W with
  | Some t => find (fun p => negb (centry_beq (fst p) (snd p))) (combine t spec_tbl)
  | None => None
  end.

(* private recipients: a non-empty bto or bcc *)
Definition has_private (v : fval) : bool := match v with FItems (Some (_ :: _)) => true | _ => false end.

(* no bto/bcc on the value itself nor on any object embedded by pointer along the walked properties,
   recursively and through lists (struct values, links and IRIs carry nothing the walk can reach) *)
Fixpoint no_private (i : item) {struct i} : bool :=
  match i with
  | IObj true k fs =>
      is_link_kind k ||
      (fix go (fs : list (fid * fval)) : bool :=
         match fs with
         | [] => true
         | (f, v) :: r =>
             (if memf f spec_trunc then negb (has_private v)
              else if memf f (spec_clean k) then no_private_fval v else true) && go r
         end) fs
  | IItems _ (Some l) =>
      (fix go (l : list item) : bool := match l with [] => true | x :: r => no_private x && go r end) l
  | _ => true
  end
with no_private_fval (v : fval) {struct v} : bool :=
  match v with
  | FItem i => no_private i
  | FItems (Some l) =>
      (fix go (l : list item) : bool := match l with [] => true | x :: r => no_private x && go r end) l
  | _ => true
  end.

(* what Clean does to the value of field f of a pointer struct of kind k, per the specification *)
Definition strip_field (k : kind) (f : fid) (v : fval) : fval :=
  if memf f spec_trunc then trunc v else if memf f (spec_clean k) then strip_fval v else v.
