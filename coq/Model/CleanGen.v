(* The walk tables as regenerated from the source on this run. *)
From AP.Model Require Import Prelude Vocab Pred Clean.
Require AP.Gen.Walks.

Definition gen_walk_tables : walk_tables :=
  mkwt AP.Gen.Walks.clean_methods AP.Gen.Walks.items_clean AP.Gen.Walks.clean_recipients_src
       AP.Gen.Walks.has_recipients AP.Gen.Walks.items_has_recipients.

Definition clean_m (i : item) : outcome item := clean_item gen_walk_tables i.

(* The walk tables of the PINNED tree: IntransitiveActivity.Clean and Question.Clean only delegated to
   Object.Clean (no descent into actor and target).  Kept for the refutation witness of Props/C11.v. *)
Definition pin_method (m : cleanfn) : cleanfn :=
  match cl_kind m with
  | KIntransitive | KQuestion => mkcleanfn (cl_kind m) (cl_ptr m) [WDelegate KObject]
  | _ => m
  end.
Definition pinned_walk_tables : walk_tables :=
  mkwt (map pin_method (wt_methods gen_walk_tables)) (wt_items gen_walk_tables) (wt_cr_src gen_walk_tables)
       (wt_has gen_walk_tables) (wt_items_has gen_walk_tables).

(* witnesses *)
Definition c11_secret : fval := FItems (Some [IIri false (B "https://example.com/secret")]).
Definition c11_actor_with_bto : item :=
  IObj true KActor [(F_ID, FStr (B "https://example.com/actors/alice")); (F_Bto, c11_secret); (F_BCC, c11_secret)].
Definition c11_travel : item :=
  IObj true KIntransitive [(F_ID, FStr (B "https://example.com/travel/1")); (F_Type, FStr (B "Travel"));
                           (F_Actor, FItem c11_actor_with_bto)].
(* bto/bcc at depth 3 along the walk (tag list -> attachment -> object of an activity), off the walk
   (inReplyTo) and on an object embedded by value *)
Definition c11_deep : item :=
  IObj true KObject
    [(F_ID, FStr (B "https://example.com/notes/1")); (F_Type, FStr (B "Note"));
     (F_InReplyTo, FItem (IObj true KObject [(F_ID, FStr (B "https://example.com/notes/0")); (F_Bto, c11_secret)]));
     (F_Icon, FItem (IObj false KObject [(F_ID, FStr (B "https://example.com/icon")); (F_Bto, c11_secret)]));
     (F_Tag, FItems (Some
        [IIri false (B "https://example.com/tags/x");
         IObj true KObject
           [(F_ID, FStr (B "https://example.com/tags/y"));
            (F_Attachment, FItem
               (IObj true KActivity
                  [(F_Type, FStr (B "Like")); (F_BCC, c11_secret);
                   (F_Object, FItem c11_actor_with_bto)]))]]));
     (F_To, FItems (Some [IIri false (B "https://example.com/actors/bob")]));
     (F_Bto, c11_secret); (F_BCC, FItems (Some []))].
