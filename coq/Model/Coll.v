(* item_collection.go Append Contains Remove Count Collection First Normalize; iri.go IRIs.Append /
   Contains / Count / Collection; collection.go, collection_page.go, ordered_collection.go,
   ordered_collection_page.go Append / Contains / Count / Collection (their five Append/Contains bodies
   are the text of ItemCollection's, on the Items / OrderedItems field; Remove reaches them through the
   item-list view `col.Items.Remove(r)`).  Definitions only.
   The list functions are generic in the membership test; the item containers use ItemsEqual of the
   repaired tree (Model/Equal.v: total by C09_no_panic), the IRI list uses IRI.Equals. *)
From AP.Model Require Import Prelude Vocab Pred IriEq Equal.

Section Generic.
  Variable A : Type.
  Variable eqA : A -> A -> bool.          (* eqA member argument *)

  (* Contains: `if len(i) == 0 { return false }; for _, it := range i { if eq(it, r) { return true } }` *)
  Definition g_contains (l : list A) (r : A) : bool := existsb (fun it => eqA it r) l.

  (* one round of the Append loop *)
  Definition g_append1 (l : list A) (ob : A) : list A := if g_contains l ob then l else l ++ [ob].
  Definition g_append (l : list A) (obs : list A) : list A := fold_left g_append1 obs l.

  (* `remIdx := -1; for idx, it := range *i { if eq(it, r) { remIdx = idx } }` : index of the LAST match *)
  Fixpoint g_last_idx (l : list A) (r : A) : option nat :=
    match l with
    | [] => None
    | it :: t =>
        match g_last_idx t r with
        | Some k => Some (S k)
        | None => if eqA it r then Some 0 else None
        end
    end.

  (* the splice, with the `remIdx < li-1` split written as in the source *)
  Definition g_remove (l : list A) (r : A) : list A :=
    match g_last_idx l r with
    | None => l
    | Some k => if k <? length l - 1 then firstn k l ++ skipn (S k) l else firstn k l
    end.
End Generic.

(* ---- the six containers, as histories over a pool of items ---- *)
Inductive container := CItemCollection | CIRIs | CCollection | CCollectionPage | COrdered | COrderedPage.
Inductive cop := OpAppend (i : nat) | OpRemove (i : nat) | OpContains (i : nat).

(* Everything below is parametric in the IRI comparison [ideq a b cs] = a.Equals(b, cs), like module EqG of
   Model/Equal.v (builder b47): module CoG holds the generic definitions, the names without prefix after it are the
   instance with iri_eqb, as abbreviations; Model/CollU.v instantiates with iri_equ (Model/IriEqU.v). *)
Module CoG.
Section IdRel.
  Variable ideq : bytes -> bytes -> bool -> bool.

(* ItemsEqual as a boolean (it never panics on the repaired tree) *)
Definition items_eqb (a b : item) : bool := match EqGI.ieq ideq a b with Ok b => b | _ => false end.
(* the test IRIs.Contains(r) makes per member: r.GetLink().Equals(iri, false) *)
Definition iri_member_eqb (iri x : bytes) : bool := ideq x iri false.

(* ---- ItemCollection ---- *)
Definition ic_contains (l : list item) (r : item) : bool := g_contains item items_eqb l r.
Definition ic_append (l : list item) (obs : list item) : list item := g_append item items_eqb l obs.
Definition ic_remove (l : list item) (r : item) : list item :=
  match l with
  | [] => l                                  (* li == 0 *)
  | _ => match r with
         | INil => l                         (* r == nil: the untyped nil only *)
         | _ => g_remove item items_eqb l r
         end
  end.
Definition ic_count (l : list item) : nat := length l.
Definition ic_first (l : list item) : item := match l with [] => INil | x :: _ => x end.
Definition ic_normalize (l : list item) : item :=
  match l with [] => INil | [x] => x | _ => IItems false (Some l) end.

(* ---- IRIs: members are the GetLink() of what is appended ---- *)
(* IRIs.Contains(r): a nil-like argument (nil, typed nil, the empty and the "-" IRI) is never contained;
   otherwise r.GetLink() is compared with every member *)
Definition iris_contains_item (l : list bytes) (r : item) : bool :=
  if is_nil r then false else g_contains bytes iri_member_eqb l (lnk r).
(* IRIs.Append: nil-like items are skipped; the others are appended unless Contains(ob.GetLink()) - an IRI
   argument, so an empty link is never "contained" *)
Definition iris_append (l : list bytes) (obs : list item) : list bytes :=
  fold_left (fun acc ob => if is_nil ob then acc
                           else if iris_contains_item acc (IIri false (lnk ob)) then acc else acc ++ [lnk ob]) obs l.
Definition iris_collection (l : list bytes) : list item := map (IIri false) l.

Section Run.
  Variable pool : list item.
  Definition pget (i : nat) : item := nth i pool INil.

  (* state: the Collection() view *)
  Definition c_step (c : container) (st : list item) (o : cop) : list item :=
    match c, o with
    | _, OpContains _ => st
    | CIRIs, OpAppend i => iris_collection (iris_append (map lnk st) [pget i])
    | CIRIs, OpRemove _ => st                (* Remove on the copy IRIs.Collection() returns: no effect *)
    | _, OpAppend i => ic_append st [pget i]
    | _, OpRemove i => ic_remove st (pget i)
    end.
  Definition c_contains (c : container) (st : list item) (i : nat) : bool :=
    match c with
    | CIRIs => iris_contains_item (map lnk st) (pget i)
    | _ => ic_contains st (pget i)
    end.

  (* observable trace: after every step the count, and for Contains the answer *)
  Fixpoint c_run (c : container) (st : list item) (ops : list cop) : list item * list (nat * option bool) :=
    match ops with
    | [] => (st, [])
    | o :: r =>
        let st' := c_step c st o in
        let out := (length st', match o with OpContains i => Some (c_contains c st i) | _ => None end) in
        let '(fin, outs) := c_run c st' r in (fin, out :: outs)
    end.
End Run.
End IdRel.
End CoG.
Notation items_eqb := (CoG.items_eqb iri_eqb).
Notation iri_member_eqb := (CoG.iri_member_eqb iri_eqb).
Notation ic_contains := (CoG.ic_contains iri_eqb).
Notation ic_append := (CoG.ic_append iri_eqb).
Notation ic_remove := (CoG.ic_remove iri_eqb).
Notation ic_count := CoG.ic_count.
Notation ic_first := CoG.ic_first.
Notation ic_normalize := CoG.ic_normalize.
Notation iris_contains_item := (CoG.iris_contains_item iri_eqb).
Notation iris_append := (CoG.iris_append iri_eqb).
Notation iris_collection := CoG.iris_collection.
Notation pget := CoG.pget.
Notation c_step := (CoG.c_step iri_eqb).
Notation c_contains := (CoG.c_contains iri_eqb).
Notation c_run := (CoG.c_run iri_eqb).
