(* The collection table as regenerated from the source on this run, and what a source change does to it. *)
From AP.Model Require Import Prelude Vocab Pred Layout IriEq Equal Coll TabEq GoBody CollTab.
Require AP.Gen.CollT.

Definition gen_coll_fns : list (gfn gname) := AP.Gen.CollT.coll_fns.

From AP.Model Require ItemsEqTab ItemsEqGen.
(* the environment of this run: the callees from Gen/ItemsEqT.v *)
Definition coll_env_gen : genv := coll_env_t ItemsEqGen.gen_itemseq_fns.
Definition run_coll_gen (n : bytes) (recv : option gval) (args : list gval) := run_named coll_env_gen gen_coll_fns n recv args.

(* ---- what a source change does to the table (used by the examples of Props/C13.v) ---- *)
Definition in_loop (f : gstmt gname -> gstmt gname) (s : gstmt gname) : gstmt gname :=
  match s with GsRange k v c body => GsRange k v c (f body) | other => other end.
(* ItemCollection.Append without `if i.Contains(ob) { continue }` *)
Definition coll_fns_append_unchecked : list (gfn gname) :=
  replace_body n_ic_append (map_nth 0 (in_loop (drop_nth 0))) gen_coll_fns.
(* ItemCollection.Remove without its last statement, the splice *)
Definition coll_fns_remove_no_splice : list (gfn gname) := replace_body n_ic_remove (drop_nth 6) gen_coll_fns.
(* ONE of the five copies of Contains changed: CollectionPage.Contains without its loop *)
Definition coll_fns_page_contains_no_loop : list (gfn gname) :=
  replace_body (n_sc_contains SCollectionPage) (drop_nth 1) gen_coll_fns.
(* ToItemCollection handing back a pointer to a copy of an OrderedCollectionPage's list: `&i.OrderedItems` -> `&items` of
   a local (the type-switch case replaced by the case of a by-value ItemCollection) *)
Definition copy_case (s : gstmt gname) : gstmt gname :=
  match s with
  | GsTypeSwitch b e cs =>
      GsTypeSwitch b e
        ((fix go (cs : gclauses gname) : gclauses gname :=
            match cs with
            | GcNil => GcNil
            | GcCons d tys body r =>
                if lbeq tcase_eqb tys [(CK KOrderedPage, true)]
                then GcCons d tys (gblk [GsDefine [B "items"] (GxField (GxVar (B "i")) F_OrderedItems TItems);
                                         GsReturn (gxs [GxAddr (GxVar (B "items")); GxNil])]) (go r)
                else GcCons d tys body (go r)
            end) cs)
  | other => other
  end.
Definition coll_fns_toic_copy : list (gfn gname) := replace_body n_to_ic (map_nth 1 copy_case) gen_coll_fns.

(* values for the examples *)
Definition cx_id (s : string) : bytes := B "https://example.com/" ++ B s.
Definition cx_a : item := IIri false (cx_id "a").
Definition cx_b : item := IObj true KObject [(F_ID, FStr (cx_id "b")); (F_Type, FStr (B "Note"))].
Definition cx_page (l : list item) : item := IObj true KOrderedPage [(F_Type, FStr (B "OrderedCollectionPage")); (F_OrderedItems, FItems (Some l))].
