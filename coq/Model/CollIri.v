(* typer.go: IRIf, CollectionPaths.Contains/Split, Split, CollectionPath.OfActor, ValidCollection*,
   ValidCollectionIRI, CollectionPath.Of/ofActor/ofObject/ofIRI/IRI/AddTo; iri.go: IRI.AddPath.
   Definitions only.

   EXTERNAL libraries modelled here (validated against the real ones by harness/c15.go, Cases_C15_lib):
     path/filepath.Split, path/filepath.Join (on top of Url.path_clean), net/url.Parse and URL.String on
     the grammar below, strings.EqualFold on ASCII.

   Grammar of url_parse_x (extends the grammar of Model/Url.v by percent-escapes in the path):
     (a) absolute  scheme "://" host [":" digits] [ "/" rawpath ] [ "?" query ] [ "#" fragment ]
         scheme, host, query, fragment as in Url.v; rawpath over Url.is_path_char plus "%XX" escapes
         (two hex digits) that decode to ASCII bytes (< 0x80).  url.Parse decodes the path (URL.Path),
         lower-cases the scheme; URL.String re-escapes the path with shouldEscape's path mode.
     (b) plain words: only unreserved bytes and "/", not starting with "//": parse as a bare path.
     (c) parse errors: the empty IRI; a control byte before the first "#"; a leading ":"; an absolute
         URL of class (a) with a malformed escape in the path.
   Everything else is XUnmodelled: the model says nothing (option None), theorems do not speak.
   CARVE-OUT: escapes decoding to bytes >= 0x80 are unmodelled, because strings.EqualFold folds some
   non-ASCII runes onto ASCII letters (U+212A KELVIN SIGN ~ k, U+017F ~ s) and the model's fold is ASCII. *)
From AP.Model Require Import Prelude Bytes Url IriEq Vocab Pred.
From AP.Gen Require Import TypeLists.

Definition pct : byte := x25.

(* ---------------------------------------------------------------- net/url: escapes *)
Definition is_hex (b : byte) : bool :=
  let n := byteN b in
  is_digit b || ((65 <=? n) && (n <=? 70) || (97 <=? n) && (n <=? 102))%N.
Definition hexv (b : byte) : N :=
  let n := byteN b in
  if is_digit b then (n - 48)%N else if (n <=? 70)%N then (n - 55)%N else (n - 87)%N.
Definition unhex2 (h l : byte) : byte := byte_of_N_total (hexv h * 16 + hexv l)%N.

(* url.unescape (path mode) as a three-state scanner: P0 plain, P1 after "%", P2 after "%h" *)
Inductive pstate := P0 | P1 | P2 (h : byte).
Fixpoint pct_go (st : pstate) (s : bytes) : option bytes :=
  match s with
  | [] => match st with P0 => Some [] | _ => None end
  | c :: r =>
      match st with
      | P0 => if Byte.eqb c pct then pct_go P1 r
              else match pct_go P0 r with Some d => Some (c :: d) | None => None end
      | P1 => if is_hex c then pct_go (P2 c) r else None
      | P2 h => if is_hex c
                then match pct_go P0 r with Some d => Some (unhex2 h c :: d) | None => None end
                else None
      end
  end.
Definition pct_decode (s : bytes) : option bytes := pct_go P0 s.

(* url.shouldEscape(c, encodePath) negated: bytes URL.String leaves alone in a path *)
Definition path_noescape (b : byte) : bool := is_unreserved b || byte_in b (B "$&+,/:;=@").
Definition hexdigit (n : N) : byte :=
  byte_of_N_total (if (n <? 10)%N then (48 + n)%N else (55 + n)%N).        (* "0123456789ABCDEF" *)
Definition escape_byte (b : byte) : bytes :=
  if path_noescape b then [b] else [pct; hexdigit (byteN b / 16)%N; hexdigit (byteN b mod 16)%N].
(* url.escape(path, encodePath) *)
Definition path_escape (p : bytes) : bytes := flat_map escape_byte p.

Definition is_ctl (b : byte) : bool := let n := byteN b in ((n <? 32) || (n =? 127))%N.
Definition is_ascii (b : byte) : bool := (byteN b <? 128)%N.
Definition is_rawpath_char (b : byte) : bool := is_path_char b || Byte.eqb b pct.

(* ---------------------------------------------------------------- net/url: Parse and String *)
(* the fields of url.URL that Split and String use; x_path is URL.Path (decoded); x_query is
   None when there is no "?" (ForceQuery/RawQuery otherwise) *)
Record xurl := { x_scheme : bytes; x_host : bytes; x_path : bytes; x_query : option bytes; x_frag : bytes }.
Inductive xparse := XUrl (u : xurl) | XErr | XUnmodelled.

Definition url_parse_x (s : bytes) : xparse :=
  match s with
  | [] => XErr                                          (* IRI.URL(): "empty IRI" *)
  | c0 :: _ =>
      let '(nofrag, frag) := cut_byte hash s in
      if existsb is_ctl nofrag then XErr                (* "invalid control character in URL" *)
      else if Byte.eqb c0 colon then XErr               (* "missing protocol scheme" *)
      else
      let '(noquery, query) := cut_byte qmark nofrag in
      match index (B "://") noquery with
      | Some n =>
          let scheme := firstn n noquery in
          let rest := skipn (n + 3) noquery in
          let '(hostport, pathrest) := cut_byte slash rest in
          let rawpath := match pathrest with None => [] | Some p => slash :: p end in
          if is_alpha c0 && forallb is_scheme_char scheme && negb (Nat.eqb n 0)
             && host_ok hostport && forallb is_rawpath_char rawpath
             && forallb is_query_char (match query with Some q => q | None => [] end)
             && forallb is_frag_char (match frag with Some f => f | None => [] end)
          then match pct_decode rawpath with
               | Some p =>
                   if forallb is_ascii p
                   then XUrl {| x_scheme := lower scheme; x_host := hostport; x_path := p;
                                x_query := query; x_frag := match frag with Some f => f | None => [] end |}
                   else XUnmodelled
               | None => XErr                           (* "invalid URL escape" *)
               end
          else XUnmodelled
      | None =>
          if forallb (fun b => is_unreserved b || Byte.eqb b slash) s && negb (is_prefix (B "//") s)
          then XUrl {| x_scheme := []; x_host := []; x_path := s; x_query := None; x_frag := [] |}
          else XUnmodelled
      end
  end.

Definition nonempty (s : bytes) : bool := match s with [] => false | _ => true end.

(* URL.String() for the URLs url_parse_x produces (no Opaque, no User, no OmitHost), with Path replaced *)
Definition url_string_x (u : xurl) : bytes :=
  (match x_scheme u with [] => [] | sc => sc ++ [colon] end)
  ++ (if (nonempty (x_scheme u) || nonempty (x_host u)) && (nonempty (x_host u) || nonempty (x_path u))
      then B "//" else [])
  ++ x_host u
  ++ (let ep := path_escape (x_path u) in
      (match ep with
       | c :: _ => if negb (Byte.eqb c slash) && nonempty (x_host u) then [slash] else []
       | [] => []
       end) ++ ep)
  ++ (match x_query u with Some q => qmark :: q | None => [] end)
  ++ (match x_frag u with [] => [] | f => hash :: f end).

Definition with_path (u : xurl) (p : bytes) : xurl :=
  {| x_scheme := x_scheme u; x_host := x_host u; x_path := p; x_query := x_query u; x_frag := x_frag u |}.

(* the view irisEqual has of a parsed IRI: validURL needs scheme and host *)
Definition url_classify_x (s : bytes) : url_class :=
  match url_parse_x s with
  | XUrl u =>
      if nonempty (x_scheme u) && nonempty (x_host u)
      then UValid {| u_scheme := x_scheme u; u_host := x_host u; u_path := x_path u;
                     u_query := match x_query u with Some q => q | None => [] end; u_frag := x_frag u |}
      else UFallback
  | XErr => UFallback
  | XUnmodelled => UUnmodelled
  end.

(* IRI.Equals over the extended grammar: the code of Model/IriEq.v with the extended parser *)
Definition iri_equals_x (i w : bytes) (cs : bool) : option bool :=
  iri_equals url_classify_x query_values values_eq (paths_equal path_clean) i w cs.
Definition iri_eqx (i w : bytes) (cs : bool) : bool :=
  match iri_equals_x i w cs with Some b => b | None => false end.

(* ---------------------------------------------------------------- path/filepath *)
(* filepath.Split: (everything up to and including the last "/", the rest) *)
Fixpoint path_split (p : bytes) : bytes * bytes :=
  match p with
  | [] => ([], [])
  | x :: r =>
      let '(d, f) := path_split r in
      if nonempty d || Byte.eqb x slash then (x :: d, f) else ([], x :: f)
  end.

(* filepath.Join: from the first non-empty element on, joined with "/" and cleaned *)
Fixpoint fp_join (l : list bytes) : bytes :=
  match l with
  | [] => []
  | [] :: r => fp_join r
  | _ :: _ => path_clean (join_with [slash] l)
  end.

(* ---------------------------------------------------------------- typer.go / iri.go *)
(* CollectionPaths.Contains: strings.EqualFold against every member *)
Definition contains (names : list bytes) (c : bytes) : bool := existsb (fun n => fold_eqb c n) names.

(* IRIf *)
Definition irif (i t : bytes) : bytes :=
  i ++ (match last_byte i with
        | Some b => if Byte.eqb b slash then [] else [slash]
        | None => [slash]
        end) ++ t.

(* IRI.AddPath(el) for one element *)
Definition add_path (i t : bytes) : bytes :=
  trim_right_byte slash i ++ path_clean (fp_join [[slash]; fp_join [t]]).

(* CollectionPaths.Split; None = the IRI is outside the modelled grammar *)
Definition coll_split (names : list bytes) (i : bytes) : option (bytes * bytes) :=
  match url_parse_x i with
  | XUnmodelled => None
  | XUrl u =>
      let '(dir, file) := path_split (x_path u) in
      match dir with
      | [] => Some (i, [])
      | _ => Some (url_string_x (with_path u (trim_right_byte slash dir)),
                   if contains names file then file else [])
      end
  | XErr =>
      let '(dir, file) := path_split i in
      match dir with
      | [] => Some (i, [])
      | _ => if contains names file then Some (trim_right_byte slash dir, file) else Some (i, [])
      end
  end.

(* Split *)
Definition split (i : bytes) : option (bytes * bytes) := coll_split tl_ActivityPubCollections i.

(* CollectionPath.OfActor: string operations only *)
Definition of_actor (t i : bytes) : outcome bytes :=
  let '(dir, file) := path_split i in
  if fold_eqb file t then Ok (trim_right_byte slash dir) else Err.

Definition valid_object_collections : list bytes := [B "following"; B "followers"; B "liked"].

Definition get_valid_activity_collection (t : bytes) : bytes :=
  if contains tl_validActivityCollection t then t else [].
Definition get_valid_object_collection (t : bytes) : bytes :=
  match find (fun n => fold_eqb t n) valid_object_collections with Some n => n | None => [] end.
Definition get_valid_collection (t : bytes) : bytes :=
  match get_valid_activity_collection t with
  | [] => get_valid_object_collection t
  | x => x
  end.
Definition valid_activity_collection (t : bytes) : bool := nonempty (get_valid_activity_collection t).
Definition valid_object_collection (t : bytes) : bool := nonempty (get_valid_object_collection t).
Definition valid_collection (t : bytes) : bool := nonempty (get_valid_collection t).

(* ValidCollectionIRI *)
Definition valid_collection_iri (i : bytes) : option bool :=
  match split i with
  | Some (_, t) => Some (valid_collection t)
  | None => None
  end.

(* ---------------------------------------------------------------- the collection helper on items *)
(* the switch statements compare the CollectionPath exactly *)
Definition actor_field (t : bytes) : option fid :=
  if bytes_eqb t (B "inbox") then Some F_Inbox
  else if bytes_eqb t (B "outbox") then Some F_Outbox
  else if bytes_eqb t (B "liked") then Some F_Liked
  else if bytes_eqb t (B "following") then Some F_Following
  else if bytes_eqb t (B "followers") then Some F_Followers
  else None.
Definition object_field (t : bytes) : option fid :=
  if bytes_eqb t (B "likes") then Some F_Likes
  else if bytes_eqb t (B "shares") then Some F_Shares
  else if bytes_eqb t (B "replies") then Some F_Replies
  else None.

(* ofIRI *)
Definition of_iri (t iri : bytes) : item :=
  match iri with [] => INil | _ => IIri false (add_path iri t) end.

(* the explicitly set property for t, if the struct has one (`it == nil` is the untyped nil only) *)
Definition explicit_of (fld : bytes -> option fid) (t : bytes) (fs : list (fid * fval)) : item :=
  match fld t with Some f => get_item f fs | None => INil end.

(* ofObject / ofActor *)
Definition of_object (t : bytes) (fs : list (fid * fval)) : item :=
  match explicit_of object_field t fs with INil => of_iri t (get_str F_ID fs) | it => it end.
Definition of_actor_item (t : bytes) (fs : list (fid * fval)) : item :=
  match explicit_of actor_field t fs with INil => of_iri t (get_str F_ID fs) | it => it end.

(* CollectionPath.Of as repaired (two fix: commits): an Actor struct answers for the actor collections
   with its own properties, whatever its Type; everything else goes through the Object view.
   None = unmodelled (item collections and IRI slices). *)
Definition coll_of (t : bytes) (i : item) : option item :=
  if is_nil i then Some INil
  else match i with
       | INil | ITNil _ => Some INil
       | IItems _ _ | IIris _ _ => None
       | IIri _ s => Some (of_iri t s)
       | IObj _ KLink fs => Some (of_iri t (get_str F_ID fs))
       | IObj _ KActor fs =>
           if contains tl_OfActor t then Some (of_actor_item t fs) else Some (of_object t fs)
       | IObj _ _ fs => Some (of_object t fs)
       end.

(* after the first fix only: the actor branch was still gated on the Type property *)
Definition coll_of_gated (t : bytes) (i : item) : option item :=
  if is_nil i then Some INil
  else match i with
       | INil | ITNil _ => Some INil
       | IItems _ _ | IIris _ _ => None
       | IIri _ s => Some (of_iri t s)
       | IObj _ KLink fs => Some (of_iri t (get_str F_ID fs))
       | IObj _ KActor fs =>
           if contains tl_OfActor t && contains tl_ActorTypes (get_str F_Type fs)
           then Some (of_actor_item t fs) else Some (of_object t fs)
       | IObj _ _ fs => Some (of_object t fs)
       end.

(* pinned tree: the unconditional OnObject at the end of Of() overwrites whatever the actor branch found *)
Definition coll_of_pinned (t : bytes) (i : item) : option item :=
  if is_nil i then Some INil
  else match i with
       | INil | ITNil _ => Some INil
       | IItems _ _ | IIris _ _ => None
       | IIri _ s => Some (of_iri t s)
       | IObj _ KLink fs => Some (of_iri t (get_str F_ID fs))
       | IObj _ _ fs => Some (of_object t fs)
       end.

Definition link_of (i : item) : bytes := match get_link i with Ok s => s | _ => [] end.

(* CollectionPath.IRI, parametric in Of *)
Definition coll_iri_with (of : bytes -> item -> option item) (t : bytes) (i : item) : option bytes :=
  if is_nil i then Some (irif [] t)
  else if is_object i then
         match of t i with
         | None => None
         | Some it => if negb (is_nil it) then Some (link_of it) else Some (irif (link_of i) t)
         end
       else match i with
            | IItems _ _ | IIris _ _ => None
            | _ => Some (irif (link_of i) t)
            end.
Definition coll_iri := coll_iri_with coll_of.
Definition coll_iri_gated := coll_iri_with coll_of_gated.
Definition coll_iri_pinned := coll_iri_with coll_of_pinned.

(* CollectionPath.AddTo: (returned IRI, status, the item afterwards).  A struct passed by value is
   copied by ToActor/ToObject, so only pointer forms are changed. *)
Definition add_to_field (fld : bytes -> option fid) (t : bytes) (ptr : bool) (k : kind) (fs : list (fid * fval))
  : bytes * bool * item :=
  match fld t with
  | Some f =>
      if is_nil (get_item f fs)
      then let iri := irif (get_str F_ID fs) t in
           (iri, true, IObj ptr k (if ptr then setf f (FItem (IIri false iri)) fs else fs))
      else ([], false, IObj ptr k fs)
  | None => ([], false, IObj ptr k fs)
  end.

Definition add_to (t : bytes) (i : item) : option (bytes * bool * item) :=
  if is_nil i then Some (nil_iri, false, i)
  else match i with
       | IObj ptr k fs =>
           match k with
           | KLink => Some (nil_iri, false, i)
           | _ =>
               if contains tl_OfActor t then
                 match k with
                 | KActor => Some (add_to_field actor_field t ptr k fs)
                 | _ => Some ([], false, i)
                 end
               else if contains tl_OfObject t then Some (add_to_field object_field t ptr k fs)
               else Some (irif (get_str F_ID fs) t, false, i)
           end
       | IItems _ _ | IIris _ _ => None
       | _ => Some (nil_iri, false, i)
       end.
