(* typer.go CollectionPaths.Contains/Split, Split, CollectionPath.OfActor, ValidCollection*, ValidCollectionIRI over
   the wide models of the libraries (Model/UrlU.v: url.Parse / URL.String on bytes >= 0x80 and every escape;
   Model/Fold.v: strings.EqualFold with Unicode simple folding).  The code is that of Model/CollIri.v; IRIf,
   AddPath, filepath.Split / Join are string operations and are shared with it.  Definitions only. *)
From AP.Model Require Import Prelude Bytes Url IriEq Vocab Pred CollIri Utf8 Fold UrlU IriEqU.
From AP.Gen Require Import TypeLists.

(* CollectionPaths.Contains: strings.EqualFold against every member *)
Definition contains_u (names : list bytes) (c : bytes) : bool := existsb (fun n => ufold_eqb c n) names.

(* CollectionPaths.Split; None = the IRI is outside the model (userinfo, IP literal) *)
Definition coll_split_u (names : list bytes) (i : bytes) : option (bytes * bytes) :=
  match (match i with [] => UErr | _ => url_parse_u i end) with
  | UOut => None
  | UUrl u =>
      let '(dir, file) := path_split (uu_path u) in
      match dir with
      | [] => Some (i, [])
      | _ => Some (url_string_u (with_path_u u (trim_right_byte slash dir)),
                   if contains_u names file then file else [])
      end
  | UErr =>
      let '(dir, file) := path_split i in
      match dir with
      | [] => Some (i, [])
      | _ => if contains_u names file then Some (trim_right_byte slash dir, file) else Some (i, [])
      end
  end.

Definition split_u (i : bytes) : option (bytes * bytes) := coll_split_u tl_ActivityPubCollections i.

(* CollectionPath.OfActor *)
Definition of_actor_u (t i : bytes) : outcome bytes :=
  let '(dir, file) := path_split i in
  if ufold_eqb file t then Ok (trim_right_byte slash dir) else Err.

Definition get_valid_activity_collection_u (t : bytes) : bytes :=
  if contains_u tl_validActivityCollection t then t else [].
Definition get_valid_object_collection_u (t : bytes) : bytes :=
  match find (fun n => ufold_eqb t n) valid_object_collections with Some n => n | None => [] end.
Definition get_valid_collection_u (t : bytes) : bytes :=
  match get_valid_activity_collection_u t with
  | [] => get_valid_object_collection_u t
  | x => x
  end.
Definition valid_activity_collection_u (t : bytes) : bool := nonempty (get_valid_activity_collection_u t).
Definition valid_object_collection_u (t : bytes) : bool := nonempty (get_valid_object_collection_u t).
Definition valid_collection_u (t : bytes) : bool := nonempty (get_valid_collection_u t).

(* ValidCollectionIRI *)
Definition valid_collection_iri_u (i : bytes) : option bool :=
  match split_u i with
  | Some (_, t) => Some (valid_collection_u t)
  | None => None
  end.
