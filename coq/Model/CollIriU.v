(* typer.go CollectionPaths.Contains/Split, Split, CollectionPath.OfActor, ValidCollection*, ValidCollectionIRI over
   the wide models of the libraries (Model/UrlU.v: url.Parse / URL.String on bytes >= 0x80 and every escape;
   Model/Fold.v: strings.EqualFold with Unicode simple folding).  The code is that of Model/CollIri.v, with the name
   comparison of the repaired tree (sameCollectionName; the pinned comparison is kept as ..._pinned); IRIf,
   AddPath, filepath.Split / Join are string operations and are shared with it.  Definitions only. *)
From AP.Model Require Import Prelude Bytes Url IriEq Vocab Pred CollIri Utf8 Fold UrlU IriEqU.
From AP.Gen Require Import TypeLists.

(* sameCollectionName (typer.go, as repaired: "fix: a path segment spelled with U+212A KELVIN SIGN or U+017F LONG S
   was taken for a collection name"): same length in BYTES, then strings.EqualFold.  Against an ASCII name this is
   ASCII case-insensitivity exactly (Proofs/CollIriUP.name_eqb_ascii) *)
Definition name_eqb (a b : bytes) : bool := Nat.eqb (length a) (length b) && ufold_eqb a b.
(* the pinned tree: strings.EqualFold alone (Unicode simple folding: U+212A ~ k, U+017F ~ s) *)
Definition name_eqb_pinned (a b : bytes) : bool := ufold_eqb a b.

(* CollectionPaths.Contains: the name comparison against every member *)
Definition contains_with (neq : bytes -> bytes -> bool) (names : list bytes) (c : bytes) : bool := existsb (fun n => neq c n) names.
Definition contains_u : list bytes -> bytes -> bool := contains_with name_eqb.
Definition contains_u_pinned : list bytes -> bytes -> bool := contains_with name_eqb_pinned.

(* CollectionPaths.Split; None = the IRI is outside the model (never answered since Model/UrlU.v parses userinfo and
   IP literals too) *)
Definition coll_split_with (cont : list bytes -> bytes -> bool) (names : list bytes) (i : bytes) : option (bytes * bytes) :=
  match (match i with [] => UErr | _ => url_parse_u i end) with
  | UOut => None
  | UUrl u =>
      let '(dir, file) := path_split (uu_path u) in
      match dir with
      | [] => Some (i, [])
      | _ => Some (url_string_u (with_path_u u (trim_right_byte slash dir)),
                   if cont names file then file else [])
      end
  | UErr =>
      let '(dir, file) := path_split i in
      match dir with
      | [] => Some (i, [])
      | _ => if cont names file then Some (trim_right_byte slash dir, file) else Some (i, [])
      end
  end.

Definition coll_split_u : list bytes -> bytes -> option (bytes * bytes) := coll_split_with contains_u.
Definition coll_split_u_pinned : list bytes -> bytes -> option (bytes * bytes) := coll_split_with contains_u_pinned.

Definition split_u (i : bytes) : option (bytes * bytes) := coll_split_u tl_ActivityPubCollections i.
Definition split_u_pinned (i : bytes) : option (bytes * bytes) := coll_split_u_pinned tl_ActivityPubCollections i.

(* CollectionPath.OfActor *)
Definition of_actor_with (neq : bytes -> bytes -> bool) (t i : bytes) : outcome bytes :=
  let '(dir, file) := path_split i in
  if neq file t then Ok (trim_right_byte slash dir) else Err.
Definition of_actor_u : bytes -> bytes -> outcome bytes := of_actor_with name_eqb.
Definition of_actor_u_pinned : bytes -> bytes -> outcome bytes := of_actor_with name_eqb_pinned.

Section Valid.
  Variable neq : bytes -> bytes -> bool.
  Definition get_valid_activity_collection_w (t : bytes) : bytes :=
    if contains_with neq tl_validActivityCollection t then t else [].
  Definition get_valid_object_collection_w (t : bytes) : bytes :=
    match find (fun n => neq t n) valid_object_collections with Some n => n | None => [] end.
  Definition get_valid_collection_w (t : bytes) : bytes :=
    match get_valid_activity_collection_w t with
    | [] => get_valid_object_collection_w t
    | x => x
    end.
  Definition valid_collection_w (t : bytes) : bool := nonempty (get_valid_collection_w t).
  (* ValidCollectionIRI *)
  Definition valid_collection_iri_w (i : bytes) : option bool :=
    match coll_split_with (contains_with neq) tl_ActivityPubCollections i with
    | Some (_, t) => Some (valid_collection_w t)
    | None => None
    end.
End Valid.

Definition get_valid_activity_collection_u : bytes -> bytes := get_valid_activity_collection_w name_eqb.
Definition get_valid_object_collection_u : bytes -> bytes := get_valid_object_collection_w name_eqb.
Definition get_valid_collection_u : bytes -> bytes := get_valid_collection_w name_eqb.
Definition valid_activity_collection_u (t : bytes) : bool := nonempty (get_valid_activity_collection_u t).
Definition valid_object_collection_u (t : bytes) : bool := nonempty (get_valid_object_collection_u t).
Definition valid_collection_u : bytes -> bool := valid_collection_w name_eqb.
Definition valid_collection_iri_u : bytes -> option bool := valid_collection_iri_w name_eqb.
(* the pinned tree *)
Definition valid_collection_iri_u_pinned : bytes -> option bool := valid_collection_iri_w name_eqb_pinned.
