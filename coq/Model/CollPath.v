(* typer.go: CollectionPath.Of / ofItemCollection / ofObject / ofActor / IRI / AddTo on EVERY item - lists included -
   with the panics of a nil dereference in ofObject / ofActor as explicit outcomes.  Definitions only.

   Model/CollIri.v (property C15) describes the same functions on single objects, actors, links and IRIs
   ([coll_of], [coll_iri], [add_to]) and answers None on a list.  Here a list is walked as the code walks it:

     func (t CollectionPath) Of(i Item) Item {
         if IsNil(i) { return nil }
         it := t.ofIRI(i.GetLink())
         if IsItemCollection(i) {                          // a list of t.Of(member), member by member
             OnItemCollection(i, func(col *ItemCollection) error { it = t.ofItemCollection( *col); return nil })
         }
         if OfActor.Contains(t) {
             if a, err := ToActor(i); err == nil { return t.ofActor(a) }
         }
         OnObject(i, func(o *Object) error { it = t.ofObject(o); return nil })   // on a list: once per member it gets to
         return it
     }

   OnObject on a list is the walk of Model/OnTab.v ([visit_struct] with ToObject and the guard of OnObject's loop -
   a parameter here, read off the regenerated table by Props/C20.v): the closure runs for every member the walk
   hands over and the LAST one decides the result; a nil pointer handed to it is dereferenced by ofObject
   (`ob.Likes`, `ob.ID`): Panic NilDeref.  The conversions are a parameter as in Model/OnTab.v (instantiated with
   Gen/Conv.v over Gen/Layout.v).  Proofs/CollPathP.v: none of Of / IRI / AddTo panics on any item, whatever its
   members, when the loop of OnObject passes over nil members; with the pinned loop Likes.Of of a list whose only member is a nil pointer to Object panics. *)
From AP.Model Require Import Prelude Bytes Vocab Pred Layout Views Conv Url IriEq CollIri Recip OnTab.
From AP.Gen Require Import TypeLists.

Definition n_ToObject := B "ToObject".
Definition n_ToActor := B "ToActor".

Section Paths.
  Variable conv : bytes -> option (item -> conv_result).
  Variable g_obj : loop_guard.          (* which members the loop of OnObject passes over *)

  Let targ0 : bool * kind := (false, KObject).   (* no generic conversion is involved *)
  Let never_err : otrace -> oval -> bool := fun _ _ => false.   (* the closures of typer.go return nil *)

  (* t.ofObject(ob) / t.ofActor(a) on the pointer they are handed *)
  Definition of_object_ptr (t : bytes) (p : oval) : outcome item :=
    match p with
    | OvItem (IObj true _ fs) => Ok (of_object t fs)
    | OvItem (ITNil _) | OvItem INil | OvNil => Panic NilDeref       (* ob.Likes / ob.ID on a nil pointer *)
    | _ => Err                                                       (* a pointer the model does not describe *)
    end.
  Definition of_actor_ptr (t : bytes) (p : oval) : outcome item :=
    match p with
    | OvItem (IObj true _ fs) => Ok (of_actor_item t fs)
    | OvItem (ITNil _) | OvItem INil | OvNil => Panic NilDeref
    | _ => Err
    end.

  Fixpoint last_opt {A} (l : list A) : option A :=
    match l with [] => None | [x] => Some x | _ :: r => last_opt r end.

  (* OnObject(i, func(o) { it = t.ofObject(o); return nil }); the error OnObject returns is dropped *)
  Definition after_object (t : bytes) (i : item) (it1 : item) : outcome item :=
    let '(tr, res) := visit_struct conv targ0 never_err n_ToObject g_obj i [] in
    match res with
    | Panic p => Panic p
    | OutOfFuel => OutOfFuel
    | _ => if existsb arg_is_nil tr then Panic NilDeref
           else match last_opt tr with
                | Some p => of_object_ptr t p
                | None => Ok it1
                end
    end.

  (* if OfActor.Contains(t) { if a, err := ToActor(i); err == nil { return t.ofActor(a) } }; otherwise go on *)
  Definition actor_branch (t : bytes) (i : item) (k : outcome item) : outcome item :=
    if contains tl_OfActor t then
      match leaf conv targ0 n_ToActor [OvItem i] with
      | Ok [p; OvNil] => of_actor_ptr t p
      | Ok [_; OvErr] => k
      | Ok _ => Err
      | Err => Err
      | Panic q => Panic q
      | OutOfFuel => OutOfFuel
      end
    else k.

  (* an item that is no list *)
  Definition of_single (t : bytes) (i : item) : outcome item :=
    if is_nil i then Ok INil
    else actor_branch t i (after_object t i (of_iri t (link_of i))).

  (* t.Of(i) *)
  Fixpoint of_path (t : bytes) (i : item) {struct i} : outcome item :=
    match i with
    | IItems p (Some l) =>
        obind ((fix go (l : list item) : outcome (list item) :=
                  match l with
                  | [] => Ok []
                  | m :: r => obind (of_path t m) (fun x => obind (go r) (fun xs => Ok (x :: xs)))
                  end) l)
              (fun xs => actor_branch t i (after_object t i (IItems false (Some xs))))
    | IItems true None => actor_branch t i (after_object t i (IItems false (Some [])))
    | IIris p lo =>
        if is_nil i then Ok INil
        else obind ((fix go (l : list bytes) : outcome (list item) :=
                       match l with
                       | [] => Ok []
                       | s :: r => obind (of_single t (IIri false s)) (fun x => obind (go r) (fun xs => Ok (x :: xs)))
                       end) (olst lo))
                   (fun xs => actor_branch t i (after_object t i (IItems false (Some xs))))
    | other => of_single t other
    end.

  (* t.IRI(i) *)
  Definition iri_path (t : bytes) (i : item) : outcome bytes :=
    if is_nil i then Ok (irif [] t)
    else if is_object i then
           obind (of_path t i) (fun it =>
             if negb (is_nil it) then get_link it                       (* it.GetLink() *)
             else obind (get_link i) (fun l => Ok (irif l t)))
         else obind (get_link i) (fun l => Ok (irif l t)).

  (* t.AddTo(i): (IRI, status, the item afterwards).  The closures of AddTo dereference the pointer they are handed
     (a.Inbox, a.GetLink()), so a nil pointer is a panic there as well; OnActor / OnObject on what passes the guard
     `IsNil(i) || !i.IsObject()` is the conversion of one struct *)
  Definition handed (tofn : bytes) (i : item) : outcome (option oval) :=
    match leaf conv targ0 tofn [OvItem i] with
    | Ok [p; OvNil] => Ok (Some p)
    | Ok [_; OvErr] => Ok None
    | Ok _ => Err
    | Err => Err
    | Panic q => Panic q
    | OutOfFuel => OutOfFuel
    end.
  Definition add_to_path (t : bytes) (i : item) : outcome (bytes * bool * item) :=
    if is_nil i then Ok (nil_iri, false, i)
    else obind (meth_is_object i) (fun o =>
      if negb o then Ok (nil_iri, false, i)
      else
        let tofn := if contains tl_OfActor t then Some n_ToActor
                    else if contains tl_OfObject t then Some n_ToObject else None in
        match tofn with
        | None => obind (get_link i) (fun l => Ok (irif l t, false, i))
        | Some f =>
            obind (handed f i) (fun h =>
              match h with
              | Some p => if arg_is_nil p then Panic NilDeref
                          else match add_to t i with Some r => Ok r | None => Err end
              | None => Ok ([], false, i)                               (* the conversion refused: nothing happens *)
              end)
        end).
End Paths.

(* the pinned loop of OnObject: links only *)
Definition of_path_pinned conv := of_path conv GLinkOnly.
