(* The collection containers as a TABLE: Append / Count / Collection / Remove of ItemCollection, Append / Collection /
   Count of IRIs, Append / Contains / Count / Collection of Collection, CollectionPage, OrderedCollection and
   OrderedCollectionPage, and ToItemCollection.

   Gen/CollT.v (regenerated from the source on every run by translator/gobody.go) holds their 24 bodies statement by
   statement in the language of Model/GoBody.v.  ItemCollection.Contains and IRIs.Contains are in Gen/ItemsEqT.v already
   (Model/ItemsEqTab.v); they enter here as callees.  This file: the names, the call environment (what ItemsEqual,
   ItemCollection.Contains, IRIs.Contains, IsNil, GetLink and the reflection fallback of ToItemCollection mean - as
   parameters, so that the theorems can be instantiated with b32's table entries), the statement sequences the
   functions of Model/Coll.v were written after ([coll_model_fns]: ONE template for the four struct types' Append,
   Contains, Count, Collection, instantiated with the type name, the receiver's name and the field) and the decidable
   condition [coll_table_ok]; what the interpreter is proved to compute ([ic_append_o] ... [to_ic_expect]).
   Definitions only.  Proofs/CollTabP.v: for every table satisfying the condition and all arguments,
   interpreter = these, and these = Model/Coll.v / to_item_collection of Model/Equal.v. *)
From AP.Model Require Import Prelude Vocab Pred Layout IriEq Equal Coll TabEq GoBody.
From AP.Model Require ItemsEqTab.

Definition n_items_equal := B "ItemsEqual".
Definition n_is_nil := B "IsNil".
Definition n_reflect_ic := B "reflectItemToType[ItemCollection]".
Definition n_errinv_ic := B "ErrorInvalidType[ItemCollection]".
Definition n_ic_contains := B "ItemCollection.Contains".
Definition n_iris_contains := B "IRIs.Contains".
Definition n_get_link := B "LinkOrIRI.GetLink".

Definition n_ic_append := B "*ItemCollection.Append".
Definition n_ic_count := B "*ItemCollection.Count".
Definition n_ic_collection := B "*ItemCollection.Collection".
Definition n_ic_remove := B "*ItemCollection.Remove".
Definition n_to_ic := B "ToItemCollection".
Definition n_iris_append := B "*IRIs.Append".
Definition n_iris_collection := B "*IRIs.Collection".
Definition n_iris_count := B "*IRIs.Count".

(* the four struct containers: Go type name, receiver name, the field holding the members *)
Inductive scont := SCollection | SCollectionPage | SOrdered | SOrderedPage.
Definition sc_all : list scont := [SCollection; SCollectionPage; SOrdered; SOrderedPage].
Definition sc_type (c : scont) : bytes :=
  match c with
  | SCollection => B "Collection" | SCollectionPage => B "CollectionPage"
  | SOrdered => B "OrderedCollection" | SOrderedPage => B "OrderedCollectionPage"
  end.
Definition sc_recv (c : scont) : bytes := match c with SCollection | SCollectionPage => B "c" | _ => B "o" end.
Definition sc_field (c : scont) : fid := match c with SCollection | SCollectionPage => F_Items | _ => F_OrderedItems end.
Definition sc_kind (c : scont) : kind :=
  match c with
  | SCollection => KCollection | SCollectionPage => KCollectionPage | SOrdered => KOrdered | SOrderedPage => KOrderedPage
  end.
Definition n_sc_append (c : scont) : bytes := B "*" ++ sc_type c ++ B ".Append".
Definition n_sc_contains (c : scont) : bytes := sc_type c ++ B ".Contains".
Definition n_sc_count (c : scont) : bytes := B "*" ++ sc_type c ++ B ".Count".
Definition n_sc_collection (c : scont) : bytes := sc_type c ++ B ".Collection".

(* ------------------------------------------------------------------ what the calls mean *)
Section Env.
  Variable rec : item -> item -> outcome bool.                              (* ItemsEqual *)
  Variable contains : option (list item) -> item -> outcome bool.          (* ItemCollection.Contains, on the list *)
  Variable iris_has : option (list bytes) -> item -> outcome bool.         (* IRIs.Contains *)

  Definition coll_func (n : bytes) (args : list gval) : option (outcome (list gval)) :=
    if bytes_eqb n n_items_equal
    then match args with [GvItem a; GvItem b] => Some (obind (rec a b) (fun r => Ok [GvBool r])) | _ => None end
    else if bytes_eqb n n_is_nil
    then match args with [GvItem a] => Some (Ok [GvBool (is_nil a)]) | _ => None end
    else if bytes_eqb n n_reflect_ic
    (* reflectItemToType[ItemCollection]: nil-like -> (nil, nil); no other item of the universe has a type
       convertible to a pointer to ItemCollection -> (nil, error).  Hand-written leaf. *)
    then match args with
         | [GvItem a] => Some (Ok (if is_nil a then [GvNil; GvNil] else [GvNil; GvErr false]))
         | _ => None
         end
    else if bytes_eqb n n_errinv_ic
    then match args with [GvItem _] => Some (Ok [GvErr false]) | _ => None end
    else None.

  Definition coll_method (n : bytes) (r : gval) (args : list gval) : option (outcome (list gval * option gval)) :=
    if bytes_eqb n n_ic_contains
    then match r, args with
         | GvItem (IItems _ lo), [GvItem x] => Some (obind (contains lo x) (fun b => Ok ([GvBool b], None)))
         | _, _ => None
         end
    else if bytes_eqb n n_iris_contains
    then match r, args with
         | GvItem (IIris _ lo), [GvItem x] => Some (obind (iris_has lo x) (fun b => Ok ([GvBool b], None)))
         | _, _ => None
         end
    else if bytes_eqb n n_get_link
    then match r, args with
         | GvItem i, [] => Some (obind (get_link i) (fun s => Ok ([GvItem (IIri false s)], None)))
         | _, _ => None
         end
    else None.

  Definition coll_env : genv := mkgenv coll_func coll_method.
End Env.

(* the callees read from a table of Gen/ItemsEqT.v (Model/ItemsEqTab.v, builder b32): ItemCollection.Contains and
   IRIs.Contains as that table says them, ItemsEqual = the model's ieq (tied to its tables by C09_ieq_gen) *)
Definition coll_env_t (ietbl : list ItemsEqTab.gofn) : genv :=
  coll_env ieq (ItemsEqTab.sem_contains ietbl ieq) (ItemsEqTab.sem_iris_contains ietbl).
(* the condition on that table: the two entries have the bodies contains_m / iris_contains were written after *)
Definition ic_callees_ok (ietbl : list ItemsEqTab.gofn) : bool :=
  ItemsEqTab.fn_matches ietbl ItemsEqTab.m_ic_contains && ItemsEqTab.fn_matches ietbl ItemsEqTab.m_iris_contains.

(* receivers: a pointer to an item list / an IRI list; None = the nil slice behind the pointer *)
Definition pic (lo : option (list item)) : gval := GvPtr OSame (Some (GvItem (IItems false lo))).
Definition piris (lo : option (list bytes)) : gval := GvPtr OSame (Some (GvItem (IIris false lo))).
Definition pnil : gval := GvPtr OSame None.
(* a variadic argument / a []Item *)
Definition vitems (lo : option (list item)) : gval := GvItem (IItems false lo).

(* ------------------------------------------------------------------ the model's side of the condition *)
Local Notation gv x := (GxVar (B x)).

Definition m_ic_append : gfn gname := mkgfn n_ic_append (Some (B "i")) [B "it"] 1 (gblk [
  GsRange None (Some (B "ob")) (gv "it") (gblk [
    GsIf (GxMethod n_ic_contains (GxDeref (gv "i")) (gxs [gv "ob"])) (gblk [GsContinue]) GsSkip;
    GsAssign (GlDeref (GlVar (B "i"))) (GxAppend (GxDeref (gv "i")) (gxs [gv "ob"]))]);
  GsReturn (gxs [GxNil])]).

Definition m_ic_count : gfn gname := mkgfn n_ic_count (Some (B "i")) [] 1 (gblk [
  GsIf (GxIsNil NcPtr (gv "i")) (gblk [GsReturn (gxs [GxInt 0])]) GsSkip;
  GsReturn (gxs [GxConv n_uint (GxLen (GxDeref (gv "i")))])]).

Definition m_ic_collection : gfn gname := mkgfn n_ic_collection (Some (B "i")) [] 1 (gblk [
  GsReturn (gxs [GxDeref (gv "i")])]).

Definition m_ic_remove : gfn gname := mkgfn n_ic_remove (Some (B "i")) [B "r"] 0 (gblk [
  GsDefine [B "li"] (GxLen (GxDeref (gv "i")));
  GsIf (GxBin OpEq (gv "li") (GxInt 0)) (gblk [GsReturn (gxs [])]) GsSkip;
  GsIf (GxIsNil NcIface (gv "r")) (gblk [GsReturn (gxs [])]) GsSkip;
  GsDefine [B "remIdx"] (GxInt (-1));
  GsRange (Some (B "idx")) (Some (B "it")) (GxDeref (gv "i")) (gblk [
    GsIf (GxCall n_items_equal (gxs [gv "it"; gv "r"])) (gblk [GsAssign (GlVar (B "remIdx")) (gv "idx")]) GsSkip]);
  GsIf (GxBin OpEq (gv "remIdx") (GxInt (-1))) (gblk [GsReturn (gxs [])]) GsSkip;
  GsIf (GxBin OpLt (gv "remIdx") (GxBin OpSub (gv "li") (GxInt 1)))
       (gblk [GsAssign (GlDeref (GlVar (B "i")))
                       (GxAppendSpread (GxSliceTo (GxDeref (gv "i")) (gv "remIdx"))
                                       (GxSliceFrom (GxDeref (gv "i")) (GxBin OpAdd (gv "remIdx") (GxInt 1))))])
       (gblk [GsAssign (GlDeref (GlVar (B "i"))) (GxSliceTo (GxDeref (gv "i")) (gv "remIdx"))])]).

(* ToItemCollection: the nil guard, the type switch, the unreachable tail *)
Definition iris_copy (src : gexp gname) : gstmt gname := gblk [
  GsDefine [B "iris"] (GxMake n_item_collection (GxLen src));
  GsRange (Some (B "j")) (Some (B "ob")) src (gblk [GsAssign (GlIndex (GlVar (B "iris")) (gv "j")) (gv "ob")]);
  GsReturn (gxs [GxAddr (gv "iris"); GxNil])].
Definition field_case (k : kind) (f : fid) : bool * list tcase * gstmt gname :=
  (false, [(CK k, true)], gblk [GsReturn (gxs [GxAddr (GxField (gv "i") f TItems); GxNil])]).

Definition m_to_ic : gfn gname := mkgfn n_to_ic None [B "it"] 2 (gblk [
  GsIf (GxCall n_is_nil (gxs [gv "it"])) (gblk [GsReturn (gxs [GxNil; GxNil])]) GsSkip;
  GsTypeSwitch (Some (B "i")) (gv "it") (gcls [
    (false, [(CKOther n_item_collection, true)], gblk [GsReturn (gxs [gv "i"; GxNil])]);
    (false, [(CKOther n_item_collection, false)], gblk [GsReturn (gxs [GxAddr (gv "i"); GxNil])]);
    field_case KOrdered F_OrderedItems;
    field_case KOrderedPage F_OrderedItems;
    field_case KCollection F_Items;
    field_case KCollectionPage F_Items;
    (false, [(CKOther n_iris, false)], iris_copy (gv "i"));
    (false, [(CKOther n_iris, true)], iris_copy (GxDeref (gv "i")));
    (true, [], gblk [GsReturn (gxs [GxCall n_reflect_ic (gxs [gv "it"])])])]);
  GsReturn (gxs [GxNil; GxCall n_errinv_ic (gxs [gv "it"])])]).

Definition m_iris_append : gfn gname := mkgfn n_iris_append (Some (B "i")) [B "it"] 1 (gblk [
  GsRange None (Some (B "ob")) (gv "it") (gblk [
    GsIf (GxCall n_is_nil (gxs [gv "ob"])) (gblk [GsContinue]) GsSkip;
    GsIf (GxMethod n_iris_contains (GxDeref (gv "i")) (gxs [GxMethod n_get_link (gv "ob") (gxs [])]))
         (gblk [GsContinue]) GsSkip;
    GsAssign (GlDeref (GlVar (B "i"))) (GxAppend (GxDeref (gv "i")) (gxs [GxMethod n_get_link (gv "ob") (gxs [])]))]);
  GsReturn (gxs [GxNil])]).

Definition m_iris_collection : gfn gname := mkgfn n_iris_collection (Some (B "i")) [] 1 (gblk [
  GsDefine [B "res"] (GxMake n_item_collection (GxLen (GxDeref (gv "i"))));
  GsRange (Some (B "k")) (Some (B "iri")) (GxDeref (gv "i")) (gblk [
    GsAssign (GlIndex (GlVar (B "res")) (gv "k")) (gv "iri")]);
  GsReturn (gxs [gv "res"])]).

Definition m_iris_count : gfn gname := mkgfn n_iris_count (Some (B "i")) [] 1 (gblk [
  GsReturn (gxs [GxConv n_uint (GxLen (GxDeref (gv "i")))])]).

(* ONE template per method for the four struct types: that the copies are the same function is now a table condition *)
Definition m_sc_append (c : scont) : gfn gname :=
  let r := GxVar (sc_recv c) in let f := sc_field c in
  mkgfn (n_sc_append c) (Some (sc_recv c)) [B "it"] 1 (gblk [
    GsRange None (Some (B "ob")) (gv "it") (gblk [
      GsIf (GxMethod n_ic_contains (GxField r f TItems) (gxs [gv "ob"])) (gblk [GsContinue]) GsSkip;
      GsAssign (GlField (GlVar (sc_recv c)) f TItems) (GxAppend (GxField r f TItems) (gxs [gv "ob"]))]);
    GsReturn (gxs [GxNil])]).

Definition m_sc_contains (c : scont) : gfn gname :=
  let r := GxVar (sc_recv c) in let f := sc_field c in
  mkgfn (n_sc_contains c) (Some (sc_recv c)) [B "r"] 1 (gblk [
    GsIf (GxBin OpEq (GxLen (GxField r f TItems)) (GxInt 0)) (gblk [GsReturn (gxs [GxBool false])]) GsSkip;
    GsRange None (Some (B "it")) (GxField r f TItems) (gblk [
      GsIf (GxCall n_items_equal (gxs [gv "it"; gv "r"])) (gblk [GsReturn (gxs [GxBool true])]) GsSkip]);
    GsReturn (gxs [GxBool false])]).

Definition m_sc_count (c : scont) : gfn gname :=
  let r := GxVar (sc_recv c) in let f := sc_field c in
  mkgfn (n_sc_count c) (Some (sc_recv c)) [] 1 (gblk [
    GsIf (GxIsNil NcPtr r) (gblk [GsReturn (gxs [GxInt 0])]) GsSkip;
    GsReturn (gxs [GxConv n_uint (GxLen (GxField r f TItems))])]).

Definition m_sc_collection (c : scont) : gfn gname :=
  mkgfn (n_sc_collection c) (Some (sc_recv c)) [] 1 (gblk [
    GsReturn (gxs [GxField (GxVar (sc_recv c)) (sc_field c) TItems])]).

Definition coll_model_fns : list (gfn gname) := Eval vm_compute in
  [m_ic_append; m_ic_count; m_ic_collection; m_ic_remove; m_to_ic; m_iris_append; m_iris_collection; m_iris_count]
  ++ flat_map (fun c => [m_sc_append c; m_sc_contains c; m_sc_count c; m_sc_collection c]) sc_all.

Definition coll_table_ok (tbl : list (gfn gname)) : bool := body_table_ok coll_model_fns tbl.
Definition coll_first_bad (tbl : list (gfn gname)) := first_bad_body coll_model_fns tbl.

(* ------------------------------------------------------------------ what the interpreter is proved to compute *)
(* with the nil / empty distinction of the Go slices kept (Model/Coll.v works on the contents) *)
Definition ic_append_o (lo : option (list item)) (obs : list item) : option (list item) :=
  fold_left (fun acc ob => if ic_contains (lst acc) ob then acc else Some (lst acc ++ [ob])) obs lo.

Definition ic_remove_o (lo : option (list item)) (r : item) : option (list item) :=
  match lo with
  | None | Some [] => lo
  | Some l =>
      match r with
      | INil => lo
      | _ => match g_last_idx item items_eqb l r with
             | None => lo
             | Some k => Some (if k <? length l - 1 then firstn k l ++ skipn (S k) l else firstn k l)
             end
      end
  end.

Definition iris_append_o (lo : option (list bytes)) (obs : list item) : option (list bytes) :=
  fold_left (fun acc ob => if is_nil ob then acc
                           else if iris_contains_item (lst acc) (IIri false (lnk ob)) then acc
                           else Some (lst acc ++ [lnk ob])) obs lo.

(* the struct containers: the field list after Append *)
Definition sc_append_fs (f : fid) (fs : list (fid * fval)) (obs : list item) : list (fid * fval) :=
  fold_left (fun fs ob => if ic_contains (lst (get_items f fs)) ob then fs
                          else setf f (FItems (Some (lst (get_items f fs) ++ [ob]))) fs) obs fs.

(* ToItemCollection: (pointer, error); where the pointer points is part of the result *)
Definition to_ic_expect (i : item) : list gval :=
  if is_nil i then [GvNil; GvNil]
  else match i with
       | IItems true lo => [GvPtr OSame (Some (GvItem (IItems false lo))); GvNil]
       | IItems false lo => [GvPtr OFresh (Some (GvItem (IItems false lo))); GvNil]
       | IIris _ lo => [GvPtr OFresh (Some (GvItem (IItems false (Some (map (IIri false) (lst lo)))))); GvNil]
       | IObj true (KCollection | KCollectionPage) fs =>
           [GvPtr (OInto F_Items) (Some (GvItem (IItems false (get_items F_Items fs)))); GvNil]
       | IObj true (KOrdered | KOrderedPage) fs =>
           [GvPtr (OInto F_OrderedItems) (Some (GvItem (IItems false (get_items F_OrderedItems fs)))); GvNil]
       | _ => [GvNil; GvErr false]
       end.

(* the members behind a ToItemCollection result; None = an error *)
Definition ic_members (rs : list gval) : option (option (list item)) :=
  match rs with
  | [GvPtr _ (Some (GvItem (IItems false lo))); GvNil] => Some (Some (lst lo))
  | [GvNil; GvErr false] => Some None
  | _ => None
  end.

(* a collection value holds its members in the field of its own type (what the harness renders; a reinterpreted
   collection is C08's subject) *)
Definition own_list_only (i : item) : bool :=
  match i with
  | IObj _ (KCollection | KCollectionPage) fs => match get_items F_OrderedItems fs with None => true | Some _ => false end
  | IObj _ (KOrdered | KOrderedPage) fs => match get_items F_Items fs with None => true | Some _ => false end
  | _ => true
  end.
