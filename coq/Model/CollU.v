(* The six containers (Append / Contains / Remove / Count / Collection) over the WIDE model of IRI.Equals (builder b47):
   the definitions of module CoG of Model/Coll.v - parametric in the IRI comparison; Model/Coll.v instantiates them with
   iri_eqb (IRI.Equals over the plain URL grammar) - instantiated with [iri_equ] of Model/IriEqU.v (IRI.Equals on all
   byte strings), over ItemsEqual of Model/EqualU.v.  There is no second model of the containers.  Definitions only. *)
From AP.Model Require Import Prelude Vocab Pred IriEq IriEqU Equal EqualU Coll.

Definition items_eqb_u : item -> item -> bool := CoG.items_eqb iri_equ.
Definition ic_contains_u := CoG.ic_contains iri_equ.
Definition ic_append_u := CoG.ic_append iri_equ.
Definition ic_remove_u := CoG.ic_remove iri_equ.
Definition iris_contains_item_u := CoG.iris_contains_item iri_equ.
Definition iris_append_u := CoG.iris_append iri_equ.
Definition c_run_u := CoG.c_run iri_equ.
