(* The To* conversion family as an interpreter over the generated case tables (Gen/Conv.v). *)
From AP.Model Require Import Prelude Vocab Pred Layout Views.

Inductive conv_result :=
| CRNil                       (* (nil, nil) *)
| CRNilPtr                    (* a typed nil pointer of the target type, no error *)
| CRErr                       (* (nil, error) *)
| CRPanic
| CRView (alias : bool) (v : item)   (* pointer to the original (alias) or to a copy, seen at the target type *)
| CRBroken                    (* a reinterpretation whose view is not backed by the source value *)
| CRUnmodelled.

Section Conv.
  Variable layout_of : kind -> list fdecl.
  Variable sizeof_kind : kind -> nat.
  Variable reflect_convertible : list (kind * kind).

  Definition shape_of (i : item) : option (cast_kind * bool) :=
    match i with
    | INil => None
    | ITNil k => Some (CK k, true)
    | IObj p k _ => Some (CK k, p)
    | IIri p _ => Some (CKOther (B "IRI"), p)
    | IItems p _ => Some (CKOther (B "ItemCollection"), p)
    | IIris p _ => Some (CKOther (B "IRIs"), p)
    end.

  Definition cast_kind_eqb (a b : cast_kind) : bool :=
    match a, b with
    | CK x, CK y => kind_beq x y
    | CKOther x, CKOther y => bytes_eqb x y
    | _, _ => false
    end.

  Definition find_case (tbl : list conv_case) (s : cast_kind * bool) : option conv_case :=
    find (fun c => cast_kind_eqb (cv_src c) (fst s) && Bool.eqb (cv_ptr c) (snd s)) tbl.

  Definition reflect_ok (src dst : kind) : bool :=
    existsb (fun p => kind_beq (fst p) src && kind_beq (snd p) dst) reflect_convertible.

  (* struct-kind targets only; the two slice targets (ToItemCollection, ToIRIs) are modelled in Coll.v *)
  Definition conv_item (tbl : list conv_case) (dflt : conv_action) (dst : kind) (i : item) : conv_result :=
    let fallback (a : conv_action) :=
      match a with
      | AReflect =>
          if is_nil i then CRNil
          else match i with
               | IObj true k fs => if reflect_ok k dst then CRUnmodelled else CRErr
               | _ => CRErr
               end
      | AReflectInline =>
          match i with
          | INil => CRPanic           (* reflect.TypeOf(nil).ConvertibleTo: nil interface method call *)
          | IObj true k _ | ITNil k => if reflect_ok k dst then CRUnmodelled else CRErr
          | _ => CRErr
          end
      | ANoDefault => CRErr
      | _ => CRUnmodelled
      end in
    match shape_of i with
    | None => fallback dflt
    | Some s =>
        match find_case tbl s with
        | None => fallback dflt
        | Some c =>
            match cv_action c, i with
            | AIdent, ITNil _ => CRNilPtr
            | AIdent, IObj _ k fs => CRView true (IObj true k fs)
            | AAddrOfCopy, IObj _ k fs => CRView false (IObj true k fs)
            | ACast (CK d), ITNil _ => CRNilPtr
            | ACast (CK d), IObj _ k fs =>
                match view_fields layout_of sizeof_kind d k fs with
                | Some vf => CRView true (IObj true d vf)
                | None => CRBroken
                end
            | ACastOfCopy (CK d), IObj _ k fs =>
                match view_fields layout_of sizeof_kind d k fs with
                | Some vf => CRView false (IObj true d vf)
                | None => CRBroken
                end
            | _, _ => CRUnmodelled
            end
        end
    end.
End Conv.
