(* copy.go: CopyItemProperties, copyAllItemProperties, the per-type Copy*/Update* functions and the
   replaceIf* helpers.  Definitions only.

   The per-type functions are NOT modelled by hand: the translator regenerates, on every run,
   coq/Gen/CopyRules.v (per function the ordered list of (field, rule) and delegations, the guard
   sequence of CopyItemProperties, the dispatch of copyAllItemProperties, the source text of the
   replaceIf* helpers).  This file gives those tables their meaning (the interpreter), and states the
   decidable table condition [tables_ok] under which the property theorems hold for every input. *)
From AP.Model Require Import Prelude Vocab Pred Layout.

(* ------------------------------------------------------------------ table vocabulary *)
Inductive crule :=
| ReplaceIfItem | ReplaceIfItems | ReplaceIfNlv      (* to.F = replaceIfX(to.F, from.F) *)
| IfFromNonEmpty                                      (* if len(from.F) > 0 { to.F = from.F } *)
| IfFromNonZero                                       (* if !from.F.IsZero() / from.F != 0 / from.F != nil *)
| IfToZeroAndFromNonZero                              (* if to.F.IsZero() && !from.F.IsZero() *)
| IfToZero                                            (* if to.F == 0 *)
| IfFromZero                                          (* if from.F == 0  (the inverted guard) *)
| Always                                              (* to.F = from.F *)
| ReplaceIfSource.                                    (* to.F = replaceIfSource(to.F, from.F) *)

Inductive cstep :=
| CRule (f : fid) (r : crule)
| CDelegate (x : kind) (fn : bytes)     (* a, _ := ToX(to); b, _ := ToX(from); _, err := fn(a, b) *)
| CUnrecognised (src pos : bytes).

Record copyfn := mkcopyfn { cf_name : bytes; cf_kind : kind; cf_steps : list cstep }.

Inductive cguard :=
| GToNil | GFromNil                                   (* if to == nil / from == nil { return to, error } *)
| GToIsNil | GFromIsNil                               (* if IsNil(to) / IsNil(from) { return to, error } *)
| GIdsDiffer | GTypesDiffer                           (* ids not equivalent / to typed differently *)
| GDispatch                                           (* return copyAllItemProperties(to, from) *)
| GUnrecognised (src pos : bytes).

Inductive dcond :=
| DTypeIs (name : bytes)                 (* XType == to.GetType() *)
| DTypeIn (lst : bytes)                  (* L.Contains(to.GetType()) *)
| DTypeInOrEmpty (lst : bytes).          (* L.Contains(to.GetType()) || to.GetType() == "" *)

Inductive dcase :=
| DCase (c : dcond) (x : kind) (fn : bytes)   (* o := ToX(to) ; n := ToX(from) ; return fn(o, n), errors returned *)
| DDefaultErr
| DUnrecognised (src pos : bytes).

Record copy_tables := mkct {
  ct_fns : list copyfn;
  ct_guards : list cguard;
  ct_dispatch : list dcase;
  ct_helpers : list (bytes * bytes);
  ct_lists : list (bytes * list bytes);     (* Gen/TypeLists.type_lists *)
  ct_layout : kind -> list fdecl;           (* Gen/Layout.layout_of *)
  ct_casts : list cast_site }.              (* Gen/Casts.casts *)

(* ------------------------------------------------------------------ helpers: recognised source text *)
Definition helper_item_text : bytes :=
  B "func(old, new Item) Item { if new == nil { return old } return new }".
Definition helper_items_text : bytes :=
  B "func(old, new ItemCollection) ItemCollection { if new == nil { return old } return new }".
Definition helper_nlv_text : bytes :=
  B "func(old, new NaturalLanguageValues) NaturalLanguageValues { if new == nil { return old } return new }".
(* replaceIfSource of the pinned tree *)
Definition helper_source_pinned_text : bytes :=
  B "func(to, from Source) Source { if from.MediaType != to.MediaType { return from } to.Content = replaceIfNaturalLanguageValues(to.Content, from.Content) return to }".
(* replaceIfSource after the fix: an absent source in the update keeps the stored one *)
Definition helper_source_fixed_text : bytes :=
  B "func(to, from Source) Source { if len(from.MediaType) == 0 && from.Content == nil { return to } if from.MediaType != to.MediaType { return from } to.Content = replaceIfNaturalLanguageValues(to.Content, from.Content) return to }".

Fixpoint lookup_b {A} (k : bytes) (l : list (bytes * A)) : option A :=
  match l with
  | [] => None
  | (k', v) :: r => if bytes_eqb k k' then Some v else lookup_b k r
  end.

Definition helper_is (T : copy_tables) (name text : bytes) : bool :=
  match lookup_b name (ct_helpers T) with Some t => bytes_eqb t text | None => false end.

Inductive src_variant := SrcFixed | SrcPinned.
Definition source_variant (T : copy_tables) : option src_variant :=
  if helper_is T (B "replaceIfSource") helper_source_fixed_text then Some SrcFixed
  else if helper_is T (B "replaceIfSource") helper_source_pinned_text then Some SrcPinned
  else None.

(* ------------------------------------------------------------------ meaning of one rule
   A field is an [option fval]: None = the Go zero value (unset). *)
Definition is_set (o : option fval) : bool := match o with Some _ => true | None => false end.

Definition len_gt0 (o : option fval) : bool :=
  match o with
  | Some (FStr (_ :: _)) | Some (FItems (Some (_ :: _))) | Some (FNlv (Some (_ :: _))) => true
  | _ => false
  end.

Definition source_parts (o : option fval) : bytes * nlv :=
  match o with Some (FSource mt c) => (mt, c) | _ => ([], None) end.
Definition mk_source (mt : bytes) (c : nlv) : option fval :=
  match mt, c with [], None => None | _, _ => Some (FSource mt c) end.
Definition replace_if_nlv (old new : nlv) : nlv := match new with None => old | Some _ => new end.

Definition replace_if_source (v : src_variant) (t f : option fval) : option fval :=
  let '(tm, tc) := source_parts t in
  let '(fm, fc) := source_parts f in
  let tail := if negb (bytes_eqb fm tm) then f else mk_source tm (replace_if_nlv tc fc) in
  match v with
  | SrcPinned => tail
  | SrcFixed => match f with None => t | Some _ => tail end
  end.

Definition rule_fun (T : copy_tables) (r : crule) : option (option fval -> option fval -> option fval) :=
  let from_if_set := fun t f : option fval => if is_set f then f else t in
  match r with
  | ReplaceIfItem => if helper_is T (B "replaceIfItem") helper_item_text then Some from_if_set else None
  | ReplaceIfItems => if helper_is T (B "replaceIfItemCollection") helper_items_text then Some from_if_set else None
  | ReplaceIfNlv => if helper_is T (B "replaceIfNaturalLanguageValues") helper_nlv_text then Some from_if_set else None
  | IfFromNonZero => Some from_if_set
  | IfFromNonEmpty => Some (fun t f => if len_gt0 f then f else t)
  | IfToZeroAndFromNonZero => Some (fun t f => if negb (is_set t) && is_set f then f else t)
  | IfToZero => Some (fun t f => if is_set t then t else f)
  | IfFromZero => Some (fun t f => if is_set f then t else f)
  | Always => Some (fun _ f => f)
  | ReplaceIfSource =>
      if helper_is T (B "replaceIfNaturalLanguageValues") helper_nlv_text
      then match source_variant T with Some v => Some (replace_if_source v) | None => None end
      else None
  end.

(* ------------------------------------------------------------------ conversions To<X> *)
Definition to_name (x : kind) : bytes :=
  match x with
  | KObject => B "ToObject" | KActor => B "ToActor" | KActivity => B "ToActivity"
  | KIntransitive => B "ToIntransitiveActivity" | KQuestion => B "ToQuestion"
  | KCollection => B "ToCollection" | KCollectionPage => B "ToCollectionPage"
  | KOrdered => B "ToOrderedCollection" | KOrderedPage => B "ToOrderedCollectionPage"
  | KPlace => B "ToPlace" | KProfile => B "ToProfile" | KRelationship => B "ToRelationship"
  | KTombstone => B "ToTombstone" | KLink => B "ToLink"
  end.

Definition cast_kind_is (c : cast_kind) (k : kind) : bool :=
  match c with CK k' => kind_beq k k' | CKOther _ => false end.

(* ToX accepts a struct of kind k (value form when [val]): the identity cases `case *X` / `case X`,
   or a cast site of ToX listed in Gen/Casts.v; everything else ends in reflectItemToType, which
   refuses non-convertible pointer types *)
Definition conv_ok (T : copy_tables) (x k : kind) (val : bool) : bool :=
  kind_beq x k ||
  existsb (fun c => bytes_eqb (cs_func c) (to_name x) && cast_kind_is (cs_src c) k
                    && cast_kind_is (cs_dst c) x && Bool.eqb (cs_from_value c) val) (ct_casts T).

(* Items and OrderedItems share a slot: a collection seen through the other family's struct *)
Definition ordered_family (k : kind) : bool := match k with KOrdered | KOrderedPage => true | _ => false end.
Definition unordered_family (k : kind) : bool := match k with KCollection | KCollectionPage => true | _ => false end.
Definition phys (k : kind) (f : fid) : fid :=
  match f with
  | F_Items => if ordered_family k then F_OrderedItems else F_Items
  | F_OrderedItems => if unordered_family k then F_Items else F_OrderedItems
  | _ => f
  end.
Definition same_family (a b : kind) : bool :=
  Bool.eqb (ordered_family a) (ordered_family b) && Bool.eqb (unordered_family a) (unordered_family b).

Definition fields := list (fid * fval).

(* fields of a struct of kind k as seen through *X, in X's declaration order *)
Definition view_fields (T : copy_tables) (x k : kind) (fs : fields) : fields :=
  flat_map (fun fd => match getf (phys k (fd_fid fd)) fs with
                      | Some v => [(fd_fid fd, v)]
                      | None => []
                      end) (ct_layout T x).
Definition norm_fields (T : copy_tables) (k : kind) (fs : fields) : fields := view_fields T k k fs.

Definition conv (T : copy_tables) (x : kind) (it : item) : outcome (option (bool * kind * fields)) :=
  match it with
  | IObj p k fs => if conv_ok T x k (negb p) then Ok (Some (p, k, fs)) else Err
  | ITNil _ => Ok None            (* a nil *X from the type switch, or (nil, nil) from the IsNil test *)
  | _ => if is_nil it then Ok None else Err
  end.

(* ------------------------------------------------------------------ a function as a flat rule list *)
Fixpoint find_fn (n : bytes) (l : list copyfn) : option copyfn :=
  match l with
  | [] => None
  | c :: r => if bytes_eqb n (cf_name c) then Some c else find_fn n r
  end.

(* None: unknown function, static parameter type differs from the conversion target, a delegation
   through a conversion the type switch does not have, an unrecognised statement, or fuel *)
Fixpoint flat_rules (T : copy_tables) (fuel : nat) (fn : bytes) (x : kind) : option (list (fid * crule)) :=
  match fuel with
  | O => None
  | S n =>
      match find_fn fn (ct_fns T) with
      | None => None
      | Some cf =>
          if kind_beq (cf_kind cf) x then
            (fix go (steps : list cstep) : option (list (fid * crule)) :=
               match steps with
               | [] => Some []
               | CRule f r :: rest => option_map (cons (f, r)) (go rest)
               | CDelegate y fn' :: rest =>
                   if conv_ok T y x false then
                     match flat_rules T n fn' y, go rest with
                     | Some l, Some l' => Some (l ++ l')
                     | _, _ => None
                     end
                   else None
               | CUnrecognised _ _ :: _ => None
               end) (cf_steps cf)
          else None
      end
  end.

Definition putf (f : fid) (o : option fval) (fs : fields) : fields :=
  match o with None => delf f fs | Some v => replf f v fs end.

Fixpoint apply_rules (T : copy_tables) (kt kf : kind) (rules : list (fid * crule)) (tfs ffs : fields)
  : option fields :=
  match rules with
  | [] => Some tfs
  | (f, r) :: rest =>
      match rule_fun T r with
      | None => None
      | Some g =>
          apply_rules T kt kf rest
            (putf (phys kt f) (g (getf (phys kt f) tfs) (getf (phys kf f) ffs)) tfs) ffs
      end
  end.

(* ------------------------------------------------------------------ copyAllItemProperties *)
Inductive selection := Sel (x : kind) (fn : bytes) | SelErr | SelBad.

Definition cond_holds (T : copy_tables) (c : dcond) (ty : bytes) : option bool :=
  match c with
  | DTypeIs n => Some (bytes_eqb n ty)
  | DTypeIn l => option_map (existsb (fold_eqb ty)) (lookup_b l (ct_lists T))
  | DTypeInOrEmpty l =>
      option_map (fun names => existsb (fold_eqb ty) names || match ty with [] => true | _ => false end)
                 (lookup_b l (ct_lists T))
  end.

Fixpoint select (T : copy_tables) (ty : bytes) (d : list dcase) : selection :=
  match d with
  | [] => SelBad
  | DCase c x fn :: r =>
      match cond_holds T c ty with
      | Some true => Sel x fn
      | Some false => select T ty r
      | None => SelBad
      end
  | DDefaultErr :: _ => SelErr
  | DUnrecognised _ _ :: _ => SelBad
  end.

Definition copy_fuel : nat := 8.

(* result: (returned item, `to` afterwards).  OutOfFuel = the tables cannot be interpreted
   (an Unrecognised entry, an unknown helper body); excluded by [tables_ok]. *)
Definition copy_all (T : copy_tables) (to from : item) : outcome (item * item) :=
  obind (get_type to) (fun ty =>
    match select T ty (ct_dispatch T) with
    | SelErr => Err
    | SelBad => OutOfFuel
    | Sel x fn =>
        obind (conv T x to) (fun o =>
        obind (conv T x from) (fun n =>
          match o, n with
          | Some (p, kt, tfs), Some (_, kf, ffs) =>
              match flat_rules T copy_fuel fn x with
              | None => OutOfFuel
              | Some rules =>
                  match apply_rules T kt kf rules tfs ffs with
                  | None => OutOfFuel
                  | Some fs' =>
                      Ok (IObj true x (view_fields T x kt fs'),
                          if p then IObj true kt (norm_fields T kt fs') else to)
                  end
              end
          | _, _ => Panic NilDeref       (* the copy function dereferences a nil pointer *)
          end))
    end).

(* ------------------------------------------------------------------ CopyItemProperties *)
Section CopyItem.
  Variable T : copy_tables.
  Variable eqv : bytes -> bytes -> bool.        (* to.GetLink().Equals(from.GetLink(), false) *)

  Fixpoint run_guards (gs : list cguard) (to from : item) : outcome (item * item) :=
    match gs with
    | [] => OutOfFuel
    | GToNil :: r => match to with INil => Err | _ => run_guards r to from end
    | GFromNil :: r => match from with INil => Err | _ => run_guards r to from end
    | GToIsNil :: r => if is_nil to then Err else run_guards r to from
    | GFromIsNil :: r => if is_nil from then Err else run_guards r to from
    | GIdsDiffer :: r =>
        obind (get_link to) (fun a => obind (get_link from) (fun b =>
          if eqv a b then run_guards r to from else Err))
    | GTypesDiffer :: r =>
        obind (get_type to) (fun a =>
          match a with
          | [] => run_guards r to from
          | _ => obind (get_type from) (fun b => if bytes_eqb a b then run_guards r to from else Err)
          end)
    | GDispatch :: _ => copy_all T to from
    | GUnrecognised _ _ :: _ => OutOfFuel
    end.

  (* (what is returned, `to` afterwards): nothing is written before the last refusal point *)
  Definition copy_item_full (to from : item) : outcome item * item :=
    match run_guards (ct_guards T) to from with
    | Ok (r, ta) => (Ok r, ta)
    | Err => (Err, to)
    | Panic p => (Panic p, to)
    | OutOfFuel => (OutOfFuel, to)
    end.
  Definition copy_item (to from : item) : outcome item := fst (copy_item_full to from).
End CopyItem.

(* ------------------------------------------------------------------ specification side (from the property text) *)
(* merged properties = name, summary, content, mediaType, attachment, attributedTo, audience, context,
   generator, icon, image, inReplyTo, location, preview, replies, tag, url, to, bto, cc, bcc, startTime,
   endTime; inbox, outbox, following, followers, liked, preferredUsername; first, last,
   items/orderedItems; partOf, next, prev *)
Definition merged_object : list fid :=
  [F_Name; F_Summary; F_Content; F_MediaType; F_Attachment; F_AttributedTo; F_Audience; F_Context;
   F_Generator; F_Icon; F_Image; F_InReplyTo; F_Location; F_Preview; F_Replies; F_Tag; F_URL;
   F_To; F_Bto; F_CC; F_BCC; F_StartTime; F_EndTime].
Definition merged (k : kind) : list fid :=
  match k with
  | KObject => merged_object
  | KActor => merged_object ++ [F_Inbox; F_Outbox; F_Following; F_Followers; F_Liked; F_PreferredUsername]
  | KCollection => merged_object ++ [F_First; F_Last; F_Items]
  | KOrdered => merged_object ++ [F_First; F_Last; F_OrderedItems]
  | KCollectionPage => merged_object ++ [F_First; F_Last; F_Items; F_PartOf; F_Next; F_Prev]
  | KOrderedPage => merged_object ++ [F_First; F_Last; F_OrderedItems; F_PartOf; F_Next; F_Prev]
  | _ => []
  end.
(* type names the property expects to be supported, with the struct type that goes with each
   (objects, actors, the four collections; written out from the vocabulary, not read from the code) *)
Definition spec_supported : list (bytes * kind) :=
  map (fun n => (B n, KObject)) ["Article"; "Audio"; "Document"; "Event"; "Image"; "Note"; "Page"; "Video";
                                 "Place"; "Profile"; "Relationship"; "Tombstone"; ""]%string
  ++ map (fun n => (B n, KActor)) ["Application"; "Group"; "Organization"; "Person"; "Service"]%string
  ++ [(B "Collection", KCollection); (B "CollectionPage", KCollectionPage);
      (B "OrderedCollection", KOrdered); (B "OrderedCollectionPage", KOrderedPage)].
Definition supported_ok (T : copy_tables) : bool :=
  forallb (fun tk => match select T (fst tk) (ct_dispatch T) with
                     | Sel x _ => kind_beq x (snd tk)
                     | _ => false
                     end) spec_supported.
Definition copy_kinds : list kind := [KObject; KActor; KCollection; KCollectionPage; KOrdered; KOrderedPage].

(* values: no stored zero values, every field declared by the kind's struct with a value of its Go type *)
Definition type_ok (t : gotype) (v : fval) : bool :=
  match t, v with
  | TItem, FItem _ | TItems, FItems _ | TNlv, FNlv _ | TString, FStr _ | TTime, FTime _ | TDur, FDur _
  | TUint, FUint _ | TInt64, FInt _ | TBool, FBool _ | TFloat, FFloat _ | TSource, FSource _ _
  | TEndpoints, FEndpoints _ | TPubKey, FPubKey _ _ _ => true
  | _, _ => false
  end.
Fixpoint find_fd (f : fid) (l : list fdecl) : option fdecl :=
  match l with
  | [] => None
  | d :: r => if fid_beq f (fd_fid d) then Some d else find_fd f r
  end.
Definition wf_fields (T : copy_tables) (k : kind) (fs : fields) : bool :=
  forallb (fun fv => negb (fval_is_zero (snd fv)) &&
                     match find_fd (fst fv) (ct_layout T k) with
                     | Some d => type_ok (fd_type d) (snd fv)
                     | None => false
                     end) fs.

(* the refusal condition of the property: either side nil (the nil item, a typed nil pointer, an empty
   or "-" IRI, a nil list: IsNil), and on pairs of struct values: ids not equivalent, `to` has a type that differs from from's, unsupported type *)
Definition refusal (T : copy_tables) (eqv : bytes -> bytes -> bool) (to from : item) : bool :=
  is_nil to || is_nil from ||
  match to, from with
  | IObj _ _ tfs, IObj _ _ ffs =>
      negb (eqv (get_str F_ID tfs) (get_str F_ID ffs))
      || (match get_str F_Type tfs with [] => false | _ => true end
          && negb (bytes_eqb (get_str F_Type tfs) (get_str F_Type ffs)))
      || match select T (get_str F_Type tfs) (ct_dispatch T) with SelErr => true | _ => false end
  | _, _ => false
  end.

(* the property of a field of the returned value *)
Definition fget (f : fid) (i : item) : option fval :=
  match i with IObj _ _ fs => getf f fs | _ => None end.

(* ------------------------------------------------------------------ the table condition *)
Fixpoint lookup_f {A} (f : fid) (l : list (fid * A)) : option A :=
  match l with
  | [] => None
  | (g, v) :: r => if fid_beq f g then Some v else lookup_f f r
  end.
Fixpoint nodup_f (l : list fid) : bool :=
  match l with
  | [] => true
  | f :: r => negb (existsb (fid_beq f) r) && nodup_f r
  end.

Definition rule_eqb (a b : crule) : bool :=
  match a, b with
  | ReplaceIfItem, ReplaceIfItem | ReplaceIfItems, ReplaceIfItems | ReplaceIfNlv, ReplaceIfNlv
  | IfFromNonEmpty, IfFromNonEmpty | IfFromNonZero, IfFromNonZero
  | IfToZeroAndFromNonZero, IfToZeroAndFromNonZero | IfToZero, IfToZero | IfFromZero, IfFromZero
  | Always, Always | ReplaceIfSource, ReplaceIfSource => true
  | _, _ => false
  end.

(* the update's value wins whenever the update sets the property *)
Definition from_wins_rule (r : crule) : bool :=
  match r with
  | ReplaceIfItem | ReplaceIfItems | ReplaceIfNlv | IfFromNonEmpty | IfFromNonZero => true
  | _ => false
  end.

(* admissible rule for field f of struct x: result is to's or from's value and a value only `to`
   has is kept.  Always is admissible for id and type only (guarded by CopyItemProperties);
   IfFromZero never; IfFromNonEmpty only on strings (where non-empty = set); ReplaceIfSource only
   with the repaired helper. *)
Definition rule_admissible (T : copy_tables) (x : kind) (f : fid) (r : crule) : bool :=
  match find_fd f (ct_layout T x) with
  | None => false
  | Some d =>
      match r with
      | Always => fid_beq f F_ID || fid_beq f F_Type
      | IfFromZero => false
      | IfFromNonEmpty => gotype_eqb (fd_type d) TString
      | ReplaceIfSource =>
          gotype_eqb (fd_type d) TSource && match source_variant T with Some SrcFixed => true | _ => false end
      | _ => true
      end
  end.

Definition is_some {A} (o : option A) : bool := match o with Some _ => true | None => false end.

Definition rules_ok (T : copy_tables) (x : kind) (rules : list (fid * crule)) : bool :=
  nodup_f (map fst rules)
  && forallb (fun fr => rule_admissible T x (fst fr) (snd fr) && is_some (rule_fun T (snd fr))) rules
  && forallb (fun fr => fid_beq (phys x (fst fr)) (fst fr)) rules
  && forallb (fun f => match lookup_f f rules with Some r => from_wins_rule r | None => false end) (merged x)
  && match lookup_f F_ID rules with Some Always => true | _ => false end
  && match lookup_f F_Type rules with Some Always => true | _ => false end.

Definition guard_eqb (a b : cguard) : bool :=
  match a, b with
  | GToNil, GToNil | GFromNil, GFromNil | GToIsNil, GToIsNil | GFromIsNil, GFromIsNil | GIdsDiffer, GIdsDiffer | GTypesDiffer, GTypesDiffer
  | GDispatch, GDispatch => true
  | _, _ => false
  end.
Definition expected_guards : list cguard := [GToIsNil; GFromIsNil; GIdsDiffer; GTypesDiffer; GDispatch].

Definition layout_ok (T : copy_tables) (x : kind) : bool :=
  nodup_f (map fd_fid (ct_layout T x))
  && forallb (fun d => fid_beq (phys x (fd_fid d)) (fd_fid d)) (ct_layout T x)
  && match find_fd F_ID (ct_layout T x), find_fd F_Type (ct_layout T x) with
     | Some a, Some b => gotype_eqb (fd_type a) TString && gotype_eqb (fd_type b) TString
     | _, _ => false
     end.

Definition dcase_ok (T : copy_tables) (d : dcase) : bool :=
  match d with
  | DCase c x fn =>
      is_some (cond_holds T c []) && layout_ok T x &&
      match flat_rules T copy_fuel fn x with
      | Some rules => rules_ok T x rules
      | None => false
      end
  | DDefaultErr => true
  | DUnrecognised _ _ => false
  end.

Fixpoint ends_with_default (d : list dcase) : bool :=
  match d with
  | [] => false
  | [DDefaultErr] => true
  | _ :: r => ends_with_default r
  end.

Definition tables_ok (T : copy_tables) : bool :=
  list_eqb guard_eqb (ct_guards T) expected_guards
  && forallb (dcase_ok T) (ct_dispatch T)
  && ends_with_default (ct_dispatch T).

(* first offending entry, for the diagnostics of a failed table condition *)
Definition first_bad_rule (T : copy_tables) : option (bytes * option (fid * crule)) :=
  (fix go (d : list dcase) :=
     match d with
     | [] => None
     | DCase c x fn :: r =>
         match flat_rules T copy_fuel fn x with
         | None => Some (fn, None)
         | Some rules =>
             match find (fun fr => negb (rule_admissible T x (fst fr) (snd fr) && is_some (rule_fun T (snd fr)))) rules with
             | Some fr => Some (fn, Some fr)
             | None =>
                 match find (fun f => negb match lookup_f f rules with Some r => from_wins_rule r | None => false end) (merged x) with
                 | Some f => Some (fn, Some (f, match lookup_f f rules with Some r => r | None => IfFromZero end))
                 | None => go r
                 end
             end
         end
     | _ :: r => go r
     end) (ct_dispatch T).
