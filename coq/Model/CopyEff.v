(* CopyEff: "`from` is never modified" (property C18) read off the WRITE-EFFECT TABLE of Model/WriteEff.v
   (Gen/WriteEffects.v, regenerated from the SSA form of the package on every run; the semantics - which memory a
   statement writes, how argument bindings carry memory from caller to callee: [freach], [nreach], [node_bad],
   [fn_bad] - is the one of Model/WriteEff.v, nothing is redefined here).  Definitions only; Proofs/CopyEffP.v.

   The Copy family = CopyItemProperties, copyAllItemProperties and every Copy..Properties / Update..Properties
   function of copy.go: package-level functions with the parameters (to, from).  Parameter 0 is `to`, parameter 1
   is `from` (checked on the table by name, not assumed).

   WHAT THE TABLE CAN EXPRESS.  A root RP i d names the memory parameter i gives access to at depth d as the
   points-to analysis sees it for the whole call, flow-insensitively: after `to.Tag = from.Tag` the memory `to`
   reaches at depth 1 and below IS memory of `from` (the merge shares the members, it does not copy them), and
   the To.. views (ToObject(to) handed to the next Copy function) come out of the analysis as "to at depth 0, 1
   or 2" because their reflective default branch may hand back anything its argument reaches.  So the transitive
   node condition of C12, started at the `from` parameters, reaches (CopyOrderedCollectionProperties, RP 0 0) -
   the `to` of a nested Copy call - and refuses a table that is fine: "only through parameter 0" for the WHOLE call
   tree is not expressible at this granularity.  What is expressible, and is the condition [copy_we_ok] below:

   (1) every Copy function is in the table with the signature (to, from);
   (2) its OWN statements write nothing but local memory and the struct `to` points to (RP 0 0: the field stores
       `to.F = ..`), and it calls no function of another package that writes through an argument;
   (3) none of its own statements (nor a function of another package it calls) writes memory rooted at `from`,
       at any depth: [node_bad] of the nodes (f, RP 1 d) is false;
   (4) a Copy function that calls a Copy function hands it, as `to`, memory rooted at its own `to` (or local) and, as
       `from`, memory rooted at its own `from` (or local): the two roles are never swapped or mixed at depth 0;
   (5) whatever a Copy function hands of `from` to any OTHER function (the replaceIf.. helpers, the To..
       conversions, IsNil, GetLink / GetType of every item type, IRI.Equals, ... - followed through their calls,
       interface implementations and function literals to any depth) is not written there, and none of those
       functions writes package-level or unknown memory: the full condition [check] of Model/WriteEff.v on the table
       with the Copy-to-Copy calls cut out ([cut_table]), started at the `from` parameters of every Copy function.

   What stays outside: that the pointer a nested Copy call receives as `to` is the caller's `to` itself (a view of
   the same struct: Gen/Conv.v, property C08) and not something `to` points to - which, after the merge, may be
   shared with `from`.  The native check compares a rendering of `from` before and after every call. *)
From AP.Model Require Import Prelude Bytes WriteEff WriteEffInst.
From AP.Gen Require Import WriteEffects.

Definition copy_fn_names : list bytes := [
  B "CopyItemProperties"; B "copyAllItemProperties"; B "CopyObjectProperties"; B "UpdatePersonProperties";
  B "CopyCollectionProperties"; B "CopyCollectionPageProperties"; B "CopyOrderedCollectionProperties";
  B "CopyOrderedCollectionPageProperties"].

(* a member of the family: one of the names above, or any other declared package-level function called Copy.. /
   copyAll.. (a new one is under the condition without anybody listing it) *)
Definition is_copy_fn (x : fn) : bool :=
  match f_kind x, f_recv x with
  | FDecl, [] => name_in (f_name x) copy_fn_names || is_prefix (B "Copy") (f_name x) || is_prefix (B "copyAll") (f_name x)
  | _, _ => false
  end.

Definition p_to : N := 0%N.
Definition p_from : N := 1%N.
Definition depths : list N := [0%N; 1%N; 2%N].

Section CopyEff.
  Variable T : list fn.

  Definition copy_entries : list N := flat_map (fun p => if is_copy_fn (snd p) then [fst p] else []) (indexed T).

  Definition from_nodes (f : N) : list node := map (fun d => (f, RP p_from d)) depths.
  Definition from_starts (E : list N) : list node := flat_map from_nodes E.

  (* the table without the calls from anywhere into the family *)
  Definition cut_fn (E : list N) (x : fn) : fn :=
    mkF (f_name x) (f_recv x) (f_ptr x) (f_exported x) (f_kind x) (f_file x) (f_line x) (f_params x) (f_writes x)
        (filter (fun c => match c_callee c with CFun g => negb (mem_f g E) | _ => true end) (f_calls x)).
  Definition cut_table (E : list N) : list fn := map (cut_fn E) T.

  (* (1) *)
  Definition has_name (n : bytes) (f : N) : bool :=
    match fn_at T f with Some x => bytes_eqb (f_name x) n | None => false end.
  Definition names_present (E : list N) : bool := forallb (fun n => existsb (has_name n) E) copy_fn_names.
  Definition sig_ok (f : N) : bool :=
    match fn_at T f with
    | Some x => match f_params x with
                | [(a, _); (b, _)] => bytes_eqb a (B "to") && bytes_eqb b (B "from")
                | _ => false
                end
    | None => false
    end.

  (* (2) *)
  Definition to_struct_or_local (r : root) : bool :=
    match r with
    | RLocal => true
    | RP i d => N.eqb i p_to && N.eqb d 0%N
    | _ => false
    end.
  Definition own_write_ok (w : wstmt) : bool :=
    forallb to_struct_or_local (w_roots w) && match w_kind w with WUnrec _ => false | _ => true end.
  Definition own_call_ok (c : call) : bool :=
    match c_callee c with
    | CExt _ mask smask => forallb (fun r => match r with RLocal => true | _ => false end) (masked_roots mask smask (c_args c))
    | _ => true
    end.
  Definition own_writes_ok (f : N) : bool :=
    forallb own_write_ok (writes_of T f) && forallb own_call_ok (calls_of T f).

  (* (3) *)
  Definition from_not_written (f : N) : bool := forallb (fun n => negb (node_bad T n)) (from_nodes f).

  (* (4) *)
  Definition aligned_call (E : list N) (c : call) : bool :=
    match c_callee c with
    | CFun g =>
        if mem_f g E
        then match c_args c with
             | [a0; a1] => roots_within [p_to] (arg_direct a0) && roots_within [p_from] (arg_direct a1)
             | _ => false
             end
        else true
    | _ => true
    end.
  Definition calls_aligned (E : list N) (f : N) : bool := forallb (aligned_call E) (calls_of T f).

  (* (5) *)
  Definition handed_on_ok (Ext Glob : list bytes) (E : list N) : bool :=
    check (cut_table E) Ext Glob pol_ro we_fuel E (from_starts E).

  Definition copy_we_ok (Ext Glob : list bytes) : bool :=
    let E := copy_entries in
    names_present E && forallb sig_ok E && forallb own_writes_ok E && forallb from_not_written E
    && forallb (calls_aligned E) E && handed_on_ok Ext Glob E.

  (* ---------------------------------------------------------------- diagnosis: the first entry that is wrong *)
  Inductive copy_offence :=
  | CoMissing (name : string)                                                 (* (1) a function of the family is not in the table *)
  | CoSignature (fn : string)                                                 (* (1) its parameters are not (to, from) *)
  | CoOwnWrite (fn : string) (file : string) (line : N) (k : wkind) (roots : list root)   (* (2) *)
  | CoOwnCall (fn : string) (file : string) (line : N) (callee : string)      (* (2) *)
  | CoFromWritten (o : offence)                                               (* (3) *)
  | CoMisaligned (fn : string) (file : string) (line : N) (callee : string)   (* (4) *)
  | CoHandedOn (o : offence).                                                 (* (5) *)

  Definition first_own (Ext Glob Files : list bytes) (f : N) : option copy_offence :=
    match first_some (fun w => if own_write_ok w then None
                               else Some (CoOwnWrite (fn_label T f) (show (file_name Files (w_file w))) (w_line w) (w_kind w) (w_roots w)))
                     (writes_of T f) with
    | Some o => Some o
    | None => first_some (fun c => if own_call_ok c then None
                                   else Some (CoOwnCall (fn_label T f) (show (file_name Files (c_file c))) (c_line c) (callee_label T Ext Glob c)))
                         (calls_of T f)
    end.

  Definition first_from (Ext Glob Files : list bytes) (f : N) : option copy_offence :=
    first_some (fun n => match node_offence T Ext Glob Files n with Some o => Some (CoFromWritten o) | None => None end) (from_nodes f).

  Definition first_misaligned (Ext Glob Files : list bytes) (E : list N) (f : N) : option copy_offence :=
    first_some (fun c => if aligned_call E c then None
                         else Some (CoMisaligned (fn_label T f) (show (file_name Files (c_file c))) (c_line c) (callee_label T Ext Glob c)))
               (calls_of T f).

  Definition copy_first_bad (Ext Glob Files : list bytes) : option copy_offence :=
    let E := copy_entries in
    match first_some (fun n => if existsb (has_name n) E then None else Some (CoMissing (show n))) copy_fn_names with
    | Some o => Some o
    | None =>
    match first_some (fun f => if sig_ok f then None else Some (CoSignature (fn_label T f))) E with
    | Some o => Some o
    | None =>
    match first_some (first_own Ext Glob Files) E with
    | Some o => Some o
    | None =>
    match first_some (first_from Ext Glob Files) E with
    | Some o => Some o
    | None =>
    match first_some (first_misaligned Ext Glob Files E) E with
    | Some o => Some o
    | None =>
    match first_bad (cut_table E) Ext Glob Files pol_ro we_fuel E (from_starts E) with
    | Some o => Some (CoHandedOn o)
    | None => None
    end end end end end end.
End CopyEff.

(* ------------------------------------------------------------------ the table of this run *)
Definition copy_we_entries : list N := copy_entries we_table.
Definition copy_we_first_bad : option copy_offence := copy_first_bad we_table we_externals we_globals we_files.

(* ------------------------------------------------------------------ what a source change does to the table *)
(* one more write statement in the function called [name] *)
Definition add_write (name : bytes) (w : wstmt) (T : list fn) : list fn :=
  map (fun x => if bytes_eqb (f_name x) name && match f_kind x with FDecl => true | _ => false end
                then mkF (f_name x) (f_recv x) (f_ptr x) (f_exported x) (f_kind x) (f_file x) (f_line x) (f_params x)
                         (f_writes x ++ [w]) (f_calls x)
                else x) T.

Definition copy_go : N :=
  (fix go (k : N) (l : list bytes) := match l with
                                      | [] => 0%N
                                      | x :: r => if bytes_eqb x (B "copy.go") then N.succ k else go (N.succ k) r
                                      end) 0%N we_files.

(* `from.To = from.To[:0]` at the end of CopyObjectProperties: a field store into the struct `from` points to *)
Definition T_truncates_from : list fn :=
  add_write (B "CopyObjectProperties") (mkW copy_go 102%N WField [RP 1%N 0%N]) we_table.
(* `clear(new)` in replaceIfItemCollection: the helper wipes the list it is handed as `new` - from's list *)
Definition T_helper_clears : list fn :=
  add_write (B "replaceIfItemCollection") (mkW copy_go 216%N WClear [RP 1%N 0%N]) we_table.
(* `to.Tag[0] = nil` in CopyObjectProperties: a write one level below `to` - after the merge that array may be from's *)
Definition T_writes_below_to : list fn :=
  add_write (B "CopyObjectProperties") (mkW copy_go 102%N WIndex [RP 0%N 1%N]) we_table.
