(* The copy tables as regenerated from the source on this run, and the concrete instance of the model
   (IRI equivalence = IRI.Equals without scheme check, Model/IriEq.v). *)
From AP.Model Require Import Prelude Vocab Pred Layout IriEq Copy.
Require AP.Gen.Layout AP.Gen.TypeLists AP.Gen.Casts AP.Gen.CopyRules.

Definition gen_copy_tables : copy_tables :=
  mkct AP.Gen.CopyRules.copy_functions AP.Gen.CopyRules.copy_guards AP.Gen.CopyRules.copy_dispatch
       AP.Gen.CopyRules.copy_helpers AP.Gen.TypeLists.type_lists AP.Gen.Layout.layout_of AP.Gen.Casts.casts.

Definition ids_equivalent (a b : bytes) : bool := iri_eqb a b false.

Definition copy_item_m (to from : item) : outcome item * item :=
  copy_item_full gen_copy_tables ids_equivalent to from.

(* The tables of the PINNED tree, reconstructed from the regenerated ones: the duration guard inverted
   (`if from.Duration == 0`, which the translator renders as IfFromZero), replaceIfSource without
   the test for an absent source, and `== nil` tests where the repaired code calls IsNil.  Kept for the refutation witnesses of Props/C18.v. *)
Definition pin_step (s : cstep) : cstep :=
  match s with CRule F_Duration _ => CRule F_Duration IfFromZero | _ => s end.
Definition pin_helper (h : bytes * bytes) : bytes * bytes :=
  if bytes_eqb (fst h) (B "replaceIfSource") then (fst h, helper_source_pinned_text) else h.
Definition pinned_copy_tables : copy_tables :=
  mkct (map (fun cf => mkcopyfn (cf_name cf) (cf_kind cf) (map pin_step (cf_steps cf))) (ct_fns gen_copy_tables))
       [GToNil; GFromNil; GIdsDiffer; GTypesDiffer; GDispatch] (ct_dispatch gen_copy_tables)
       (map pin_helper (ct_helpers gen_copy_tables))
       (ct_lists gen_copy_tables) (ct_layout gen_copy_tables) (ct_casts gen_copy_tables).

(* witnesses *)
Definition c18_id : fid * fval := (F_ID, FStr (B "https://example.com/notes/1")).
Definition c18_ty : fid * fval := (F_Type, FStr (B "Note")).
Definition c18_to_duration : item := IObj true KObject [c18_id; c18_ty; (F_Duration, FDur 60000000000)].
Definition c18_to_source : item :=
  IObj true KObject [c18_id; c18_ty; (F_Source, FSource (B "text/markdown") (Some [(B "en", B "*hi*")]))].
Definition c18_from_plain : item :=
  IObj true KObject [(F_ID, FStr (B "http://EXAMPLE.com/notes/1/")); c18_ty;
                     (F_Summary, FNlv (Some [(B "-", B "edited")]))].
(* a non-trivial merge used by the satisfiability examples *)
Definition c18_to_rich : item :=
  IObj true KActor [c18_id; (F_Type, FStr (B "Person")); (F_Name, FNlv (Some [(B "-", B "Alice")]));
                    (F_Published, FTime {| vsecs := 1700000000; vnanos := 0; voff := 0 |});
                    (F_Duration, FDur 60000000000);
                    (F_Source, FSource (B "text/markdown") (Some [(B "en", B "*hi*")]));
                    (F_Inbox, FItem (IIri false (B "https://example.com/inbox")));
                    (F_Tag, FItems (Some [IIri false (B "https://example.com/t/1")]))].
Definition c18_from_rich : item :=
  IObj true KActor [(F_ID, FStr (B "http://example.com/notes/1")); (F_Type, FStr (B "Person"));
                    (F_Name, FNlv (Some [(B "-", B "Alice B.")]));
                    (F_Published, FTime {| vsecs := 1800000000; vnanos := 0; voff := 0 |});
                    (F_Tag, FItems (Some []));
                    (F_Outbox, FItem (IIri false (B "https://example.com/outbox")))].
