(* Type-name dispatch: evaluation of the generated switch tables (Gen/Switches.v) and of the
   type-name lists (Gen/TypeLists.v). *)
From AP.Model Require Import Prelude Vocab Bytes.

Definition sw_table := list (list bytes * bytes).

(* Go switch semantics over constants: first matching case; a case whose body is `fallthrough`
   continues with the next case's body *)
Fixpoint sw_next_tag (sw : sw_table) (dflt : bytes) : bytes :=
  match sw with
  | [] => dflt
  | (_, tag) :: r => if bytes_eqb tag (B "fallthrough") then sw_next_tag r dflt else tag
  end.

Fixpoint sw_lookup (sw : sw_table) (dflt : bytes) (n : bytes) : bytes :=
  match sw with
  | [] => dflt
  | (names, tag) :: r =>
      if existsb (bytes_eqb n) names
      then (if bytes_eqb tag (B "fallthrough") then sw_next_tag r dflt else tag)
      else sw_lookup r dflt n
  end.

(* is the name listed in some case (i.e. it does not reach default) *)
Definition sw_mentions (sw : sw_table) (n : bytes) : bool :=
  existsb (fun c => existsb (bytes_eqb n) (fst c)) sw.

(* the struct kind a case body works on, from its tag: "&Object", "ObjectNew", "OnObject/..." *)
Definition outer_tag (tag : bytes) : bytes := fst (cut_byte x2f tag).

Definition kind_names : list (bytes * kind) :=
  [ (B "Object", KObject); (B "Actor", KActor); (B "Activity", KActivity);
    (B "IntransitiveActivity", KIntransitive); (B "Question", KQuestion); (B "Collection", KCollection);
    (B "CollectionPage", KCollectionPage); (B "OrderedCollection", KOrdered);
    (B "OrderedCollectionPage", KOrderedPage); (B "Place", KPlace); (B "Profile", KProfile);
    (B "Relationship", KRelationship); (B "Tombstone", KTombstone); (B "Link", KLink) ].

Definition kind_named (s : bytes) : option kind :=
  match find (fun p => bytes_eqb (fst p) s) kind_names with Some p => Some (snd p) | None => None end.

Definition tag_kind (tag : bytes) : option kind :=
  let o := outer_tag tag in
  match o with
  | x26 :: r => kind_named r                                  (* &Type{...} *)
  | x4f :: x6e :: r => kind_named r                           (* OnType(...) *)
  | _ => if bytes_eqb o (B "ObjectNew") then Some KObject else None
  end.

Definition in_list (l : list bytes) (n : bytes) : bool := existsb (bytes_eqb n) l.

(* IsLink / IsObject / IsCollection of a value of struct kind [k] whose Type is [ty]:
   constant for every kind except Link, whose answers depend on its Type (link.go) *)
Definition kind_go_name (k : kind) : bytes :=
  match find (fun p => kind_beq (snd p) k) kind_names with Some p => fst p | None => [] end.

Definition method_answer (tbl : list (bytes * bytes * option bool)) (link_types object_types : list bytes)
           (k : kind) (ty : bytes) (m : bytes) : option bool :=
  match k with
  | KLink =>
      if bytes_eqb m (B "IsLink") then Some (bytes_eqb ty (B "Link") || in_list link_types ty)
      else if bytes_eqb m (B "IsObject") then Some (bytes_eqb ty (B "Object") || in_list object_types ty)
      else Some false
  | _ =>
      match find (fun r => bytes_eqb (fst (fst r)) (kind_go_name k) && bytes_eqb (snd (fst r)) m) tbl with
      | Some r => snd r
      | None => None
      end
  end.

(* JSON item loading as far as type dispatch goes: which struct kind is filled for a type name, or an
   error / the extension hook for names the switch does not list.  [typer] stands for ItemTyperFunc,
   [hook] for JSONItemUnmarshal (None = unset). *)
Inductive load_outcome := LoadKind (k : kind) | LoadError | LoadHook (k : option kind) | LoadMismatch.

Definition okind_eqb (a b : option kind) : bool :=
  match a, b with Some x, Some y => kind_beq x y | None, None => true | _, _ => false end.

Definition json_dispatch (sw : sw_table) (dflt : bytes) (typer : bytes -> option kind) (hook_set : bool)
           (n : bytes) : load_outcome :=
  match typer n with
  | None => LoadError
  | Some created =>
      if sw_mentions sw n then
        match tag_kind (sw_lookup sw dflt n) with
        | Some k => if kind_beq k created then LoadKind k else LoadMismatch
        | None => LoadMismatch
        end
      else if hook_set then LoadHook (Some created) else LoadError
  end.
