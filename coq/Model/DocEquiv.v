(* Document equivalence on parsed JSON trees (properties C05 / C06, decoder side).

   [teq known text a b]: the trees a and b say the same thing to a reader that looks members up by name:
     - strings are equal after unescaping, numbers and literals are identical, arrays are related element by
       element (order matters: lists are ordered),
     - two objects are related when, for every member name the reader knows, looking the name up in the
       one and in the other (with fastjson's Object.Get, in either state of its key cache) finds nothing in
       both or finds related values.  Nothing is said about the order of the members, about members with
       other names, or about members hidden behind an earlier member of the same name.
   For the names under which the reader expects natural-language text (a string or a language map, whose
   entries ARE ordered: NaturalLanguageValues is a list) the two values must be equal up to string escapes
   (fj_norm); for every other name they must be related by teq again.

   The sets [known] and [text] are computed from the read tables regenerated from the source
   (Gen/JsonR.v): [table_keys].  [keys_roles_ok] is the decidable table condition that no member name is
   read as text in one place and as something else in another.  Definitions only. *)
From AP.Model Require Import Prelude Bytes Vocab Nlv Text JsonTables JsonCheck JsonDec.

Section Equiv.
  Variable known text : bytes -> bool.

  Inductive teq : fjv -> fjv -> Prop :=
  | teq_str r1 r2 : fj_unescape r1 = fj_unescape r2 -> teq (FStr r1) (FStr r2)
  | teq_num t : teq (FNum t) (FNum t)
  | teq_true : teq FTrue FTrue
  | teq_false : teq FFalse FFalse
  | teq_null : teq FNull FNull
  | teq_arr l1 l2 : Forall2 teq l1 l2 -> teq (FArr l1) (FArr l2)
  | teq_obj kvs1 kvs2 :
      (forall ku key, known key = true ->
         (fj_get ku (FObj kvs1) key = None /\ fj_get ku (FObj kvs2) key = None) \/
         (exists x y, fj_get ku (FObj kvs1) key = Some x /\ fj_get ku (FObj kvs2) key = Some y /\
                      (text key = true -> fj_norm x = fj_norm y) /\ (text key = false -> teq x y))) ->
      teq (FObj kvs1) (FObj kvs2).

  (* the equivalence generated: chains of related documents, in either direction *)
  Inductive doc_equiv : fjv -> fjv -> Prop :=
  | de_step a b : teq a b -> doc_equiv a b
  | de_refl a : doc_equiv a a
  | de_sym a b : doc_equiv a b -> doc_equiv b a
  | de_trans a b c : doc_equiv a b -> doc_equiv b c -> doc_equiv a c.

  (* the member names one read statement looks up, with their role (true = natural-language text).
     The chain of tests is the chain of JsonDec.get_value. *)
  Definition stmt_keys_of (g tm : bytes) : list (bytes * bool) :=
    if existsb (bytes_eqb g) string_getters then
      match cut_byte x2e tm with
      | (a, Some b) => [(a, false); (b, false)]
      | (a, None) => [(a, false)]
      end
    else if bytes_eqb g (B "JSONGetNaturalLanguageField") then
      match cut_byte x2e tm with
      | (a, Some b) => [(a, false); (b, true); (b ++ B "Map", true)]
      | (_, None) => [(tm, true); (tm ++ B "Map", true)]
      end
    else if bytes_eqb g (B "JSONGetItem") then [(tm, false)]
    else if bytes_eqb g (B "JSONGetURIItem") then [(tm, false)]
    else if bytes_eqb g (B "JSONGetItems") then [(tm, false)]
    else if bytes_eqb g (B "JSONGetTime") then [(tm, false)]
    else if bytes_eqb g (B "JSONGetDuration") then [(tm, false)]
    else if bytes_eqb g (B "JSONGetInt") then [(tm, false)]
    else if bytes_eqb g (B "JSONGetFloat") then [(tm, false)]
    else if bytes_eqb g (B "JSONGetBoolean") then [(tm, false)]
    else if bytes_eqb g (B "GetAPSource") then []          (* the statements of its own table do the lookups *)
    else if bytes_eqb g (B "JSONGetActorEndpoints") then [(tm, false)]
    else if bytes_eqb g (B "JSONGetPublicKey") then [(tm, false)]
    else [].

  Definition key_ok (p : bytes * bool) : bool := known (fst p) && Bool.eqb (text (fst p)) (snd p).
  Definition stmt_ok (s : rstmt) : bool :=
    match s with
    | RProp _ tm g _ _ _ => forallb key_ok (stmt_keys_of g tm)
    | _ => true
    end.
  (* every statement of every table looks up known names only, each in its one role; so does the "type"
     lookup of JSONLoadItem *)
  Definition tables_keys_ok (jr : list (bytes * list rstmt)) : bool :=
    key_ok (B "type", false) && forallb (fun t => forallb stmt_ok (snd t)) jr.
End Equiv.

(* ---- the two sets, from the tables *)
Definition stmt_keys (s : rstmt) : list (bytes * bool) :=
  match s with RProp _ tm g _ _ _ => stmt_keys_of g tm | _ => [] end.
Definition table_keys (jr : list (bytes * list rstmt)) : list (bytes * bool) :=
  (B "type", false) :: flat_map (fun t => flat_map stmt_keys (snd t)) jr.
Definition known_of (jr : list (bytes * list rstmt)) (key : bytes) : bool :=
  existsb (fun p => bytes_eqb (fst p) key) (table_keys jr).
Definition text_of (jr : list (bytes * list rstmt)) (key : bytes) : bool :=
  existsb (fun p => bytes_eqb (fst p) key && snd p) (table_keys jr).
(* no name in two roles *)
Definition keys_roles_ok (jr : list (bytes * list rstmt)) : bool :=
  forallb (fun p => Bool.eqb (text_of jr (fst p)) (snd p)) (table_keys jr).

(* unescaped member names of an object, in order *)
Definition ukeys (kvs : list (bytes * fjv)) : list bytes := map (fun kv : bytes * fjv => fj_unescape (fst kv)) kvs.

(* no member name of the document is written with a backslash (what a JSON writer produces for the
   vocabulary's terms and for plain language tags) *)
Fixpoint keys_plain (v : fjv) : bool :=
  match v with
  | FObj kvs => forallb (fun kv : bytes * fjv => negb (has_bs (fst kv)) && keys_plain (snd kv)) kvs
  | FArr l => forallb keys_plain l
  | _ => true
  end.
