(* Effects: a small store model of Go slices and of the helpers of encoding_json.go /
   natural_language_values.go that really write through a pointer or into a slice.
   Definitions only (lemmas: Proofs/EffectsP.v, theorems: Props/C12.v).

   Store: a list of arrays of cells; an array id is its position; allocation appends an array, so the
   arrays allocated since a state m0 are exactly the ids >= length (arrays m0) ("fresh since m0").
   A slice is (array, offset, len, cap).  `append` writes in place when the capacity suffices and
   allocates (new array, arbitrary slack chosen by the state's allocator policy) otherwise.
   Every write (store, initialisation of an allocation) is logged: the log is the WRITE FOOTPRINT. *)
From AP.Model Require Import Prelude Bytes Vocab Json JsonLeaf.
Local Open Scope nat_scope.

Record slice := mkslice { s_arr : nat; s_off : nat; s_len : nat; s_cap : nat }.

Inductive cell :=
| Cb (b : byte)                      (* one byte of a []byte backing array *)
| Ch (s : slice)                     (* a slice header: the pointee of a *[]byte, a bytes.Buffer's buf *)
| Clrv (ref : bytes) (v : slice).    (* a LangRefValue: Ref is a string (immutable), Value a []byte header *)

Definition loc := (nat * nat)%type.

Record mem := mkmem {
  arrays : list (list cell);
  wlog   : list loc;                 (* most recent write first *)
  slack  : nat -> nat                (* allocator policy: spare capacity given to a grown/converted slice of n bytes *)
}.

Definition M (A : Type) := mem -> outcome (A * mem).
Definition ret {A} (a : A) : M A := fun m => Ok (a, m).
Definition bind {A B} (x : M A) (f : A -> M B) : M B :=
  fun m => match x m with
           | Ok (a, m') => f a m'
           | Err => Err
           | Panic p => Panic p
           | OutOfFuel => OutOfFuel
           end.
Definition fail {A} (p : panickind) : M A := fun _ => Panic p.
Definition unmodelled {A} : M A := fun _ => Err.
Definition out_of_fuel {A} : M A := fun _ => OutOfFuel.

Declare Scope eff_scope.
Delimit Scope eff_scope with eff.
Notation "x <- e ;; f" := (bind e (fun x => f)) (at level 61, e at next level, right associativity) : eff_scope.
Notation "e ;;; f" := (bind e (fun _ => f)) (at level 61, right associativity) : eff_scope.
Open Scope eff_scope.

Definition get_cell (m : mem) (l : loc) : option cell :=
  match nth_error (arrays m) (fst l) with
  | Some a => nth_error a (snd l)
  | None => None
  end.

Fixpoint upd {A} (l : list A) (i : nat) (x : A) : list A :=
  match l, i with
  | [], _ => []
  | _ :: t, O => x :: t
  | h :: t, S i' => h :: upd t i' x
  end.

Definition set_cell (arrs : list (list cell)) (l : loc) (c : cell) : list (list cell) :=
  match nth_error arrs (fst l) with
  | Some a => upd arrs (fst l) (upd a (snd l) c)
  | None => arrs
  end.

Definition load (l : loc) : M cell :=
  fun m => match get_cell m l with
           | Some c => Ok (c, m)
           | None => Panic IndexOutOfRange
           end.

Definition store (l : loc) (c : cell) : M unit :=
  fun m => match get_cell m l with
           | Some _ => Ok (tt, mkmem (set_cell (arrays m) l c) (l :: wlog m) (slack m))
           | None => Panic IndexOutOfRange
           end.

(* allocation of a fresh array with the given initial cells; the initialisation is part of the footprint *)
Definition alloc (cs : list cell) : M nat :=
  fun m => let id := length (arrays m) in
           Ok (id, mkmem (arrays m ++ [cs]) (map (fun i => (id, i)) (seq 0 (length cs)) ++ wlog m) (slack m)).

Definition get_slack (n : nat) : M nat := fun m => Ok (slack m n, m).

Definition load_hdr (p : loc) : M slice :=
  c <- load p ;; match c with Ch s => ret s | _ => fail BadTypeAssert end.
Definition load_byte (l : loc) : M byte :=
  c <- load l ;; match c with Cb b => ret b | _ => fail BadTypeAssert end.

Fixpoint read_n (a i n : nat) : M bytes :=
  match n with
  | O => ret []
  | S n' => b <- load_byte (a, i) ;; r <- read_n a (S i) n' ;; ret (b :: r)
  end.
(* the bytes s[0:len] *)
Definition read_bytes (s : slice) : M bytes := read_n (s_arr s) (s_off s) (s_len s).

Fixpoint write_bytes (a i : nat) (bs : bytes) : M unit :=
  match bs with
  | [] => ret tt
  | b :: r => store (a, i) (Cb b) ;;; write_bytes a (S i) r
  end.

Definition nil_slice : slice := mkslice 0 0 0 0.

(* []byte(s) / make+copy / bytes.Buffer growth: a fresh array holding bs, with allocator-chosen slack *)
Definition alloc_bytes (bs : bytes) : M slice :=
  k <- get_slack (length bs) ;;
  id <- alloc (map Cb bs ++ repeat (Cb x00) k) ;;
  ret (mkslice id 0 (length bs) (length bs + k)).

(* append(s, bs...) *)
Definition append_bytes (s : slice) (bs : bytes) : M slice :=
  if (s_len s + length bs <=? s_cap s)
  then write_bytes (s_arr s) (s_off s + s_len s) bs ;;;
       ret (mkslice (s_arr s) (s_off s) (s_len s + length bs) (s_cap s))
  else old <- read_bytes s ;; alloc_bytes (old ++ bs).

(* s[:p] and s[p:] (bounds as Go checks them for slices: high <= cap, low <= len) *)
Definition slice_to (s : slice) (p : nat) : M slice :=
  if (p <=? s_cap s) then ret (mkslice (s_arr s) (s_off s) p (s_cap s)) else fail SliceBounds.
Definition slice_from (s : slice) (p : nat) : M slice :=
  if (p <=? s_len s) then ret (mkslice (s_arr s) (s_off s + p) (s_len s - p) (s_cap s - p)) else fail SliceBounds.

(* ------------------------------------------------------------------ encoding_json.go *)

Definition bq : byte := x22.   (* the double quote *)
Definition bbs : byte := x5c.  (* the backslash *)
Definition bcomma : byte := x2c.
Definition bcolon : byte := x3a.

(* func JSONWrite(b, c...): the pointee of b becomes append(pointee, c...)   (JSONWriteS: the same with a string) *)
Definition json_write (p : loc) (bs : bytes) : M unit :=
  h <- load_hdr p ;; h' <- append_bytes h bs ;; store p (Ch h').

(* func JSONWriteComma(b): appends a comma when the buffer is longer than one byte and does not end in a comma *)
Definition json_write_comma (p : loc) : M unit :=
  h <- load_hdr p ;;
  if (1 <? s_len h)
  then c <- load_byte (s_arr h, s_off h + s_len h - 1) ;;
       if Byte.eqb c bcomma then ret tt else json_write p [bcomma]
  else ret tt.

Definition json_write_prop_name (p : loc) (name : bytes) : M bool :=
  match name with
  | [] => ret false
  | _ => json_write p [bq] ;;; json_write p name ;;; json_write p [bq; bcolon] ;;; ret true
  end.

(* the value is a []byte ARGUMENT: a slice of the store, only read *)
Definition json_write_value (p : loc) (v : slice) : M bool :=
  if (s_len v =? 0) then ret false
  else bs <- read_bytes v ;; json_write p bs ;;; ret true.

(* func JSONWriteProp: on failure the buffer is re-sliced to len-1 - a header write only; panics on an empty buffer *)
Definition json_write_prop (p : loc) (name : bytes) (v : slice) : M bool :=
  if (s_len v =? 0) then ret false
  else json_write_comma p ;;;
       ok1 <- json_write_prop_name p name ;;
       ok <- (if ok1 : bool then json_write_value p v else ret false) ;;
       if ok : bool then ret true
       else h <- load_hdr p ;;
            if (s_len h =? 0) then fail SliceBounds
            else store p (Ch (mkslice (s_arr h) (s_off h) (s_len h - 1) (s_cap h))) ;;; ret false.

(* stringBytes(e, s, false) into a bytes.Buffer whose buf is the slice [buf]: modelled as ONE append of the
   encoded text (the code appends it in several chunks; the in-place / reallocate rule is the same).  The
   text is JsonLeaf.string_bytes, the complete escaper (UTF-8 included). *)
Definition st_string_bytes (buf : slice) (s : bytes) : M slice :=
  append_bytes buf (JsonLeaf.string_bytes false s).

(* func escapeQuote(s string) string, as repaired: out := bytes.Buffer{}; for every part of
   strings.Split(s, backslash-quote): e := bytes.Buffer{}; stringBytes(&e, []byte(part), false);
   out.Write(e.Bytes()[1 : e.Len()-1]); return out.String().  Only fresh buffers are written. *)
Fixpoint escq_parts (parts : list bytes) (first : bool) (out : slice) : M slice :=
  match parts with
  | [] => ret out
  | part :: r =>
      out1 <- (if first then ret out else append_bytes out [bbs; bq]) ;;
      raw <- alloc_bytes part ;;
      pb <- read_bytes raw ;;
      e <- st_string_bytes nil_slice pb ;;
      eb <- read_bytes e ;;
      out2 <- append_bytes out1 (firstn (length eb - 2) (skipn 1 eb)) ;;
      escq_parts r false out2
  end.
Definition st_escape_quote (s : bytes) : M bytes :=
  out <- escq_parts (split_bsq s) true nil_slice ;; read_bytes out.

(* PINNED TREE (the helper was removed by the fix: commit that rewrote escapeQuote; kept as the record of
   why the old code was harmless for its caller and what the helper did to its own argument)
   func byteInsertAt(raw []byte, b byte, p int) []byte {
     return append(raw[:p], append([]byte{b}, raw[p:]...)...) }
   The outer append writes into raw's OWN backing array when cap(raw) > len(raw). *)
Definition byte_insert_at (raw : slice) (b : byte) (p : nat) : M slice :=
  pre <- slice_to raw p ;;
  lit <- alloc [Cb b] ;;
  post <- slice_from raw p ;;
  tl <- read_bytes post ;;
  tmp <- append_bytes (mkslice lit 0 1 1) tl ;;
  tb <- read_bytes tmp ;;
  append_bytes pre tb.

(* func escapeQuote(s string) string: raw := []byte(s) is a private copy; the test s[i-1] indexes the
   ORIGINAL string with the drifting index i (Panic IndexOutOfRange when i-1 >= len(s)). *)
Fixpoint escq_loop (fuel : nat) (s : bytes) (raw : slice) (i end_ : nat) : M slice :=
  match fuel with
  | O => out_of_fuel
  | S f =>
      if (i <? end_) then
        (if (i <? s_len raw) then
           c <- load_byte (s_arr raw, s_off raw + i) ;;
           if Byte.eqb c bq && (0 <? i) then
             match nth_error s (i - 1) with
             | None => fail IndexOutOfRange
             | Some pc =>
                 if Byte.eqb pc bbs then escq_loop f s raw (S i) end_
                 else raw' <- byte_insert_at raw bbs i ;; escq_loop f s raw' (S (S i)) (S end_)
             end
           else escq_loop f s raw (S i) end_
         else fail IndexOutOfRange)
      else ret raw
  end.

Definition st_escape_quote_pinned (s : bytes) : M bytes :=
  raw <- alloc_bytes s ;;
  raw' <- escq_loop (2 * length s + 2) s raw 0 (length s) ;;
  read_bytes raw'.

(* func JSONWriteStringValue(b *[]byte, s string) *)
Definition json_write_string_value (p : loc) (s : bytes) : M bool :=
  match s with
  | [] => ret false
  | _ => json_write p [bq] ;;; e <- st_escape_quote s ;; json_write p e ;;; json_write p [bq] ;;; ret true
  end.

(* ------------------------------------------------------------------ natural_language_values.go *)

(* func unescape(b []byte) []byte: eight bytes.ReplaceAll passes (JsonLeaf.replace2: leftmost non-overlapping
   replacement of backslash+c by d), each returning a COPY, i.e. allocating its result *)
Definition unescape_steps : list (byte * byte) :=
  [(x61, x07); (x66, x0c); (x6e, x0a); (x72, x0d); (x74, x09); (x76, x0b); (x22, x22); (x5c, x5c)].

Fixpoint unescape_from (steps : list (byte * byte)) (cur : slice) : M slice :=
  match steps with
  | [] => ret cur
  | (c, n) :: r => bs <- read_bytes cur ;; nxt <- alloc_bytes (JsonLeaf.replace2 c n bs) ;; unescape_from r nxt
  end.
Definition st_unescape (b : slice) : M slice := unescape_from unescape_steps b.

Definition nil_lang_ref : bytes := B "-".

(* func (l LangRefValue) MarshalJSON() on a COPY (ref, value header) of the entry *)
Definition lrv_marshal (ref : bytes) (v : slice) : M (option slice) :=
  let tagged := negb (bytes_eqb ref nil_lang_ref) && (0 <? length ref) in
  if tagged && (s_len v =? 0) then ret None
  else
    buf1 <- (if tagged then b <- st_string_bytes nil_slice ref ;; append_bytes b [bcolon] else ret nil_slice) ;;
    val <- read_bytes v ;;
    buf2 <- st_string_bytes buf1 val ;;
    ret (Some buf2).

Definition load_lrv (l : loc) : M (bytes * slice) :=
  c <- load l ;; match c with Clrv r v => ret (r, v) | _ => fail BadTypeAssert end.

(* map-form loop of NaturalLanguageValues.MarshalJSON: `for _, val := range n` copies each entry into a
   loop variable (a fresh one-cell array) and works on the copy *)
(* [keys]: the tags written so far, as read back (fix 05721dc and its follow-up: tagAsRead).  Each is a fresh string
   kept in a fresh slice, which only this call can reach: the list of their contents is carried as a value *)
Fixpoint nlv_loop (n : slice) (k : nat) (count : nat) (buf : slice) (empty : bool) (keys : list bytes) : M (slice * bool) :=
  match count with
  | O => ret (buf, empty)
  | S c' =>
      e <- load_lrv (s_arr n, s_off n + k) ;;
      vl <- alloc [Clrv (fst e) (snd e)] ;;
      e' <- load_lrv (vl, 0) ;;
      let '(r, v) := e' in
      if (length r =? 0) || (s_len v =? 0) then nlv_loop n (S k) c' buf empty keys
      else
        (* tagAsRead: reads the (immutable) tag, builds the key in memory only this call can reach *)
        let key := sanitize r in
        if existsb (bytes_eqb key) keys then nlv_loop n (S k) c' buf empty keys
        else
        let keys := keys ++ [key] in
        buf0 <- (if empty then ret buf else append_bytes buf [bcomma]) ;;
        (* inside a language map the nil language reference is written as the key "-" *)
        buf1 <- (if bytes_eqb r nil_lang_ref
                 then k1 <- st_string_bytes buf0 r ;; append_bytes k1 [bcolon]
                 else ret buf0) ;;
        o <- lrv_marshal r v ;;
        match o with
        | Some j =>
            if (0 <? s_len j) then jb <- read_bytes j ;; buf2 <- append_bytes buf1 jb ;; nlv_loop n (S k) c' buf2 false keys
            else nlv_loop n (S k) c' buf1 empty keys
        | None => nlv_loop n (S k) c' buf1 empty keys
        end
  end.

Definition lbrace : byte := x7b.
Definition rbrace : byte := x7d.

(* func (n NaturalLanguageValues) MarshalJSON().  [n] is the receiver's slice of Clrv cells.
   [inplace] selects the MUTANT that assigns the unescaped text to n[0] itself instead of the copy v
   (not the code of the tree: kept to show that the footprint theorem distinguishes the two). *)
Definition nlv_marshal_gen (pre_unescape inplace : bool) (n : slice) : M (option slice) :=
  if (s_len n =? 0) then ret None
  else
    single <-
      (if (s_len n =? 1) then
         e <- load_lrv (s_arr n, s_off n) ;;
         vl <- alloc [Clrv (fst e) (snd e)] ;;                  (* v := n[0] *)
         e' <- load_lrv (vl, 0) ;;
         if (0 <? s_len (snd e')) then
           u <- (if pre_unescape then st_unescape (snd e') else ret (snd e')) ;;   (* the pinned tree unescaped here: v.Value = unescape(v.Value); removed by fix f3cadae *)
           store (if inplace then (s_arr n, s_off n) else (vl, 0)) (Clrv (fst e') u) ;;;
           e'' <- load_lrv (vl, 0) ;;
           val <- read_bytes (if inplace then u else snd e'') ;;
           b <- st_string_bytes nil_slice val ;;
           ret (Some b)
         else ret None
       else ret None) ;;
    match single with
    | Some b => ret (Some b)
    | None =>
        buf0 <- append_bytes nil_slice [lbrace] ;;
        r <- nlv_loop n 0 (s_len n) buf0 true [] ;;
        let '(buf1, empty) := r in
        buf2 <- append_bytes buf1 [rbrace] ;;
        if empty then ret None else ret (Some buf2)
    end.

Definition nlv_marshal := nlv_marshal_gen false false.
Definition nlv_marshal_inplace_mutant := nlv_marshal_gen true true.     (* the pinned code with the assignment going to n[0] *)

(* func JSONWriteNaturalLanguageProp(b *[]byte, n string, nl NaturalLanguageValues) *)
Definition json_write_nlv_prop (p : loc) (name : bytes) (nl : slice) : M bool :=
  let name' := if (1 <? s_len nl) then name ++ B "Map" else name in
  o <- nlv_marshal nl ;;
  match o with
  | Some v => if (0 <? s_len v) then json_write_prop p name' v else ret false
  | None => ret false
  end.

(* ------------------------------------------------------------------ regions and footprints *)

Definition fresh_since (m0 : mem) (l : loc) : Prop := length (arrays m0) <= fst l.
(* the capacity window of a slice: every cell of its backing array it can reach, spare capacity included *)
Definition in_window (s : slice) (l : loc) : Prop := fst l = s_arr s /\ s_off s <= snd l < s_off s + s_cap s.
Definition valid (m : mem) (l : loc) : Prop := get_cell m l <> None.

(* the writes of a run that started in m0 and ended in m1 (the log only grows, at the front) *)
Definition new_writes (m0 m1 : mem) : list loc := firstn (length (wlog m1) - length (wlog m0)) (wlog m1).

(* ------------------------------------------------------------------ executable views for the case files *)

Definition mem0 (arrs : list (list cell)) (k : nat) : mem := mkmem arrs [] (fun _ => k).

Definition bytes_of_cells (cs : list cell) : bytes :=
  flat_map (fun c => match c with Cb b => [b] | _ => [] end) cs.

Definition run_bytes {A} (x : M A) (m : mem) (rd : A -> M bytes) : outcome (bytes * mem) :=
  bind x rd m.

Definition escq_run (s : bytes) (k : nat) : option (option bytes) :=
  match st_escape_quote s (mem0 [] k) with
  | Ok (o, _) => Some (Some o)
  | Panic _ => Some None
  | _ => None
  end.
Definition opt_bytes_eqb (a b : option bytes) : bool :=
  match a, b with Some x, Some y => bytes_eqb x y | None, None => true | _, _ => false end.
(* observed result of escapeQuote (None = panicked) against the model under two allocator policies *)
Definition escq_obs_ok (s : bytes) (o : option bytes) : bool :=
  match escq_run s 0, escq_run s 3 with
  | Some a, Some b => opt_bytes_eqb a o && opt_bytes_eqb b o && opt_bytes_eqb (Some (JsonLeaf.escape_quote s)) o
  | _, _ => false
  end.

(* the store-level model of the PINNED escapeQuote against the byte-level model of the same code in
   Model/JsonLeaf.v (the real code is gone, so this pair can only be compared with each other) *)
Definition escq_pinned_run (s : bytes) (k : nat) : outcome bytes :=
  match st_escape_quote_pinned s (mem0 [] k) with
  | Ok (o, _) => Ok o
  | Err => Err
  | Panic p => Panic p
  | OutOfFuel => OutOfFuel
  end.
Definition escq_pinned_agree (s : bytes) : bool :=
  match escq_pinned_run s 0, escq_pinned_run s 2, JsonLeaf.escape_quote_pinned s with
  | Ok a, Ok b, Ok c => bytes_eqb a c && bytes_eqb b c
  | Panic _, Panic _, Panic _ => true
  | _, _, _ => false
  end.
Definition escq_pinned_pool : list bytes :=
  [B ""; [bq]; B "a" ++ [bq]; B "a" ++ [bq] ++ B "b"; [bq; bq]; B "a" ++ [bq; bq]; B "a" ++ [bbs; bq] ++ B "b";
   [bq] ++ B "lead"; B "x" ++ [bq] ++ B "y" ++ [bq] ++ B "z" ++ [bq]; [bbs; bbs; bq]; [bq; bq; bq];
   B "a" ++ [bq] ++ B "b" ++ [bq] ++ B "c" ++ [bq]; B "plain text"; B "a" ++ [bq] ++ B "b" ++ [bq] ++ B "c" ++ [bq] ++ B "d"].

Definition sentinel : byte := xa5.

(* buffer cases: array 0 = the *[]byte pointee, array 1 = the buffer's backing array (content + sentinels up
   to cap), array 2 = the []byte value argument with two sentinel cells of spare capacity *)
Definition buf_mem (content : bytes) (cp : nat) (val : bytes) (k : nat) : mem :=
  mem0 [[Ch (mkslice 1 0 (length content) cp)];
        map Cb (content ++ repeat sentinel (cp - length content));
        map Cb (val ++ [sentinel; sentinel])] k.

Definition buf_op (op : nat) (name val : bytes) : M bool :=
  let p := (0, 0) in let v := mkslice 2 0 (length val) (length val + 2) in
  match op with
  | 0 => json_write_comma p ;;; ret false
  | 1 => json_write p val ;;; ret false
  | 2 => json_write_prop_name p name
  | 3 => json_write_value p v
  | 4 => json_write_prop p name v
  | 5 => json_write_string_value p val
  | _ => json_write p val ;;; ret false
  end.

(* (panicked, result, final bytes of *b, still the original array, the original array to cap, argument unchanged) *)
Definition buf_case_k (op : nat) (content : bytes) (cp : nat) (name val : bytes) (k : nat)
  : option (bool * bool * bytes * bool * bytes * bool) :=
  let m := buf_mem content cp val k in
  match buf_op op name val m with
  | Ok (r, m1) =>
      match (h <- load_hdr (0, 0) ;; fb <- read_bytes h ;; ret (h, fb)) m1 with
      | Ok ((h, fb), _) =>
          Some (false, r, fb, Nat.eqb (s_arr h) 1 && Nat.eqb (s_off h) 0,
                bytes_of_cells (nth 1 (arrays m1) []),
                bytes_eqb (bytes_of_cells (nth 2 (arrays m1) [])) (val ++ [sentinel; sentinel]))
      | _ => None
      end
  | Panic _ => Some (true, false, [], false, [], true)
  | _ => None
  end.
Definition buf_case (op : nat) (content : bytes) (cp : nat) (name val : bytes) :=
  (buf_case_k op content cp name val 0, buf_case_k op content cp name val 5).

Definition buf_obs1 (r : option (bool * bool * bytes * bool * bytes * bool)) (obs : bool * bool * bytes * bool * bytes) : bool :=
  match r with
  | Some (pn, res, fb, inpl, orig, argok) =>
      let '(opn, ores, ofb, oinpl, oorig) := obs in
      if pn then opn
      else negb opn && Bool.eqb res ores && bytes_eqb fb ofb && Bool.eqb inpl oinpl && bytes_eqb orig oorig && argok
  | None => false
  end.
Definition buf_obs_eqb (r : option (bool * bool * bytes * bool * bytes * bool) * option (bool * bool * bytes * bool * bytes * bool))
  (obs : bool * bool * bytes * bool * bytes) : bool :=
  buf_obs1 (fst r) obs && buf_obs1 (snd r) obs.

(* NLV cases: array 0 = the receiver's entries; array i+1 = the i-th value's backing array to cap *)
Fixpoint nlv_cells (n : list (bytes * bytes * nat)) (i : nat) : list cell :=
  match n with
  | [] => []
  | (r, v, cp) :: t => Clrv r (mkslice i 0 (length v) cp) :: nlv_cells t (S i)
  end.
Definition nlv_arrays (n : list (bytes * bytes * nat)) : list (list cell) :=
  map (fun e => let '(r, v, cp) := e in map Cb (v ++ repeat sentinel (cp - length v))) n.
Definition nlv_mem (n : list (bytes * bytes * nat)) (k : nat) : mem :=
  mem0 (nlv_cells n 1 :: nlv_arrays n) k.

(* (output, the value arrays after the call, the entries array unchanged) *)
Definition nlv_case_k (inplace : bool) (n : list (bytes * bytes * nat)) (k : nat) : option (option bytes * list bytes * bool) :=
  let m := nlv_mem n k in
  match (o <- nlv_marshal_gen inplace inplace (mkslice 0 0 (length n) (length n)) ;;
         match o with Some s => b <- read_bytes s ;; ret (Some b) | None => ret None end) m with
  | Ok (ob, m1) =>
      Some (ob, map bytes_of_cells (firstn (length n) (skipn 1 (arrays m1))),
            match nth_error (arrays m1) 0, nth_error (arrays m) 0 with
            | Some a, Some b => Nat.eqb (length a) (length b) &&
                                forallb (fun ab => match ab with
                                                   | (Clrv r1 v1, Clrv r2 v2) => bytes_eqb r1 r2 && Nat.eqb (s_arr v1) (s_arr v2) && Nat.eqb (s_len v1) (s_len v2)
                                                   | _ => false end) (combine a b)
            | _, _ => false
            end)
  | _ => None
  end.
Definition nlv_case (n : list (bytes * bytes * nat)) := (nlv_case_k false n 0, nlv_case_k false n 4).

Fixpoint list_bytes_eqb (a b : list bytes) : bool :=
  match a, b with
  | [], [] => true
  | x :: a', y :: b' => bytes_eqb x y && list_bytes_eqb a' b'
  | _, _ => false
  end.
Definition nlv_obs1 (r : option (option bytes * list bytes * bool)) (obs : option bytes * list bytes) : bool :=
  match r with
  | Some (ob, arrs, same) => opt_bytes_eqb ob (fst obs) && list_bytes_eqb arrs (snd obs) && same
  | None => false
  end.
Definition nlv_obs_ok (r : option (option bytes * list bytes * bool) * option (option bytes * list bytes * bool))
  (obs : option bytes * list bytes) : bool :=
  nlv_obs1 (fst r) obs && nlv_obs1 (snd r) obs.

(* ------------------------------------------------------------------ the modelled operations as two families *)

(* operations writing into a caller-supplied OUTPUT buffer (a *[]byte at p); everything else they are given
   (names and string values: immutable strings; []byte values and NaturalLanguageValues: slices of the store)
   is a read-only argument *)
Inductive bufop :=
| BWrite (bs : bytes)                       (* JSONWrite / JSONWriteS *)
| BComma                                    (* JSONWriteComma *)
| BPropName (name : bytes)                  (* JSONWritePropName *)
| BValue (v : slice)                        (* JSONWriteValue *)
| BProp (name : bytes) (v : slice)          (* JSONWriteProp *)
| BStringValue (s : bytes)                  (* JSONWriteStringValue *)
| BNlvProp (name : bytes) (nl : slice).     (* JSONWriteNaturalLanguageProp *)

Definition run_bufop (p : loc) (o : bufop) : M bool :=
  match o with
  | BWrite bs => json_write p bs ;;; ret true
  | BComma => json_write_comma p ;;; ret true
  | BPropName n => json_write_prop_name p n
  | BValue v => json_write_value p v
  | BProp n v => json_write_prop p n v
  | BStringValue s => json_write_string_value p s
  | BNlvProp n nl => json_write_nlv_prop p n nl
  end.

(* operations returning a value, without an output buffer *)
Inductive valop :=
| VEscapeQuote (s : bytes)                  (* escapeQuote *)
| VEscapeQuotePinned (s : bytes)            (* escapeQuote of the pinned tree (byteInsertAt on a private copy) *)
| VUnescape (b : slice)                     (* unescape *)
| VLrvMarshal (r : bytes) (v : slice)       (* LangRefValue.MarshalJSON *)
| VNlvMarshal (n : slice).                  (* NaturalLanguageValues.MarshalJSON *)

Inductive valres := RBytes (b : bytes) | RSlice (s : slice) | ROpt (o : option slice).

Definition run_valop (o : valop) : M valres :=
  match o with
  | VEscapeQuote s => b <- st_escape_quote s ;; ret (RBytes b)
  | VEscapeQuotePinned s => b <- st_escape_quote_pinned s ;; ret (RBytes b)
  | VUnescape b => s <- st_unescape b ;; ret (RSlice s)
  | VLrvMarshal r v => x <- lrv_marshal r v ;; ret (ROpt x)
  | VNlvMarshal n => x <- nlv_marshal n ;; ret (ROpt x)
  end.

(* ------------------------------------------------------------------ witnesses used by Props/C12.v *)

(* byteInsertAt on a slice with spare capacity: raw = "ab" (len 2) in an array of 4 cells *)
Definition bia_mem : mem := mem0 [map Cb (B "ab" ++ [sentinel; sentinel])] 0.
Definition bia_raw : slice := mkslice 0 0 2 4.

(* a single untagged entry whose text holds an escape sequence, with spare capacity *)
Definition nlv1_mem : mem := nlv_mem [(B "-", B "a\nb", 6)] 0.
Definition nlv1 : slice := mkslice 0 0 1 1.

(* an output buffer "{" with capacity 16 and a value argument *)
Definition ex_buf_mem : mem := buf_mem (B "{") 16 (B "1") 0.
(* the same with no spare capacity: every append reallocates *)
Definition ex_buf_mem_full : mem := buf_mem (B "{") 1 (B "1") 0.
