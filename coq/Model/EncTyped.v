(* C02, definedness of the encoder model (builder b54).
   [well_typed L LE x]: every field of every struct inside x (any depth, list members, endpoints) is declared by the
   struct's layout and holds a value of the constructor the layout type prescribes (TItem -> FItem, TItems -> FItems,
   TNlv -> FNlv, ...: the match of Copy.type_ok), each field at most once.  NOTHING about the content of strings,
   texts, ids, instants, durations or numbers; nothing about what an item position holds (nil, typed nil pointers, IRIs,
   lists in lists, IRIs lists in item positions are all well-typed); zero values may be stored.
   [enc_defined_tables_ok T L LE]: the decidable condition on a set of write tables under which JsonEnc.marshal_json
   answers on every well-typed value (Proofs/EncDefinedP.v).  It follows the interpreter: run_table from depth 6 on
   the MarshalJSON table of each of the 14 kinds, delegations and leaf structs (Endpoints / PublicKey / Source) one
   level down each; a statement is accepted when its guards and accumulation are ones the interpreter evaluates and its
   writer / via is one that JsonEnc.write_value evaluates on EVERY value of the declared type of its path.
   Definitions only. *)
From AP.Model Require Import Prelude Bytes Vocab Layout JsonTables JsonEnc.

(* the value held by a field is of the constructor of the field's Go type (same match as Copy.type_ok) *)
Definition ctor_ok (t : gotype) (v : fval) : bool :=
  match t, v with
  | TItem, FItem _ | TItems, FItems _ | TNlv, FNlv _ | TString, FStr _ | TTime, FTime _ | TDur, FDur _
  | TUint, FUint _ | TInt64, FInt _ | TBool, FBool _ | TFloat, FFloat _ | TSource, FSource _ _
  | TEndpoints, FEndpoints _ | TPubKey, FPubKey _ _ _ => true
  | _, _ => false
  end.

Fixpoint fty (l : list fdecl) (f : fid) : option gotype :=
  match l with
  | [] => None
  | d :: r => if fid_beq f (fd_fid d) then Some (fd_type d) else fty r f
  end.

Fixpoint nodup_f {A} (l : list (fid * A)) : bool :=
  match l with
  | [] => true
  | (f, _) :: r => negb (existsb (fun p => fid_beq (fst p) f) r) && nodup_f r
  end.

Section Typed.
  Variable L : kind -> list fdecl.      (* Gen/Layout.v layout_of *)
  Variable LE : list fdecl.             (* Gen/Layout.v layout_endpoints *)

  Fixpoint well_typed (i : item) : bool :=
    match i with
    | IObj _ k fs =>
        nodup_f fs &&
        (fix go (fs : list (fid * fval)) : bool :=
           match fs with
           | [] => true
           | (f, v) :: r =>
               match fty (L k) f with Some t => ctor_ok t v | None => false end && wt_fval v && go r
           end) fs
    | IItems _ (Some l) =>
        (fix go (l : list item) : bool := match l with [] => true | x :: r => well_typed x && go r end) l
    | _ => true
    end
  with wt_fval (v : fval) : bool :=
    match v with
    | FItem i => well_typed i
    | FItems (Some l) =>
        (fix go (l : list item) : bool := match l with [] => true | x :: r => well_typed x && go r end) l
    | FEndpoints (Some e) =>
        nodup_f e &&
        (fix go (e : list (fid * item)) : bool :=
           match e with
           | [] => true
           | (f, x) :: r => match fty LE f with Some TItem => true | _ => false end && well_typed x && go r
           end) e
    | _ => true
    end.
End Typed.

(* the pseudo field lists JsonEnc.pubkey_fields / source_fields give to the leaf structs: their typing *)
Definition layout_pubkey : list fdecl :=
  [mkfd F_ID TString 0 0 0 (B "id"); mkfd F_Owner TString 0 0 0 (B "owner"); mkfd F_PublicKeyPem TString 0 0 0 (B "publicKeyPem")].
Definition layout_source : list fdecl :=
  [mkfd F_Content TNlv 0 0 0 (B "content"); mkfd F_MediaType TString 0 0 0 (B "mediaType")].

(* the declared type of what a path denotes (JsonEnc.path_get) *)
Definition path_type (Lk : list fdecl) (path : list fid) : option gotype :=
  match path with
  | [f] => fty Lk f
  | [f; g] =>
      match fty Lk f with
      | Some TPubKey => fty layout_pubkey g
      | Some TSource => fty layout_source g
      | _ => None
      end
  | _ => None
  end.

Definition guard_known (g : wguard) : bool :=
  match g with GOther src => bytes_eqb src pubkey_guard_src | _ => true end.
Definition acc_known (a : wacc) : bool := match a with AccOther => false | _ => true end.

(* the marshalers JSONWriteProp's model knows for a string-typed value *)
Definition str_via_known (via : bytes) : bool :=
  bytes_eqb via (B "MarshalJSON:ID") || bytes_eqb via (B "MarshalJSON:IRI")
  || bytes_eqb via (B "MarshalJSON:ActivityVocabularyType") || bytes_eqb via (B "MarshalJSON:MimeType")
  || bytes_eqb via (B "json.Marshal").

(* the instant / duration writers of the model take a stored value only: the statement must stand behind the guard
   that makes the field a stored non-zero one (as every such statement of the code does) *)
Definition guarded_time (path : list fid) (gs : list wguard) : bool :=
  match path with
  | [f] => existsb (fun g => match g with GNotZeroTime f' => fid_beq f f' | _ => false end) gs
  | _ => false
  end.
Definition guarded_num (path : list fid) (gs : list wguard) : bool :=
  match path with
  | [f] => existsb (fun g => match g with GNe0 f' | GGt0 f' => fid_beq f f' | _ => false end) gs
  | _ => false
  end.

(* the model of JSONWriteProp on *Endpoints takes a non-nil pointer only (the code calls a value-receiver method on the
   pointer: a nil one panics): the statement must stand behind the field's != nil guard *)
Definition guarded_nonnil (path : list fid) (gs : list wguard) : bool :=
  match path with
  | [f] => existsb (fun g => match g with GNeNil f' => fid_beq f f' | _ => false end) gs
  | _ => false
  end.

Definition gotype_is (a b : gotype) : bool := gotype_eqb a b.

(* write_value answers on every value of type t (and on the absent field); [leaf] judges the callee table of a leaf struct *)
Definition writer_defined (leaf : gotype -> bool) (w via : bytes) (t : gotype) (path : list fid) (gs : list wguard) : bool :=
  if bytes_eqb w (B "JSONWriteItemProp") then gotype_is t TItem || gotype_is t TItems
  else if bytes_eqb w (B "JSONWriteItemCollectionProp") then gotype_is t TItems
  else if bytes_eqb w (B "JSONWriteNaturalLanguageProp") then gotype_is t TNlv
  else if bytes_eqb w (B "JSONWriteProp") then
    match t with
    | TString => str_via_known via
    | TEndpoints => leaf t && guarded_nonnil path gs
    | TPubKey | TSource => leaf t
    | _ => false
    end
  else if bytes_eqb w (B "JSONWriteTimeProp") then gotype_is t TTime && guarded_time path gs
  else if bytes_eqb w (B "JSONWriteDurationProp") then gotype_is t TDur && guarded_num path gs
  else if bytes_eqb w (B "JSONWriteIntProp") then true
  else if bytes_eqb w (B "JSONWriteFloatProp") then true
  else if bytes_eqb w (B "JSONWriteBoolProp") then true
  else if bytes_eqb w (B "JSONWriteStringProp") then gotype_is t TString
  else if bytes_eqb w (B "JSONWriteIRIProp") then gotype_is t TString
  else false.

Section Tables.
  Variable T : list (bytes * bool * list wstmt).
  Variable LE : list fdecl.

  (* [tbl_defined depth Lk name]: run_table T depth _ name answers on every field list typed by Lk *)
  Fixpoint tbl_defined (depth : nat) (Lk : list fdecl) (name : bytes) : bool :=
    match depth with
    | O => false
    | S d =>
        match jw_table T name with
        | None => false
        | Some (_, stmts) =>
            forallb (fun s =>
              match s with
              | WProp _ w path via gs acc _ =>
                  forallb guard_known gs && acc_known acc &&
                  match path_type Lk path with
                  | Some t =>
                      writer_defined (fun t' => match t' with
                                                | TEndpoints => tbl_defined d LE (B "Endpoints_MarshalJSON")
                                                | TPubKey => tbl_defined d layout_pubkey (B "PublicKey_MarshalJSON")
                                                | TSource => tbl_defined d layout_source (B "Source_MarshalJSON")
                                                | _ => false
                                                end) w via t path gs
                  | None => false
                  end
              | WDelegate _ fn acc _ =>
                  match fn with [] => true | _ => acc_known acc && tbl_defined d Lk fn end
              | WUnrecognised _ _ => false
              end) stmts
        end
    end.

  Definition enc_defined_tables_ok (L : kind -> list fdecl) : bool :=
    forallb (fun k => tbl_defined 6 (L k) (marshal_table k)) all_kinds.

  (* diagnostics: the kinds whose table is refused *)
  Definition enc_defined_tables_bad (L : kind -> list fdecl) : list kind :=
    filter (fun k => negb (tbl_defined 6 (L k) (marshal_table k))) all_kinds.
End Tables.

(* the fuel marshal_json gives: one more than the size; [item_size x] already suffices (EncDefinedP.enc_item_defined) *)
Definition enc_fuel (x : item) : nat := item_size x.
