(* item.go ItemsEqual / itemsNeedSwapping and the Equals methods it dispatches to:
   Object, IntransitiveActivity, Activity, Actor, Collection, CollectionPage, OrderedCollection,
   OrderedCollectionPage, Link (added by a fix), ItemCollection.Equals / Contains.
   Definitions only.

   ItemsEqual is not structurally recursive (it swaps its arguments, Collection.Equals exchanges the
   roles of receiver and argument): the recursion goes through a parameter [rec] and is closed with fuel.
   Every Equals method is a function of [rec]; the with-driven field comparisons are tables ([cmp] lists)
   written after the Go text, one entry per `if w.X ... { if !... }` block, in source order.

   The model follows the REPAIRED code for [cfg_fixed]; each flag of [eqcfg] switches one repair off,
   [cfg_pinned] is the code of the pinned tree (used only by the ..._pinned_refuted theorems and by the
   correspondence check when run against an unrepaired tree). *)
From AP.Model Require Import Prelude Vocab Pred IriEq Nlv.
From AP.Gen Require Import TypeLists.

Record eqcfg := mkcfg {
  c_link_branch  : bool;  (* ItemsEqual has a branch for links (Link.Equals) *)
  c_member_items : bool;  (* ItemCollection.Equals looks members up as items, not as their GetLink() *)
  c_iris_lists   : bool;  (* ItemCollection.Equals accepts an IRIs list as the other side *)
  c_url_isnil    : bool;  (* Object.Equals guards url with IsNil instead of != nil *)
  c_conv_err     : bool;  (* collection Equals methods treat a failed On<Type>(with) as inequality *)
  c_with_driven  : bool;  (* collection Equals methods delegate as receiver.Equals(with), not with.Equals(receiver) *)
  c_nil_guards   : bool;  (* Object / IntransitiveActivity / Activity / Actor.Equals test IsNil(with) first *)
  c_url_items    : bool;  (* Object.Equals compares url with ItemsEqual, as its sibling properties, not by GetLink() *)
  c_match_once   : bool   (* ItemCollection.Equals matches the members one to one (a []bool of used positions) instead of
                             asking w.Contains(member) for every member *)
}.
Definition cfg_fixed : eqcfg := mkcfg true true true true true true true true true.
Definition cfg_pinned : eqcfg := mkcfg false false false false false false false false false.
(* every repair but the one of url: url compared as w.URL.GetLink().Equals(o.URL.GetLink(), false) under the IsNil
   guard - the code before the fix "Object.Equals compared url by GetLink() only" (C09_url_list_pinned_refuted) *)
Definition cfg_url_links_pinned : eqcfg := mkcfg true true true true true true true false true.
(* every repair but the one of the list comparison: after the length test, `for _, it := range i { if !w.Contains(it) }` -
   the code before the fix "ItemCollection.Equals only asked whether every member is contained in the other list"
   (C09_list_repeated_member_pinned_refuted) *)
Definition cfg_list_contains_pinned : eqcfg := mkcfg true true true true true true true true false.

(* The four Equals methods that had no nil test, called DIRECTLY with a nil-like argument (ItemsEqual
   never does that: it tests IsNil first).  Pinned tree: Object.Equals called with.GetID() on the nil;
   the other three went through On<Type>(with, fn), which returns nil without calling fn for an untyped
   nil and for a nil list (result stays true), and hands fn a nil pointer for typed nils and - through
   reflectItemToType - for the empty IRI.  None = the method carries on as for any other argument. *)
Inductive meth := MObject | MIntransitive | MActivity | MActor.
Definition pinned_nil_arg (m : meth) (w : item) : option (outcome bool) :=
  match m, w with
  | MObject, (INil | ITNil _) => Some (Panic NilDeref)
  | MObject, _ => None
  | _, INil => Some (Ok true)
  | _, (IItems false None | IIris false None) => Some (Ok true)
  | MActivity, ITNil KActivity => Some (Panic NilDeref)
  | MActivity, _ => None
  | _, (ITNil _ | IIri _ _) => Some (Panic NilDeref)
  | _, _ => None
  end.

Definition fields := list (fid * fval).

(* GetType / GetLink of an item already known not to be nil (ItemsEqual tests IsNil first) *)
Definition typ (i : item) : bytes := match get_type i with Ok t => t | _ => [] end.
Definition lnk (i : item) : bytes := match get_link i with Ok t => t | _ => [] end.

(* ActivityVocabularyTypes.Contains: strings.EqualFold against every entry *)
Definition tl_contains (l : list bytes) (t : bytes) : bool := existsb (fun v => fold_eqb v t) l.

Definition needs_swap (i1 i2 : item) : bool :=
  if is_iri i1 && negb (is_iri i2) then true
  else if tl_contains tl_ObjectTypes (typ i2) then negb (tl_contains tl_ObjectTypes (typ i1))
  else false.

(* IsCollection(): a method of the Go type, not of the type name *)
Definition is_collection_m (i : item) : bool :=
  match i with
  | IObj _ (KCollection | KCollectionPage | KOrdered | KOrderedPage) _ => true
  | IItems _ _ | IIris _ _ => true
  | _ => false
  end.

(* To<Target>(it) on a non-nil struct: the type switches of the To* functions; every other source
   ends in reflectItemToType, which fails for distinct struct types *)
Definition cast_ok (target src : kind) : bool :=
  match target, src with
  | KObject, KLink => false
  | KObject, _ => true
  | KActivity, KActivity => true
  | KIntransitive, (KIntransitive | KQuestion | KActivity) => true
  | KActor, KActor => true
  | KCollection, (KCollection | KCollectionPage | KOrdered | KOrderedPage) => true
  | KCollectionPage, (KCollectionPage | KOrderedPage) => true
  | KOrdered, (KCollection | KCollectionPage | KOrdered | KOrderedPage) => true
  | KOrderedPage, (KOrderedPage | KCollectionPage) => true
  | KLink, KLink => true
  | _, _ => false
  end.

(* the fields seen through the cast; None = conversion error *)
Definition as_kind (target : kind) (i : item) : option fields :=
  match i with
  | IObj _ k fs => if cast_ok target k then Some fs else None
  | _ => None
  end.

(* Items and OrderedItems share one offset: a Collection view of an ordered collection reads
   OrderedItems under the name Items and vice versa *)
Definition view_items (fs : fields) : option (list item) :=
  match get_items F_Items fs with
  | Some l => Some l
  | None => get_items F_OrderedItems fs
  end.

Definition nl_of (n : nlv) : nl := match n with Some l => l | None => [] end.
Definition time_equal (a b : vtime) : bool := (vsecs a =? vsecs b)%Z && (vnanos a =? vnanos b)%Z.

(* ToItemCollection on an item for which IsItemCollection / IsCollection() holds *)
Definition to_item_collection (i : item) : option (list item) :=
  match i with
  | IItems _ (Some l) => Some l
  | IItems _ None => Some []
  | IIris _ (Some l) => Some (map (IIri false) l)
  | IIris _ None => Some []
  | IObj true (KCollection | KCollectionPage | KOrdered | KOrderedPage) fs =>
      Some (match view_items fs with Some l => l | None => [] end)
  | _ => None
  end.

(* one with-driven comparison block *)
Inductive cmp :=
| CNlv (f : fid)      (* if len(w.F) > 0 { if !w.F.Equals(o.F) } *)
| CNlvSet (f : fid)   (* if w.F != nil { if !o.F.Equals(w.F) } *)
| CItem (f : fid)     (* if w.F != nil { if !ItemsEqual(o.F, w.F) } *)
| CItems (f : fid)    (* the same on an ItemCollection-typed property *)
| CCollItems          (* Items / OrderedItems of a collection view, through ItemsEqual *)
| COrdItems           (* if w.OrderedItems != nil { if !o.OrderedItems.Equals(w.OrderedItems) } *)
| CUrl                (* if !IsNil(w.URL) { if !ItemsEqual(o.URL, w.URL) } - the guard is IsNil, not != nil *)
| CTime (f : fid)     (* if !w.F.IsZero() { if !w.F.Equal(o.F) } *)
| CDur (f : fid)      (* if w.F != 0 { if w.F != o.F } *)
| CUint (f : fid)     (* if w.F > 0 { if w.F != o.F } *)
| CStr (f : fid)      (* if len(w.F) > 0 { if w.F != o.F } *)
| CIri (f : fid).     (* if len(w.F) > 0 { if !o.F.Equals(w.F, false) } *)

Definition object_cmps : list cmp :=
  [CNlv F_Name; CNlv F_Summary; CNlv F_Content; CItem F_Attachment; CItem F_AttributedTo; CItems F_Audience;
   CItem F_Context; CItem F_Generator; CItem F_Icon; CItem F_Image; CItem F_InReplyTo; CItem F_Location;
   CItem F_Preview; CItem F_Replies; CItems F_Tag; CUrl; CItems F_To; CItems F_Bto; CItems F_CC; CItems F_BCC;
   CTime F_Published; CTime F_Updated; CTime F_StartTime; CTime F_EndTime; CDur F_Duration;
   CItem F_Likes; CItem F_Shares].
Definition intransitive_cmps : list cmp :=
  [CItem F_Actor; CItem F_Target; CItem F_Result; CItem F_Origin; CItem F_Instrument].
Definition activity_cmps : list cmp := [CItem F_Object].
Definition actor_cmps : list cmp := [CItem F_Inbox; CItem F_Outbox; CItem F_Liked; CNlvSet F_PreferredUsername].
Definition collection_cmps : list cmp :=
  [CUint F_TotalItems; CItem F_Current; CItem F_First; CItem F_Last; CCollItems].
(* (current, first and last are compared by the collection comparison the page methods delegate to; the pinned tree
   compared them a second time here, which doubled the work per level of a chain of pages) *)
Definition page_cmps : list cmp := [CItem F_PartOf; CItem F_Next; CItem F_Prev].
Definition page_cmps_pinned : list cmp :=
  [CItem F_PartOf; CItem F_Current; CItem F_First; CItem F_Last; CItem F_Next; CItem F_Prev].
(* (the members are compared by the collection comparison the method delegates to - the ordered items are the items of
   the collection view; the pinned tree compared them a second time, doubling the work per level of nested collections) *)
Definition ordered_cmps : list cmp := [].
Definition ordered_cmps_pinned : list cmp := [COrdItems].
Definition link_cmps : list cmp :=
  [CNlv F_Name; CIri F_Rel; CStr F_MediaType; CUint F_Height; CUint F_Width; CItem F_Preview; CIri F_Href;
   CStr F_HrefLang].

Section Eq0.
  Variable cfg : eqcfg.
  Variable rec : item -> item -> outcome bool.   (* ItemsEqual, one level down *)

  Definition nil_guard (m : meth) (w : item) (k : outcome bool) : outcome bool :=
    if is_nil w then
      if c_nil_guards cfg then Ok false
      else match pinned_nil_arg m w with Some o => o | None => k end
    else k.

  (* ItemCollection.Contains(r): first member equal to r *)
  Fixpoint contains_m (l : list item) (r : item) : outcome bool :=
    match l with
    | [] => Ok false
    | m :: t => obind (rec m r) (fun b => if b then Ok true else contains_m t r)
    end.

  (* the loop `for _, it := range i { if !w.Contains(...) { result = false; return } }` *)
  Fixpoint all_contained (i w : list item) : outcome bool :=
    match i with
    | [] => Ok true
    | x :: t =>
        obind (if c_member_items cfg then contains_m w x
               else obind (get_link x) (fun s => contains_m w (IIri false s)))
              (fun b => if b then all_contained t w else Ok false)
    end.

  (* the inner loop `for j, wit := range *w { if !used[j] && ItemsEqual(wit, it) { used[j] = true; found = true; break } }`:
     Some used' = found, with the position marked; None = not found.  A used position costs no comparison.
     ([used] is as long as [w]: make([]bool, len( *w)).  A shorter one would be an index panic in Go; the interpreter of
     Model/ItemsEqTab.v has that panic and Proofs/ItemsEqTabP.v proves it is never reached) *)
  Fixpoint find_unused (w : list item) (used : list bool) (x : item) : outcome (option (list bool)) :=
    match w, used with
    | m :: t, true :: ut => obind (find_unused t ut x) (fun r => Ok (option_map (cons true) r))
    | m :: t, false :: ut =>
        obind (rec m x) (fun b => if b then Ok (Some (true :: ut))
                                  else obind (find_unused t ut x) (fun r => Ok (option_map (cons false) r)))
    | _, _ => Ok None
    end.

  (* the loop `for _, it := range i { found := false; <inner loop>; if !found { result = false; return } }` *)
  Fixpoint all_matched (i w : list item) (used : list bool) : outcome bool :=
    match i with
    | [] => Ok true
    | x :: t => obind (find_unused w used x)
                      (fun r => match r with Some used' => all_matched t w used' | None => Ok false end)
    end.

  (* the same loop said without positions: the first member of [w] equal to [x] is taken out of [w]
     (Proofs/EqualP.v, all_matched_removal: all_matched i w used = all_removed i (the members of w not yet used)) *)
  Fixpoint remove_first (w : list item) (x : item) : outcome (option (list item)) :=
    match w with
    | [] => Ok None
    | m :: t => obind (rec m x) (fun b => if b then Ok (Some t)
                                          else obind (remove_first t x) (fun r => Ok (option_map (cons m) r)))
    end.
  Fixpoint all_removed (i w : list item) : outcome bool :=
    match i with
    | [] => Ok true
    | x :: t => obind (remove_first w x) (fun r => match r with Some w' => all_removed t w' | None => Ok false end)
    end.

  (* ItemCollection.Equals; the receiver is given as a list (nil and empty behave alike) *)
  Definition itemcoll_equals (i : list item) (w : item) : outcome bool :=
    if is_nil w then Ok (Nat.eqb (length i) 0)   (* IsNil(i) || len(i) == 0 *)
    else if negb (is_collection_m w) then Ok false
    else if negb (bytes_eqb (typ w) collection_of_items
                  || (c_iris_lists cfg && bytes_eqb (typ w) collection_of_iris)) then Ok false
    else match to_item_collection w with
         | None => Ok true                           (* error of OnItemCollection dropped *)
         | Some wl =>
             if negb (Nat.eqb (length wl) (length i)) then Ok false
             else if c_match_once cfg then all_matched i wl (repeat false (length wl))
             else all_contained i wl
         end.

End Eq0.

(* Everything below is parametric in the IRI comparison
        ideq a b cs  =  a.Equals(b, cs)          (iri.go IRI.Equals; cs = checkScheme)
   (builder b47).  Module EqG holds the generic definitions; the names without prefix that follow the module are
   the instances with [iri_eqb] (the comparison over the plain URL grammar of Model/Url.v, Model/IriEq.v) - the
   definitions every theorem and every table tie was stated about before - as abbreviations, so that their
   meaning, their unfolding and every proof about them is what it was.  Model/EqualU.v instantiates the same
   definitions with [iri_equ] (Model/IriEqU.v: IRI.Equals over net/url on all byte strings). *)
Module EqG.
Section Eq.
  Variable ideq : bytes -> bytes -> bool -> bool.
  Variable cfg : eqcfg.
  Variable rec : item -> item -> outcome bool.   (* ItemsEqual, one level down *)

  Definition cmp_one (c : cmp) (ofs wfs : fields) : outcome bool :=
    match c with
    | CNlv f =>
        match nl_of (get_nlv f wfs) with
        | [] => Ok true
        | w => Ok (nl_equals w (nl_of (get_nlv f ofs)))
        end
    | CNlvSet f =>
        match get_nlv f wfs with
        | None => Ok true
        | Some w => Ok (nl_equals (nl_of (get_nlv f ofs)) w)
        end
    | CItem f =>
        match get_item f wfs with
        | INil => Ok true
        | wi => rec (get_item f ofs) wi
        end
    | CItems f =>
        match get_items f wfs with
        | None => Ok true
        | Some l => rec (IItems false (get_items f ofs)) (IItems false (Some l))
        end
    | CCollItems =>
        match view_items wfs with
        | None => Ok true
        | Some l => rec (IItems false (view_items ofs)) (IItems false (Some l))
        end
    | COrdItems =>
        match view_items wfs with
        | None => Ok true
        | Some l =>
            (* with is a non-nil ItemCollection value here *)
            itemcoll_equals cfg rec (match view_items ofs with Some ol => ol | None => [] end) (IItems false (Some l))
        end
    | CUrl =>
        let wu := get_item F_URL wfs in
        let ou := get_item F_URL ofs in
        if c_url_items cfg then
          (* if !IsNil(w.URL) { if !ItemsEqual(o.URL, w.URL) } *)
          if is_nil wu then Ok true else rec ou wu
        else if c_url_isnil cfg then
          (* if !IsNil(w.URL) { if IsNil(o.URL) {false}; if !w.URL.GetLink().Equals(o.URL.GetLink(), false) {false} }:
             GetLink() of a list is the empty IRI, of a link its id - lists with different members, id-less links
             with different hrefs compared equal *)
          if is_nil wu then Ok true
          else if is_nil ou then Ok false
          else Ok (ideq (lnk wu) (lnk ou) false)
        else
          match wu with
          | INil => Ok true
          | _ => match ou with
                 | INil => Ok false
                 | _ => obind (get_link wu) (fun a => obind (get_link ou) (fun b => Ok (ideq a b false)))
                 end
          end
    | CTime f =>
        let t := get_time f wfs in
        if vtime_is_zero t then Ok true else Ok (time_equal t (get_time f ofs))
    | CDur f =>
        let d := get_dur f wfs in
        if (d =? 0)%Z then Ok true else Ok (d =? get_dur f ofs)%Z
    | CUint f =>
        let n := get_uint f wfs in
        if (n =? 0)%N then Ok true else Ok (n =? get_uint f ofs)%N
    | CStr f =>
        match get_str f wfs with
        | [] => Ok true
        | s => Ok (bytes_eqb s (get_str f ofs))
        end
    | CIri f =>
        match get_str f wfs with
        | [] => Ok true
        | s => Ok (ideq (get_str f ofs) s false)
        end
    end.

  (* the blocks in source order; the first failing one ends the closure *)
  Fixpoint all_cmp (cs : list cmp) (ofs wfs : fields) : outcome bool :=
    match cs with
    | [] => Ok true
    | c :: r => obind (cmp_one c ofs wfs) (fun b => if b then all_cmp r ofs wfs else Ok false)
    end.

  (* Object.Equals.  The `with.IsLink() && ...` test is not modelled separately: a Link fails
     OnObject(with) just below, so both ways the answer is false and nothing can panic in between. *)
  Definition object_equals (ofs : fields) (w : item) : outcome bool :=
    nil_guard cfg MObject w (
    if is_item_collection w then Ok false
    else if negb (ideq (get_str F_ID ofs) (lnk w) true) then Ok false
    else if negb (fold_eqb (get_str F_Type ofs) (typ w)) then Ok false
    else match as_kind KObject w with
         | None => Ok false
         | Some wfs => all_cmp object_cmps ofs wfs
         end).

  (* IntransitiveActivity.Equals: result = Object.Equals, then the blocks may only lower it *)
  Definition intransitive_equals (ifs : fields) (w : item) : outcome bool :=
    nil_guard cfg MIntransitive w (
    match as_kind KIntransitive w with
    | None => Ok false
    | Some wfs =>
        obind (object_equals ifs (IObj true KIntransitive wfs)) (fun r =>
        obind (all_cmp intransitive_cmps ifs wfs) (fun r2 => Ok (r && r2)))
    end).

  Definition activity_equals (afs : fields) (w : item) : outcome bool :=
    nil_guard cfg MActivity w (
    match as_kind KActivity w with
    | None => Ok false
    | Some wfs =>
        obind (intransitive_equals afs (IObj true KActivity wfs)) (fun r =>
        obind (all_cmp activity_cmps afs wfs) (fun r2 => Ok (r && r2)))
    end).

  Definition actor_equals (afs : fields) (w : item) : outcome bool :=
    nil_guard cfg MActor w (
    match as_kind KActor w with
    | None => Ok false
    | Some wfs =>
        obind (object_equals afs (IObj true KActor wfs)) (fun r =>
        obind (all_cmp actor_cmps afs wfs) (fun r2 => Ok (r && r2)))
    end).

  (* Collection.Equals(with).  Pinned tree: the object part was compared as w.Equals(c), i.e. driven by
     the fields set in the RECEIVER c (a Collection value whatever it was cast from); same pattern in the
     three methods below. *)
  Definition collection_equals (cfs : fields) (w : item) : outcome bool :=
    if is_nil w then Ok false
    else if negb (is_collection_m w) then Ok false
    else match as_kind KCollection w with
         | None => Ok (negb (c_conv_err cfg))
         | Some wfs =>
             obind (if c_with_driven cfg then object_equals cfs (IObj true KCollection wfs)
                    else object_equals wfs (IObj false KCollection cfs)) (fun r =>
             obind (all_cmp collection_cmps cfs wfs) (fun r2 => Ok (r && r2)))
         end.

  Definition page_equals (cfs : fields) (w : item) : outcome bool :=
    if is_nil w then Ok false
    else if negb (is_collection_m w) then Ok false
    else match as_kind KCollectionPage w with
         | None => Ok (negb (c_conv_err cfg))
         | Some wfs =>
             obind (if c_with_driven cfg then collection_equals cfs (IObj true KCollectionPage wfs)
                    else collection_equals wfs (IObj false KCollectionPage cfs)) (fun r =>
             obind (all_cmp page_cmps cfs wfs) (fun r2 => Ok (r && r2)))
         end.

  Definition ordered_equals (ofs : fields) (w : item) : outcome bool :=
    if is_nil w then Ok false
    else if negb (is_collection_m w) then Ok false
    else match as_kind KOrdered w with
         | None => Ok (negb (c_conv_err cfg))
         | Some wfs =>
             obind (if c_with_driven cfg then collection_equals ofs (IObj true KOrdered wfs)
                    else collection_equals wfs (IObj false KOrdered ofs)) (fun r =>
             obind (all_cmp ordered_cmps ofs wfs) (fun r2 => Ok (r && r2)))
         end.

  Definition opage_equals (ofs : fields) (w : item) : outcome bool :=
    if is_nil w then Ok false
    else if negb (is_collection_m w) then Ok false
    else match as_kind KOrderedPage w with
         | None => Ok (negb (c_conv_err cfg))
         | Some wfs =>
             obind (if c_with_driven cfg then ordered_equals ofs (IObj true KOrderedPage wfs)
                    else ordered_equals wfs (IObj false KOrderedPage ofs)) (fun r =>
             obind (all_cmp page_cmps ofs wfs) (fun r2 => Ok (r && r2)))
         end.

  (* Link.Equals (exists only in the repaired tree) *)
  Definition link_equals (lfs : fields) (w : item) : outcome bool :=
    if is_nil w || negb (is_link w) then Ok false
    else match as_kind KLink w with
         | None => Ok false
         | Some wfs =>
             if negb (ideq (get_str F_ID lfs) (get_str F_ID wfs) true) then Ok false
             else if negb (fold_eqb (get_str F_Type lfs) (get_str F_Type wfs)) then Ok false
             else all_cmp link_cmps lfs wfs
         end.

  Definition fields_of (i : item) : fields := match i with IObj _ _ fs => fs | _ => [] end.

  (* x.Equals(w) called directly on a struct of Go type k (the types without an Equals method: None).
     A non-nil list as argument of Object/IntransitiveActivity/Activity/Actor.Equals is outside the model
     (the On<Type> helpers would iterate over its members); ItemsEqual never passes one. *)
  Definition equals_method (k : kind) (fs : fields) (w : item) : option (outcome bool) :=
    match k with
    | KObject => Some (object_equals fs w)
    | KIntransitive => Some (intransitive_equals fs w)
    | KActivity => Some (activity_equals fs w)
    | KActor => Some (actor_equals fs w)
    | KCollection => Some (collection_equals fs w)
    | KCollectionPage => Some (page_equals fs w)
    | KOrdered => Some (ordered_equals fs w)
    | KOrderedPage => Some (opage_equals fs w)
    | KLink => Some (link_equals fs w)
    | _ => None
    end.

  (* the object branch of ItemsEqual: the Equals of the more specific type, when the type name of [w] (activity,
     actor) or of [it] (the four collection types) selects one and [it] converts to it; Object.Equals only when no
     more specific comparison ran (the `compared` flag; fix 4653bee - the pinned tree ran Object.Equals first and
     then overwrote its answer, which doubled the work at every level: every specific Equals starts with the
     comparison of the object part) *)
  Definition object_branch (it w : item) : outcome bool :=
    let fs := fields_of it in
    if tl_contains tl_ActivityTypes (typ w) then
      match as_kind KActivity it with Some afs => activity_equals afs w | None => object_equals fs w end
    else if tl_contains tl_ActorTypes (typ w) then
      match as_kind KActor it with Some afs => actor_equals afs w | None => object_equals fs w end
    else if is_collection_m it then
      (* four `if it.GetType() == ...` in a row; the names are distinct, at most one fires *)
      if bytes_eqb (typ it) (B "Collection") then
        match as_kind KCollection it with Some cfs => collection_equals cfs w | None => object_equals fs w end
      else if bytes_eqb (typ it) (B "OrderedCollection") then
        match as_kind KOrdered it with Some cfs => ordered_equals cfs w | None => object_equals fs w end
      else if bytes_eqb (typ it) (B "CollectionPage") then
        match as_kind KCollectionPage it with Some cfs => page_equals cfs w | None => object_equals fs w end
      else if bytes_eqb (typ it) (B "OrderedCollectionPage") then
        match as_kind KOrderedPage it with Some cfs => opage_equals cfs w | None => object_equals fs w end
      else object_equals fs w
    else object_equals fs w.

  Definition items_equal_body (it w : item) : outcome bool :=
    if is_nil it || is_nil w then Ok (is_nil w && is_nil it)
    else if needs_swap it w then rec w it
    else if is_iri w || is_iri it then Ok (ideq (lnk it) (lnk w) false)
    else if is_item_collection it then
      if negb (is_item_collection w) then Ok false
      else match to_item_collection it with
           | Some l => itemcoll_equals cfg rec l w
           | None => Ok false
           end
    else if is_object it then object_branch it w
    else if c_link_branch cfg && is_link it then link_equals (fields_of it) w
    else Ok false.
End Eq.

Fixpoint items_equal_c (ideq : bytes -> bytes -> bool -> bool) (cfg : eqcfg) (fuel : nat) (it w : item) : outcome bool :=
  match fuel with
  | O => OutOfFuel
  | S n => items_equal_body ideq cfg (items_equal_c ideq cfg n) it w
  end.

Definition items_equal ideq := items_equal_c ideq cfg_fixed.
Definition items_equal_pinned ideq := items_equal_c ideq cfg_pinned.
Definition items_equal_url_links_pinned ideq := items_equal_c ideq cfg_url_links_pinned.
Definition items_equal_list_contains_pinned ideq := items_equal_c ideq cfg_list_contains_pinned.
(* iri.go IRIs.Contains(r) over the same comparison ([iris_contains] of Model/IriEq.v is the instance with iri_eqb,
   [iris_contains_u] of Model/IriEqU.v the one with iri_equ - both by definition) *)
Definition iris_contains (ideq : bytes -> bytes -> bool -> bool) (l : list bytes) (x : bytes) : bool :=
  match l with [] => false | _ => existsb (fun iri => ideq x iri false) l end.
End EqG.

(* the measure of the recursion: like item_size, but an IRIs list counts its members (ItemsEqual turns
   it into an item list and compares member by member) *)
Fixpoint esize (i : item) : nat :=
  match i with
  | INil | ITNil _ | IIri _ _ => 1
  | IIris _ None => 1
  | IIris _ (Some l) => S (length l)
  | IObj _ _ fs =>
      S ((fix go (fs : list (fid * fval)) : nat :=
            match fs with [] => 0 | (_, v) :: r => efsize v + go r end) fs)
  | IItems _ None => 1
  | IItems _ (Some l) =>
      S ((fix go (l : list item) : nat := match l with [] => 0 | x :: r => esize x + go r end) l)
  end
with efsize (v : fval) : nat :=
  match v with
  | FItem i => esize i
  | FItems (Some l) =>
      S ((fix go (l : list item) : nat := match l with [] => 0 | x :: r => esize x + go r end) l)
  | _ => 1
  end.

(* enough fuel for every pair (theorem fuel_enough in Proofs/EqualP.v) *)
Definition fuel_for (x y : item) : nat := 2 * (esize x + esize y).

Module EqGI.
Definition ieq ideq (x y : item) : outcome bool := EqG.items_equal ideq (fuel_for x y) x y.
Definition ieq_pinned ideq (x y : item) : outcome bool := EqG.items_equal_pinned ideq (fuel_for x y) x y.
Definition ieq_url_links_pinned ideq (x y : item) : outcome bool :=
  EqG.items_equal_url_links_pinned ideq (fuel_for x y) x y.
Definition ieq_list_contains_pinned ideq (x y : item) : outcome bool :=
  EqG.items_equal_list_contains_pinned ideq (fuel_for x y) x y.
End EqGI.

(* ---- the instance with the comparison over the plain URL grammar: the names as they always were ---- *)
Notation cmp_one := (EqG.cmp_one iri_eqb).
Notation all_cmp := (EqG.all_cmp iri_eqb).
Notation object_equals := (EqG.object_equals iri_eqb).
Notation intransitive_equals := (EqG.intransitive_equals iri_eqb).
Notation activity_equals := (EqG.activity_equals iri_eqb).
Notation actor_equals := (EqG.actor_equals iri_eqb).
Notation collection_equals := (EqG.collection_equals iri_eqb).
Notation page_equals := (EqG.page_equals iri_eqb).
Notation ordered_equals := (EqG.ordered_equals iri_eqb).
Notation opage_equals := (EqG.opage_equals iri_eqb).
Notation link_equals := (EqG.link_equals iri_eqb).
Notation fields_of := EqG.fields_of.
Notation equals_method := (EqG.equals_method iri_eqb).
Notation object_branch := (EqG.object_branch iri_eqb).
Notation items_equal_body := (EqG.items_equal_body iri_eqb).
Notation items_equal_c := (EqG.items_equal_c iri_eqb).
Notation items_equal := (EqG.items_equal iri_eqb).
Notation items_equal_pinned := (EqG.items_equal_pinned iri_eqb).
Notation ieq := (EqGI.ieq iri_eqb).
Notation ieq_pinned := (EqGI.ieq_pinned iri_eqb).
Notation items_equal_url_links_pinned := (EqG.items_equal_url_links_pinned iri_eqb).
Notation ieq_url_links_pinned := (EqGI.ieq_url_links_pinned iri_eqb).
Notation items_equal_list_contains_pinned := (EqG.items_equal_list_contains_pinned iri_eqb).
Notation ieq_list_contains_pinned := (EqGI.ieq_list_contains_pinned iri_eqb).
