(* ItemsEqual READ FROM THE GENERATED TABLES over the wide model of IRI.Equals (builder b47): the interpreters of
   Model/EqualsTab.v (the nine struct Equals methods, module EtG) and Model/ItemsEqTab.v (ItemsEqual's dispatch, the
   helper comparisons, one comparison block through its callee; modules ItG, ItB) are parametric in the IRI comparison;
   here they are instantiated with [iri_equ] (Model/IriEqU.v) on the tables regenerated from the source on this run.
   Definitions only. *)
From AP.Model Require Import Prelude Vocab Pred IriEq IriEqU Equal EqualU EqualsTab EqualsGen ItemsEqTab ItemsEqGen.

Definition equals_method_t_u := EtG.equals_method_t iri_equ.
Definition equals_method_gen_u (rec : item -> item -> outcome bool) := equals_method_t_u gen_equals_table rec.
Definition items_equal_t_u := ItG.items_equal_t iri_equ.
Definition items_equal_gen_u : nat -> item -> item -> outcome bool := items_equal_t_u gen_itemseq_fns gen_equals_table.
Definition sem_iris_contains_u := ItG.sem_iris_contains iri_equ.
Definition raw_block_sem_u := ItB.raw_block_sem iri_equ.
