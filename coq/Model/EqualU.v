(* item.go ItemsEqual and the Equals methods over the WIDE model of IRI.Equals (builder b47).

   The definitions of module EqG of Model/Equal.v - ItemsEqual's dispatch, the nine struct Equals methods,
   ItemCollection.Equals / Contains - are parametric in the IRI comparison.  Model/Equal.v instantiates them with
   [iri_eqb] (IRI.Equals over the plain URL grammar of Model/Url.v: an id with a percent-escape, userinfo, an IP
   literal or a byte >= 0x80 is outside that grammar and is compared there by the string fast path only).
   This file instantiates THE SAME definitions with [iri_equ] of Model/IriEqU.v: the real IRI.Equals on all byte
   strings (net/url as Model/UrlU.v, iri.go equalFold as Model/Fold.v).  Nothing else differs: there is no second
   model of ItemsEqual.  Definitions only. *)
From AP.Model Require Import Prelude Vocab Pred IriEq IriEqU Equal.

Definition cmp_one_u := EqG.cmp_one iri_equ.
Definition all_cmp_u := EqG.all_cmp iri_equ.
Definition object_equals_u := EqG.object_equals iri_equ.
Definition link_equals_u := EqG.link_equals iri_equ.
Definition equals_method_u := EqG.equals_method iri_equ.
Definition object_branch_u := EqG.object_branch iri_equ.
Definition items_equal_body_u := EqG.items_equal_body iri_equ.
Definition items_equal_u := EqG.items_equal iri_equ.
(* ItemsEqual with enough fuel *)
Definition ieq_u : item -> item -> outcome bool := EqGI.ieq iri_equ.

(* the clause of C09 on the wide domain: the normal forms of Model/IriEqU.v without the scheme differ = host with
   port, cleaned path (both up to the folding of iri.go equalFold) or the multiset of decoded query parameters differ *)
Definition ids_differ_hpq_u (a b : bytes) : bool := negb (nf_u_eqb (nf_u false a) (nf_u false b)).
