(* Dynamic table extraction for the Equals tables (DESIGN 3.2 b, built for this one table).

   The harness (harness/zz_eqdyn.go) calls every K.Equals method of the real code on probe values that differ
   from a base value in ONE property, and records what the method answered.  [dyn_class] reads, from the answers
   alone, whether the property is compared and with which guard / comparison behaviour ([dclass]).  The same
   classes are computed from the model ([model_class]: the comparison blocks of the method and of every base
   method it delegates to) and from the static table of the translator ([static_class]).

     dynamic = model    for every struct type and property   : the fallback obligation.  It does not depend on the
                        SHAPE of any statement: a refactor that keeps the behaviour keeps it, whatever the
                        translator recognises.
     dynamic = static   wherever the static chain classifies : cross-check of the translator on every run.

   Both are evaluated by vm_compute in case files (work/C09/Cases_C09dynM_*.v, Cases_C09dynS_*.v) and counted with
   the correspondence cases.  This is evidence by directed probes (one probe series per property), not a proof;
   the order of the blocks is not observable and not compared.  Definitions only. *)
From AP.Model Require Import Prelude Vocab Pred IriEq Nlv Layout Equal EqualsTab.

(* answers of K.Equals(o', w') where o', w' are the base receiver / argument with property F set as said;
   None = the probe does not apply to the Go type of F, or the call panicked *)
Record dynobs := mkobs {
  d_same : option bool;       (* o.F = v1, w.F = v1 *)
  d_differ : option bool;     (* o.F = v1, w.F = v2 *)
  d_w_unset : option bool;    (* o.F = v1, w.F zero *)
  d_o_unset : option bool;    (* o.F zero, w.F = v1 *)
  d_w_empty : option bool;    (* lists and language values: o.F = v1, w.F empty but not nil *)
  d_scheme : option bool;     (* strings: o.F = an http IRI, w.F = the same with https *)
  d_neg : option bool;        (* durations: o.F = v1, w.F = -v1 *)
  d_same_id : option bool     (* items: two embedded objects with one id and different names *)
}.

(* behaviour classes of a comparison block, as far as probes can tell them apart *)
Inductive dclass :=
| DNlvLen      (* language values, skipped when w's are empty *)
| DNlvSet      (* language values, skipped only when w's are nil *)
| DItem        (* items through ItemsEqual, skipped when w's is nil *)
| DLinks       (* items by their links only (url before the fix; no block of the model has this class any more) *)
| DList        (* item lists, skipped only when w's is nil *)
| DTime | DDur | DUint
| DStr         (* strings, byte for byte *)
| DIri.        (* strings as IRIs, scheme ignored *)
Scheme Equality for dclass.

Definition is_t (o : option bool) : bool := match o with Some true => true | _ => false end.
Definition is_f (o : option bool) : bool := match o with Some false => true | _ => false end.

(* Some None = the property is not compared; Some (Some c) = compared with behaviour c;
   None = the answers fit no reading (the check reports the case) *)
Definition dyn_class (ty : gotype) (o : dynobs) : option (option dclass) :=
  if negb (is_t (d_same o)) then None
  else if is_t (d_differ o) then
    (* different values, equal answer: not compared - then unsetting either side must not matter either *)
    if is_t (d_w_unset o) && is_t (d_o_unset o) then Some None else None
  else if negb (is_f (d_differ o)) then None
  else if negb (is_t (d_w_unset o) && is_f (d_o_unset o)) then None     (* with-driven: w unset skips, o unset fails *)
  else
    match ty with
    | TNlv => match d_w_empty o with Some true => Some (Some DNlvLen) | Some false => Some (Some DNlvSet) | None => None end
    | TItem => match d_same_id o with Some true => Some (Some DLinks) | Some false => Some (Some DItem) | None => None end
    | TItems => match d_w_empty o with Some false => Some (Some DList) | _ => None end
    | TTime => Some (Some DTime)
    | TDur => match d_neg o with Some false => Some (Some DDur) | _ => None end
    | TUint => Some (Some DUint)
    | TString => match d_scheme o with Some true => Some (Some DIri) | Some false => Some (Some DStr) | None => None end
    | _ => None
    end.

(* the class of a block of the model and the property it is about, on a struct type that has property f *)
Definition class_of (c : cmp) : dclass :=
  match c with
  | CNlv _ => DNlvLen | CNlvSet _ => DNlvSet | CItem _ => DItem | CItems _ => DList
  | CCollItems => DList | COrdItems => DList | CUrl => DItem   (* the probes do not tell its IsNil guard from != nil *)
  | CTime _ => DTime | CDur _ => DDur | CUint _ => DUint | CStr _ => DStr | CIri _ => DIri
  end.
(* Items and OrderedItems share one offset: a block about the one is a block about the other (Model/Equal.v
   view_items) *)
Definition is_list_field (f : fid) : bool := match f with F_Items | F_OrderedItems => true | _ => false end.
Definition touches (c : cmp) (f : fid) : bool :=
  match c with
  | CNlv g | CNlvSet g | CItem g | CItems g | CTime g | CDur g | CUint g | CStr g | CIri g => fid_beq f g
  | CUrl => fid_beq f F_URL
  | CCollItems | COrdItems => is_list_field f
  end.

(* the blocks of a method and of the base methods it delegates to *)
Fixpoint chain_cmps (lookup : kind -> option eshape) (n : nat) (k : kind) : option (list cmp) :=
  match n with
  | O => None
  | S m =>
      match lookup k with
      | None => None
      | Some sh =>
          (fix go (ss : list cstep) : option (list cmp) :=
             match ss with
             | [] => Some []
             | CCmp c :: r => option_map (cons c) (go r)
             | (CDelegAssign b | CDelegLower b) :: r =>
                 match chain_cmps lookup m b, go r with
                 | Some a, Some rest => Some (a ++ rest)
                 | _, _ => None
                 end
             | (CIdStrict | CTypeFold) :: r => go r
             end) (sh_steps sh)
      end
  end.

(* all blocks about f agree on one class (Some (Some c)), there is none (Some None), or they disagree (None) *)
Definition class_in (cs : list cmp) (f : fid) : option (option dclass) :=
  match map class_of (filter (fun c => touches c f) cs) with
  | [] => Some None
  | c :: r => if forallb (dclass_beq c) r then Some (Some c) else None
  end.

Definition model_class (k : kind) (f : fid) : option (option dclass) :=
  match chain_cmps model_shape deleg_fuel k with
  | Some cs => class_in cs f
  | None => None
  end.
(* None = the static chain of k has a statement the translator or the classification does not read: nothing to
   cross-check, the dynamic entry stands in *)
Definition static_class (tbl : list eqfn) (k : kind) (f : fid) : option (option (option dclass)) :=
  match chain_cmps (table_shape tbl) deleg_fuel k with
  | Some cs => Some (class_in cs f)
  | None => None
  end.

Definition oclass_beq (a b : option (option dclass)) : bool :=
  match a, b with
  | Some (Some x), Some (Some y) => dclass_beq x y
  | Some None, Some None => true
  | _, _ => false                (* an unreadable side never agrees *)
  end.

(* one probe series: struct type, property, Go type class of the property, the answers *)
Definition dyncase := (kind * fid * gotype * dynobs)%type.

(* the fallback obligation, case by case: what the real method does with f is what the model does with f *)
Definition dyn_model_ok (c : dyncase) : bool :=
  let '(k, f, ty, o) := c in oclass_beq (dyn_class ty o) (model_class k f).

(* the translator cross-check, case by case *)
Definition dyn_static_ok (tbl : list eqfn) (c : dyncase) : bool :=
  let '(k, f, ty, o) := c in
  match static_class tbl k f with
  | Some s => oclass_beq (dyn_class ty o) s
  | None => true
  end.
(* how many probe series stand in for an unreadable static chain (reported, not judged) *)
Definition dyn_fills (tbl : list eqfn) (c : dyncase) : bool :=
  let '(k, f, _, _) := c in match static_class tbl k f with None => true | Some _ => false end.
