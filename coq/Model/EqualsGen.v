(* The Equals tables as regenerated from the source on this run. *)
From AP.Model Require Import Prelude Vocab Equal EqualsTab.
Require AP.Gen.EqualsT.

Definition gen_equals_table : list eqfn := AP.Gen.EqualsT.equals_methods.
Definition gen_equals_others : list bytes := AP.Gen.EqualsT.equals_other_receivers.

(* x.Equals(w) as the source says now *)
Definition equals_method_gen (rec : item -> item -> outcome bool) := equals_method_t gen_equals_table rec.

(* ---- what a source change does to the table (used by the examples of Props/C09.v) ---- *)
(* the comparison block of property f deleted from Object.Equals *)
Definition drop_block (f : fid) (fn : eqfn) : eqfn :=
  match ef_kind fn with
  | KObject =>
      mkeqfn (ef_kind fn) (ef_ptr fn)
        (map (fun s => match s with
                       | TView v ss =>
                           TView v (filter (fun e => match e with
                                                     | ECmp r => negb (fid_beq (rw_gfield r) f)
                                                     | _ => true
                                                     end) ss)
                       | s => s
                       end) (ef_body fn))
  | _ => fn
  end.
Definition table_without (f : fid) : list eqfn := map (drop_block f) gen_equals_table.

(* two notes that differ in their icon only *)
Definition tg_note (icon : bytes) : list (fid * fval) :=
  [(F_ID, FStr (B "https://example.com/notes/1")); (F_Type, FStr (B "Note"));
   (F_Icon, FItem (IIri false icon))].
Definition tg_icon_a : bytes := B "https://example.com/icons/a.png".
Definition tg_icon_b : bytes := B "https://example.com/icons/b.png".
