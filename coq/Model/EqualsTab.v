(* The per-type Equals methods as TABLES: vocabulary of coq/Gen/EqualsT.v (regenerated from the source on
   every run by translator/equalst.go), an interpreter that gives a table its meaning, and the decidable table
   condition that ties the hand-written model of Model/Equal.v to the generated table.  Definitions only.

   The translator is structural: for every `if <guard on w.F> { if !<comparison> { result = false; return nil } }`
   block it emits WHICH guard shape, WHICH comparison shape, the three field names that occur (guard, receiver
   side, with side) and the Go type class of the field; it does not decide what the block means.
   [cmp_of_raw] does that here, in the vocabulary of the model ([cmp] of Model/Equal.v); a combination the model
   does not know classifies to None and fails the condition.

   [model_shape] describes, per struct type, the statement sequence the functions of Model/Equal.v were written
   after; it uses the very constants ([object_cmps] ...) the model runs on.  Proofs/EqualsTabP.v proves
        interp_with model_shape = equals_method cfg_fixed              (for all receivers and arguments)
   so the description is not a third copy: it IS the model, and [equals_table_ok gen_table = true] (vm_compute on
   every run) says the generated table is that description. *)
From AP.Model Require Import Prelude Vocab Pred IriEq Nlv Layout Equal TabEq.
From AP.Gen Require Import TypeLists.

(* ------------------------------------------------------------------ table vocabulary (what the translator emits) *)
Inductive wguard :=
| WLenGt0        (* len(w.F) > 0 *)
| WNeNil         (* w.F != nil *)
| WNotIsNil      (* !IsNil(w.F) *)
| WNotIsZero     (* !w.F.IsZero() *)
| WNe0           (* w.F != 0 *)
| WGt0.          (* w.F > 0 *)

Inductive wcomp :=
| KWEqualsO          (* !w.F.Equals(o.G) *)
| KOEqualsW          (* !o.G.Equals(w.F) *)
| KOEqualsWNoScheme  (* !o.G.Equals(w.F, false) *)
| KItemsEqual        (* !ItemsEqual(o.G, w.F) *)
| KWTimeEqualO       (* !w.F.Equal(o.G) *)
| KNe                (* w.F != o.G *)
| KUrlLinks.         (* if IsNil(o.G) { result = false; return nil }
                        if !w.F.GetLink().Equals(o.G.GetLink(), false) { result = false; return nil }
                        (Object.Equals on url before the fix; still recognised by the translator, rejected by
                        cmp_of_raw) *)

Record rawcmp := mkraw {
  rw_guard : wguard; rw_gfield : fid;       (* the guard and the field of w it tests *)
  rw_comp : wcomp; rw_ofield : fid; rw_wfield : fid;   (* the comparison, receiver-side and with-side field *)
  rw_type : gotype }.                       (* Go type class of the guard field (go/types) *)

(* `if <G> { return false }` before `result := true` *)
Inductive eguard :=
| GNil             (* IsNil(with) *)
| GItemColl        (* IsItemCollection(with) *)
| GNotCollection   (* !with.IsCollection() *)
| GNilOrNotLink    (* IsNil(with) || !IsLink(with) *)
| GIdStrict        (* withID := with.GetID(); !o.ID.Equals(withID, true) *)
| GTypeFold        (* withType := with.GetType(); !strings.EqualFold(string(o.Type), string(withType)) *)
| GLinkHref.       (* with.IsLink() && !with.GetLink().Equals(o.GetLink(), false) *)

(* statements of the closure handed to On<View>(with, func(w *View) error { ... }) *)
Inductive estep :=
| EDelegAssign (b : kind)   (* _ = On<b>(o, func(x *b) error { result = x.Equals(w); return nil }) *)
| EDelegLower (b : kind)    (* [_ =] On<b>(o, func(x *b) error { if !x.Equals(w) { result = false; return nil }; return nil }) *)
| EIdStrict                 (* if !o.ID.Equals(w.ID, true) { result = false; return nil } *)
| ETypeFold                 (* if !strings.EqualFold(string(o.Type), string(w.Type)) { result = false; return nil } *)
| ECmp (r : rawcmp)         (* one guarded comparison block *)
| EReturnNil                (* return nil *)
| EUnrecognised (src pos : bytes).

(* statements of the method body *)
Inductive tstmt :=
| TGuard (g : eguard)
| TResultTrue                              (* result := true *)
| TView (v : kind) (steps : list estep)    (* err := On<v>(with, func(w *v) error { steps }) *)
| TErrFalse                                (* if err != nil { result = false } *)
| TReturnResult                            (* return result *)
| TUnrecognised (src pos : bytes).

Record eqfn := mkeqfn { ef_kind : kind; ef_ptr : bool; ef_body : list tstmt }.

(* ------------------------------------------------------------------ classification into the model's vocabulary *)
Definition cmp_of_raw (self : kind) (r : rawcmp) : option cmp :=
  let f := rw_gfield r in
  if negb (fid_beq f (rw_ofield r) && fid_beq f (rw_wfield r)) then None   (* one property on both sides *)
  else
    match rw_type r, rw_guard r, rw_comp r with
    | TNlv, WLenGt0, KWEqualsO => Some (CNlv f)
    | TNlv, WNeNil, KOEqualsW => Some (CNlvSet f)
    | TItem, WNeNil, KItemsEqual => Some (CItem f)
    | TItems, WNeNil, KItemsEqual =>
        match f with
        | F_Items => match self with KCollection => Some CCollItems | _ => None end
        | F_OrderedItems => None
        | _ => Some (CItems f)
        end
    | TItems, WNeNil, KOEqualsW => match f with F_OrderedItems => Some COrdItems | _ => None end
    (* url: ItemsEqual like its siblings, under the IsNil guard.  The shape of the code before the fix
       (WNotIsNil, KUrlLinks: compared by GetLink() only) has no reading in the model any more: a source that goes
       back to it fails the condition *)
    | TItem, WNotIsNil, KItemsEqual => match f with F_URL => Some CUrl | _ => None end
    | TTime, WNotIsZero, KWTimeEqualO => Some (CTime f)
    | TDur, WNe0, KNe => Some (CDur f)
    | TUint, WGt0, KNe => Some (CUint f)
    | TString, WLenGt0, KNe => Some (CStr f)
    | TString, WLenGt0, KOEqualsWNoScheme => Some (CIri f)
    | _, _, _ => None
    end.

Inductive cstep :=
| CDelegAssign (b : kind) | CDelegLower (b : kind) | CIdStrict | CTypeFold | CCmp (c : cmp).

(* a method body of the one shape all nine have:
     guards; result := true; err := On<view>(with, closure); if err != nil { result = false }; return result *)
Record eshape := mkshape { sh_guards : list eguard; sh_view : kind; sh_steps : list cstep }.

Fixpoint classify_steps (self : kind) (ss : list estep) : option (list cstep) :=
  match ss with
  | [EReturnNil] => Some []
  | EDelegAssign b :: r => option_map (cons (CDelegAssign b)) (classify_steps self r)
  | EDelegLower b :: r => option_map (cons (CDelegLower b)) (classify_steps self r)
  | EIdStrict :: r => option_map (cons CIdStrict) (classify_steps self r)
  | ETypeFold :: r => option_map (cons CTypeFold) (classify_steps self r)
  | ECmp raw :: r =>
      match cmp_of_raw self raw, classify_steps self r with
      | Some c, Some l => Some (CCmp c :: l)
      | _, _ => None
      end
  | _ => None        (* no final return nil, statements after it, an unrecognised statement *)
  end.

Fixpoint split_guards (b : list tstmt) : list eguard * list tstmt :=
  match b with
  | TGuard g :: r => let '(gs, rest) := split_guards r in (g :: gs, rest)
  | _ => ([], b)
  end.

Definition shape_of (fn : eqfn) : option eshape :=
  if ef_ptr fn then None                       (* all Equals methods have value receivers *)
  else match split_guards (ef_body fn) with
       | (gs, [TResultTrue; TView v steps; TErrFalse; TReturnResult]) =>
           option_map (mkshape gs v) (classify_steps (ef_kind fn) steps)
       | _ => None
       end.

Definition find_eqfn (tbl : list eqfn) (k : kind) : option eqfn :=
  find (fun fn => kind_beq (ef_kind fn) k) tbl.
Definition table_shape (tbl : list eqfn) (k : kind) : option eshape :=
  match find_eqfn tbl k with Some fn => shape_of fn | None => None end.

(* ------------------------------------------------------------------ the interpreter *)
(* with.IsLink(), the METHOD, on a non-nil item *)
Definition with_is_link_m (w : item) : bool :=
  match w with
  | IIri _ _ => true
  | IObj _ KLink fs => let t := get_str F_Type fs in bytes_eqb t (B "Link") || tl_contains tl_LinkTypes t
  | _ => false
  end.

(* generic in the IRI comparison [ideq a b cs] = a.Equals(b, cs), like module EqG of Model/Equal.v (builder b47); the
   names without prefix after the module are the instance with ideq, as abbreviations *)
Module EtG.
Section Interp.
  Variable ideq : bytes -> bytes -> bool -> bool.
  Variable rec : item -> item -> outcome bool.        (* ItemsEqual, one level down *)
  Variable lookup : kind -> option eshape.

  (* does `if <G> { return false }` fire; method calls on a nil interface / through a nil pointer panic *)
  Definition guard_fires (g : eguard) (ofs : fields) (w : item) : outcome bool :=
    match g with
    | GNil => Ok (is_nil w)
    | GItemColl => Ok (is_item_collection w)
    | GNotCollection =>
        match w with
        | INil => Panic NilDeref
        | ITNil _ => Panic ValueMethodOnNilPtr
        | _ => Ok (negb (is_collection_m w))
        end
    | GNilOrNotLink => Ok (is_nil w || negb (is_link w))
    | GIdStrict => obind (get_link w) (fun i => Ok (negb (ideq (get_str F_ID ofs) i true)))
    | GTypeFold => obind (get_type w) (fun t => Ok (negb (fold_eqb (get_str F_Type ofs) t)))
    | GLinkHref =>
        obind (get_link w) (fun i => Ok (with_is_link_m w && negb (ideq i (get_str F_ID ofs) false)))
    end.

  Fixpoint run_guards (gs : list eguard) (ofs : fields) (w : item) (k : outcome bool) : outcome bool :=
    match gs with
    | [] => k
    | g :: r => obind (guard_fires g ofs w) (fun b => if b then Ok false else run_guards r ofs w k)
    end.

  (* the closure; [res] is the variable `result`; [call b] is <b>.Equals.  On<b>(o, fn) runs fn when the receiver
     converts to b (always, for the receivers that occur) and its error is dropped. *)
  Fixpoint run_csteps (call : kind -> fields -> item -> outcome bool) (self view : kind)
           (ss : list cstep) (ofs wfs : fields) (res : bool) : outcome bool :=
    match ss with
    | [] => Ok res
    | CDelegAssign b :: r =>
        if cast_ok b self
        then obind (call b ofs (IObj true view wfs)) (fun x => run_csteps call self view r ofs wfs x)
        else run_csteps call self view r ofs wfs res
    | CDelegLower b :: r =>
        if cast_ok b self
        then obind (call b ofs (IObj true view wfs)) (fun x => run_csteps call self view r ofs wfs (res && x))
        else run_csteps call self view r ofs wfs res
    | CIdStrict :: r =>
        if ideq (get_str F_ID ofs) (get_str F_ID wfs) true then run_csteps call self view r ofs wfs res
        else Ok false
    | CTypeFold :: r =>
        if fold_eqb (get_str F_Type ofs) (get_str F_Type wfs) then run_csteps call self view r ofs wfs res
        else Ok false
    | CCmp c :: r =>
        obind (EqG.cmp_one ideq cfg_fixed rec c ofs wfs)
              (fun b => if b then run_csteps call self view r ofs wfs res else Ok false)
    end.

  (* <k>.Equals(w) on a receiver with fields ofs; fuel bounds the delegation chain (at most 4 long) *)
  Fixpoint interp_with (n : nat) (k : kind) (ofs : fields) (w : item) : outcome bool :=
    match n with
    | O => OutOfFuel
    | S m =>
        match lookup k with
        | None => Err
        | Some sh =>
            run_guards (sh_guards sh) ofs w
              (match as_kind (sh_view sh) w with
               | None => Ok false                                    (* err != nil -> result = false *)
               | Some wfs => run_csteps (interp_with m) k (sh_view sh) (sh_steps sh) ofs wfs true
               end)
        end
    end.

  Definition deleg_fuel : nat := 5.
  Definition interp_method (k : kind) (ofs : fields) (w : item) : option (outcome bool) :=
    match lookup k with
    | None => None
    | Some _ => Some (interp_with deleg_fuel k ofs w)
    end.
End Interp.

(* x.Equals(w) as the generated table says *)
Definition equals_method_t ideq (tbl : list eqfn) (rec : item -> item -> outcome bool) :=
  interp_method ideq rec (table_shape tbl).
End EtG.
Notation guard_fires := (EtG.guard_fires iri_eqb).
Notation run_guards := (EtG.run_guards iri_eqb).
Notation run_csteps := (EtG.run_csteps iri_eqb).
Notation interp_with := (EtG.interp_with iri_eqb).
Notation deleg_fuel := EtG.deleg_fuel.
Notation interp_method := (EtG.interp_method iri_eqb).
Notation equals_method_t := (EtG.equals_method_t iri_eqb).

(* ------------------------------------------------------------------ the model's side of the condition *)
Definition model_shape (k : kind) : option eshape :=
  match k with
  | KObject => Some (mkshape [GNil; GItemColl; GIdStrict; GTypeFold; GLinkHref] KObject (map CCmp object_cmps))
  | KIntransitive => Some (mkshape [GNil] KIntransitive (CDelegAssign KObject :: map CCmp intransitive_cmps))
  | KActivity => Some (mkshape [GNil] KActivity (CDelegAssign KIntransitive :: map CCmp activity_cmps))
  | KActor => Some (mkshape [GNil] KActor (CDelegAssign KObject :: map CCmp actor_cmps))
  | KCollection =>
      Some (mkshape [GNil; GNotCollection] KCollection (CDelegLower KObject :: map CCmp collection_cmps))
  | KCollectionPage =>
      Some (mkshape [GNil; GNotCollection] KCollectionPage (CDelegLower KCollection :: map CCmp page_cmps))
  | KOrdered =>
      Some (mkshape [GNil; GNotCollection] KOrdered (CDelegLower KCollection :: map CCmp ordered_cmps))
  | KOrderedPage =>
      Some (mkshape [GNil; GNotCollection] KOrderedPage (CDelegLower KOrdered :: map CCmp page_cmps))
  | KLink => Some (mkshape [GNilOrNotLink] KLink (CIdStrict :: CTypeFold :: map CCmp link_cmps))
  | _ => None
  end.

(* ------------------------------------------------------------------ decidable equality of shapes *)
Scheme Equality for eguard.
Scheme Equality for cmp.
Scheme Equality for cstep.

Definition eshape_beq (a b : eshape) : bool :=
  lbeq eguard_beq (sh_guards a) (sh_guards b) && kind_beq (sh_view a) (sh_view b)
  && lbeq cstep_beq (sh_steps a) (sh_steps b).
Definition oshape_beq (a b : option eshape) : bool :=
  match a, b with
  | Some x, Some y => eshape_beq x y
  | None, None => true
  | _, _ => false
  end.

(* the table condition: for every struct type the generated method has the shape the model was written after
   (no method where the model has none), no struct type has two entries, and the only other receiver with an
   Equals(Item) method is ItemCollection (modelled by itemcoll_equals) *)
Definition kinds_of (tbl : list eqfn) : list kind := map ef_kind tbl.

Definition equals_shapes_ok (tbl : list eqfn) : bool :=
  forallb (fun k => oshape_beq (table_shape tbl k) (model_shape k)) all_kinds.
Definition equals_table_ok (tbl : list eqfn) (others : list bytes) : bool :=
  equals_shapes_ok tbl && nodup_kinds (kinds_of tbl) && lbeq bytes_eqb others [B "ItemCollection"].

(* the first struct type on which the table and the model differ (printed by the check when the condition fails) *)
Definition first_bad_equals (tbl : list eqfn) : option kind :=
  find (fun k => negb (oshape_beq (table_shape tbl k) (model_shape k))) all_kinds.

(* within that method: position and content of the first step that differs (None, None = lengths / frame differ) *)
Fixpoint first_diff_step (n : nat) (a b : list cstep) : option (nat * option cstep * option cstep) :=
  match a, b with
  | [], [] => None
  | x :: a', y :: b' => if cstep_beq x y then first_diff_step (S n) a' b' else Some (n, Some x, Some y)
  | x :: _, [] => Some (n, Some x, None)
  | [], y :: _ => Some (n, None, Some y)
  end.
(* why a method has no shape, or which entry does not classify: the first closure statement that is unrecognised
   (its source position) or whose guard / comparison / field / type combination the model does not know, and the
   position of the first unrecognised statement of the method body *)
Inductive ediag :=
| DUnrecognisedAt (pos : bytes)
| DUnclassified (r : rawcmp).
Definition diag_estep (self : kind) (e : estep) : option ediag :=
  match e with
  | EUnrecognised _ pos => Some (DUnrecognisedAt pos)
  | ECmp r => match cmp_of_raw self r with None => Some (DUnclassified r) | Some _ => None end
  | _ => None
  end.
Fixpoint first_some {A B} (f : A -> option B) (l : list A) : option B :=
  match l with
  | [] => None
  | x :: r => match f x with Some y => Some y | None => first_some f r end
  end.
Definition diag_tstmt (self : kind) (s : tstmt) : option ediag :=
  match s with
  | TUnrecognised _ pos => Some (DUnrecognisedAt pos)
  | TView _ steps => first_some (diag_estep self) steps
  | _ => None
  end.
Definition diag_fn (tbl : list eqfn) (k : kind) : option ediag :=
  match find_eqfn tbl k with
  | Some fn => first_some (diag_tstmt k) (ef_body fn)
  | None => None
  end.

Definition first_bad_step (tbl : list eqfn)
  : option (kind * option (nat * option cstep * option cstep) * option ediag) :=
  match first_bad_equals tbl with
  | None => None
  | Some k =>
      Some (k, match table_shape tbl k, model_shape k with
               | Some g, Some m => first_diff_step 0 (sh_steps g) (sh_steps m)
               | _, _ => None
               end, diag_fn tbl k)
  end.
