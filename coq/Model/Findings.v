(* Class predicates of the OPEN known findings (known-findings.txt), defined by failing mechanism.
   Each is mirrored by a classifier in the harness; theorems carve out exactly these classes. *)
From AP.Model Require Import Prelude Vocab Layout.

(* C08/widening-page: ToOrderedCollectionPage reinterprets a CollectionPage (744 bytes) as the larger
   OrderedCollectionPage (752 bytes: StartIndex lies outside the value).  Refusing the conversion
   collides with the pinned test TestToOrderedCollectionPage/CollectionPage. *)
Definition kf_widening_page (src dst : cast_kind) : bool :=
  match src, dst with
  | CK KCollectionPage, CK KOrderedPage => true
  | _, _ => false
  end.
