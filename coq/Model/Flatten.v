(* flatten.go (Flatten, FlattenItemCollection, Flatten*Properties, FlattenProperties), iri.go FlattenToIRI,
   item_collection.go Normalize.  Definitions only.  Lists go through the de-duplication of Model/Recip.v.
   The model follows the REPAIRED code; the three behaviours of the pinned tree that the repairs removed are kept
   as *_pinned definitions:
     - FlattenItemCollection wrote the k-th returned id to position k of the de-duplicated list;
     - the de-duplication treated all id-less objects as one addressee (entry_key_pinned of Recip.v);
     - Flatten returned GetLink() of every non-collection item (empty IRI for an item without id). *)
From AP.Model Require Import Prelude Vocab Pred IriEq Recip.
From AP.Gen Require Import TypeLists.

(* does the item have an id / is it an IRI: GetLink() as a total function on non-nil items *)
Definition link_of (i : item) : bytes := match get_link i with Ok s => s | _ => [] end.

(* it.IsObject() as a total function on non-nil items *)
Definition objectish (i : item) : bool := match meth_is_object i with Ok b => b | _ => false end.

(* FlattenToIRI: !IsNil(it) && it.IsObject() && len(it.GetLink()) > 0 *)
Definition flatten_to_iri (i : item) : item :=
  if negb (is_nil i) && objectish i && negb (match link_of i with [] => true | _ => false end)
  then IIri false (link_of i) else i.

(* ItemCollection.Normalize *)
Definition normalize (l : option (list item)) : item :=
  match l with
  | None | Some [] => INil
  | Some [x] => x
  | Some l => IItems false (Some l)
  end.

Section Flat.
  Variable eqv : bytes -> bytes -> bool.

  (* FlattenItemCollection (repaired): de-duplicate, then flatten every remaining entry in place *)
  Definition flatten_items (c : option (list item)) : outcome (option (list item)) :=
    match c with
    | None => Ok None
    | Some l =>
        obind (dedup eqv [Some l]) (fun '(_, cols) =>
          match cols with
          | [Some l'] => Ok (Some (map flatten_to_iri l'))
          | _ => Err
          end)
    end.

  (* pinned: `for k, it := range rec { if iri := it.GetLink(); iri != "" { col[k] = iri } }` over the pinned
     de-duplication *)
  Fixpoint write_ids (k : nat) (rec : list bytes) (col : list item) : list item :=
    match rec with
    | [] => col
    | r :: rest =>
        write_ids (S k) rest
          (match r with [] => col | _ => firstn k col ++ (match skipn k col with [] => [] | _ :: t => IIri false r :: t end) end)
    end.
  Definition flatten_items_pinned (c : option (list item)) : outcome (option (list item)) :=
    match c with
    | None => Ok None
    | Some l =>
        obind (dedup_from_pinned eqv [] [Some l]) (fun '(rec, cols) =>
          match cols with
          | [Some (l', _)] => Ok (Some (write_ids 0 rec l'))
          | _ => Err
          end)
    end.

  (* it.IsCollection() and what OnCollectionIntf hands to the callback (c.Collection()); the dispatch of
     OnCollectionIntf is by the TYPE STRING, so a collection struct is only opened when its Type names its own
     kind; other type strings leave the item as it is (the error is ignored); a collection struct whose Type
     names a different collection kind is not modelled *)
  Inductive coll_view := CVItems (l : option (list item)) | CVKeep | CVNone | CVUnmodelled.
  Definition coll_type_of (k : kind) : option bytes :=
    match k with
    | KCollection => Some (B "Collection") | KCollectionPage => Some (B "CollectionPage")
    | KOrdered => Some (B "OrderedCollection") | KOrderedPage => Some (B "OrderedCollectionPage")
    | _ => None
    end.
  Definition is_coll_type_name (t : bytes) : bool :=
    existsb (bytes_eqb t) [B "Collection"; B "CollectionPage"; B "OrderedCollection"; B "OrderedCollectionPage";
                           B "ItemCollection"; B "IRICollection"].
  Definition coll_view_of (i : item) : coll_view :=
    match i with
    | IItems _ l => CVItems l
    | IIris _ l => CVItems (match l with None => Some [] | Some s => Some (map (IIri false) s) end)
    | IObj true k fs =>
        match coll_type_of k with
        | None => CVNone
        | Some t =>
            if bytes_eqb (get_str F_Type fs) t
            then CVItems (match k with KCollection | KCollectionPage => get_items F_Items fs | _ => get_items F_OrderedItems fs end)
            else if is_coll_type_name (get_str F_Type fs) then CVUnmodelled else CVKeep
        end
    | IObj false k _ => match coll_type_of k with None => CVNone | Some _ => CVUnmodelled end
    | _ => CVNone
    end.

  (* Flatten *)
  Definition flatten (i : item) : outcome item :=
    if is_nil i then Ok INil
    else match coll_view_of i with
         | CVItems l => omap normalize (flatten_items l)
         | CVKeep => Ok i
         | CVNone => Ok (flatten_to_iri i)
         | CVUnmodelled => Err
         end.
  Definition flatten_pinned (i : item) : outcome item :=
    if is_nil i then Ok INil
    else match coll_view_of i with
         | CVItems l => omap normalize (flatten_items_pinned l)
         | CVKeep => Ok i
         | CVNone => Ok (IIri false (link_of i))
         | CVUnmodelled => Err
         end.

  Section Props.
    Variable fl : item -> outcome item.                                     (* Flatten *)
    Variable fli : option (list item) -> outcome (option (list item)).      (* FlattenItemCollection *)

    Definition upd_item (f : fid) (g : item -> outcome item) (fs : list (fid * fval)) : outcome (list (fid * fval)) :=
      obind (g (get_item f fs)) (fun v => Ok (setf f (FItem v) fs)).
    Definition upd_items (f : fid) (fs : list (fid * fval)) : outcome (list (fid * fval)) :=
      obind (fli (get_items f fs)) (fun v => Ok (setf f (FItems v) fs)).

    Definition to_iri (i : item) : outcome item := Ok (flatten_to_iri i).

    (* the assignment statements of the three functions, in source order:
         x.F = FlattenToIRI(x.F) | x.F = Flatten(x.F) | x.F = FlattenItemCollection(x.F) *)
    Inductive fstep := SIri (f : fid) | SFlat (f : fid) | SList (f : fid).
    Definition step_fid (s : fstep) : fid := match s with SIri f | SFlat f | SList f => f end.
    Definition run_step (s : fstep) (fs : list (fid * fval)) : outcome (list (fid * fval)) :=
      match s with
      | SIri f => upd_item f to_iri fs
      | SFlat f => upd_item f fl fs
      | SList f => upd_items f fs
      end.
    Fixpoint run_steps (ss : list fstep) (fs : list (fid * fval)) : outcome (list (fid * fval)) :=
      match ss with
      | [] => Ok fs
      | s :: r => obind (run_step s fs) (run_steps r)
      end.

    (* FlattenObjectProperties *)
    Definition object_steps : list fstep :=
      [SFlat F_Replies; SFlat F_Shares; SFlat F_Likes; SFlat F_AttributedTo;
       SList F_To; SList F_Bto; SList F_CC; SList F_BCC; SList F_Audience].
    (* FlattenIntransitiveActivityProperties (Result is assigned twice in the source), then OnObject *)
    Definition intransitive_steps : list fstep :=
      [SIri F_Actor; SIri F_Target; SIri F_Result; SIri F_Origin; SIri F_Result; SIri F_Instrument] ++ object_steps.
    (* FlattenActivityProperties: OnIntransitiveActivity, then Object *)
    Definition activity_steps : list fstep := intransitive_steps ++ [SIri F_Object].

    Definition flatten_object_props := run_steps object_steps.
    Definition flatten_intransitive_props := run_steps intransitive_steps.
    Definition flatten_activity_props := run_steps activity_steps.
  End Props.

  (* the four exported entry points on their own struct types (pointer form), and FlattenProperties on a pointer
     whose struct type matches the class of its Type string *)
  Inductive fkind := FKObject | FKActor | FKIntransitive | FKActivity.
  Definition flatten_fields (k : fkind) (fs : list (fid * fval)) : outcome (list (fid * fval)) :=
    match k with
    | FKObject | FKActor => flatten_object_props flatten flatten_items fs
    | FKIntransitive => flatten_intransitive_props flatten flatten_items fs
    | FKActivity => flatten_activity_props flatten flatten_items fs
    end.
  Definition flatten_fields_pinned (k : fkind) (fs : list (fid * fval)) : outcome (list (fid * fval)) :=
    match k with
    | FKObject | FKActor => flatten_object_props flatten_pinned flatten_items_pinned fs
    | FKIntransitive => flatten_intransitive_props flatten_pinned flatten_items_pinned fs
    | FKActivity => flatten_activity_props flatten_pinned flatten_items_pinned fs
    end.

  (* FlattenProperties(it) for a pointer to a struct; the dispatch is on the Type string.  Combinations whose
     conversion goes through reflectItemToType (struct type outside the class its Type names) and value forms
     are not modelled (Err). *)
  Definition flatten_properties (x : item) : outcome item :=
    if is_nil x then Ok INil
    else match x with
    | IObj true k fs =>
        let t := get_str F_Type fs in
        let wrap o := omap (fun fs' => IObj true k fs') o in
        match k with
        | KLink => Err
        | _ =>
          if tl_contains tl_IntransitiveActivityTypes t then
            match k with
            | KIntransitive | KQuestion | KActivity => wrap (flatten_fields FKIntransitive fs)
            | _ => Err
            end
          else if tl_contains tl_ActivityTypes t then
            match k with KActivity => wrap (flatten_fields FKActivity fs) | _ => Err end
          else if tl_contains tl_ActorTypes t then
            match k with KActor => wrap (flatten_fields FKActor fs) | _ => Err end
          else if tl_contains tl_ObjectTypes t then wrap (flatten_fields FKObject fs)
          else Ok x
        end
    | _ => Err
    end.
End Flat.

(* the flattened positions, read off the step tables *)
Definition steps_of (k : fkind) : list fstep :=
  match k with
  | FKObject | FKActor => object_steps
  | FKIntransitive => intransitive_steps
  | FKActivity => activity_steps
  end.
Definition flattened_in (k : fkind) (f : fid) : bool := existsb (fun s => fid_beq f (step_fid s)) (steps_of k).
(* the property's list: actor object target result origin instrument attributedTo replies likes shares + to bto cc bcc audience *)
Definition property_positions : list fid :=
  [F_Actor; F_Object; F_Target; F_Result; F_Origin; F_Instrument; F_AttributedTo; F_Replies; F_Likes; F_Shares;
   F_To; F_Bto; F_CC; F_BCC; F_Audience].

(* ---- specification ---- *)
Section FlatSpec.
  Variable eqv : bytes -> bytes -> bool.
  (* an embedded object with an id becomes an IRI equal to that id; everything else stays *)
  Definition flat_item := flatten_to_iri.
  (* lists: first mentions (addressing lists are sets, Appendix A), each flattened in place *)
  Definition flat_list_spec (c : option (list item)) : option (list item) :=
    match c with None => None | Some l => Some (map flat_item (keep_first eqv [] l)) end.
End FlatSpec.

(* instances *)
Definition flatten_items_m := flatten_items ideq.
Definition flatten_m := flatten ideq.
Definition flatten_fields_m := flatten_fields ideq.
Definition flatten_properties_m := flatten_properties ideq.
Definition flatten_items_pinned_m := flatten_items_pinned ideq.
Definition flatten_pinned_m := flatten_pinned ideq.
Definition flatten_fields_pinned_m := flatten_fields_pinned ideq.
