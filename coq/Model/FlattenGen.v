(* The flatten.go tables as regenerated from the source on this run. *)
From AP.Model Require Import Prelude Vocab Recip Flatten FlattenTab.
Require AP.Gen.FlattenT.

Definition gen_flatten_table : list flfn := AP.Gen.FlattenT.flatten_functions.
Definition gen_flatten_dispatch : list fdstmt := AP.Gen.FlattenT.flatten_dispatch.

(* Flatten<X>Properties as the source says now *)
Definition flatten_fields_gen := flatten_fields_t gen_flatten_table.

(* ---- what a source change does to the table (used by the examples of Props/C16.v) ---- *)
(* the assignment to property f deleted from FlattenObjectProperties *)
Definition drop_assign (f : fid) (fn : flfn) : flfn :=
  if bytes_eqb (fl_name fn) (B "FlattenObjectProperties")
  then mkflfn (fl_name fn) (fl_param fn)
              (filter (fun s => match s with FLAssign l _ _ _ => negb (fid_beq l f) | _ => true end) (fl_body fn))
  else fn.
Definition flatten_table_without (f : fid) : list flfn := map (drop_assign f) gen_flatten_table.
