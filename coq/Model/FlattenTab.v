(* flatten.go as TABLES: vocabulary of coq/Gen/FlattenT.v (regenerated from the source on every run by
   translator/flattent.go), the expansion of a table into the step lists Model/Flatten.v runs on, and the
   decidable table condition.  Definitions only.

   Proofs/FlattenTabP.v proves, for every table satisfying [flatten_table_ok] and every id comparison,
        flatten_fields_t tbl eqv k fs = flatten_fields eqv k fs        (for all k, fs)
   and [flatten_table_ok gen_flatten_table gen_flatten_dispatch = true] is evaluated by vm_compute on every run. *)
From AP.Model Require Import Prelude Vocab Pred IriEq Layout Recip Flatten TabEq.
Require AP.Model.Equal.

(* ------------------------------------------------------------------ table vocabulary (what the translator emits) *)
Inductive flstmt :=
| FLNilGuard                                   (* if x == nil { return nil }   (or: return x) *)
| FLAssign (lhs : fid) (helper : bytes) (arg : fid) (ty : gotype)   (* x.L = Helper(x.A), Go type class of x.L *)
| FLDeleg (on : kind) (fn : bytes)             (* [_ =] On<on>(x, func(y *on) error { fn(y); return nil }) *)
| FLReturnRecv                                 (* return x *)
| FLUnrecognised (src pos : bytes).

(* a function `func Name(x *Param) *Param` of flatten.go *)
Record flfn := mkflfn { fl_name : bytes; fl_param : kind; fl_body : list flstmt }.

(* FlattenProperties: the `if <List>.Contains(typ) { On<on>(it, func(a *on) error { fn(a); return nil }) }`
   statements in source order; [chained] = this one is the else-branch of the previous one *)
Inductive fdstmt :=
| FDNilGuard                                   (* if IsNil(it) { return nil } *)
| FDTyp                                        (* typ := it.GetType() *)
| FDCase (chained : bool) (lst : bytes) (on : kind) (fn : bytes)
| FDReturnIt                                   (* return it *)
| FDUnrecognised (src pos : bytes).

(* ------------------------------------------------------------------ expansion into step lists *)
Definition step_of (lhs : fid) (helper : bytes) (arg : fid) (ty : gotype) : option fstep :=
  if negb (fid_beq lhs arg) then None            (* a property is replaced by its own flattening *)
  else if bytes_eqb helper (B "FlattenToIRI") then match ty with TItem => Some (SIri lhs) | _ => None end
  else if bytes_eqb helper (B "Flatten") then match ty with TItem => Some (SFlat lhs) | _ => None end
  else if bytes_eqb helper (B "FlattenItemCollection") then match ty with TItems => Some (SList lhs) | _ => None end
  else None.

Definition find_flfn (tbl : list flfn) (name : bytes) : option flfn :=
  find (fun fn => bytes_eqb (fl_name fn) name) tbl.

(* the steps between the nil guard and the final `return x`; a delegation On<on>(x, fn) contributes the steps of
   fn when fn takes *on and x converts to on (Model/Equal.v cast_ok: the To* type switches) *)
Section Body.
  Variable callee : bytes -> kind -> kind -> option (list fstep).     (* fn, on, type of x *)
  Fixpoint body_steps (self : kind) (ss : list flstmt) : option (list fstep) :=
    match ss with
    | [FLReturnRecv] => Some []
    | FLAssign l h a ty :: r =>
        match step_of l h a ty, body_steps self r with
        | Some s, Some rest => Some (s :: rest)
        | _, _ => None
        end
    | FLDeleg on fn :: r =>
        match callee fn on self, body_steps self r with
        | Some a, Some rest => Some (a ++ rest)
        | _, _ => None
        end
    | _ => None          (* no final return, statements after it, a second nil guard, an unrecognised statement *)
    end.
End Body.

(* fuel bounds the delegation chain (Activity -> IntransitiveActivity -> Object) *)
Fixpoint fn_steps (tbl : list flfn) (n : nat) (name : bytes) : option (list fstep) :=
  match n with
  | O => None
  | S m =>
      match find_flfn tbl name with
      | Some g =>
          match fl_body g with
          | FLNilGuard :: ss =>
              body_steps (fun fn on self =>
                            match find_flfn tbl fn with
                            | Some h => if kind_beq (fl_param h) on && AP.Model.Equal.cast_ok on self
                                        then fn_steps tbl m fn else None
                            | None => None
                            end) (fl_param g) ss
          | _ => None
          end
      | None => None
      end
  end.

Definition flatten_fuel : nat := 4.
Definition fn_name (k : fkind) : bytes :=
  match k with
  | FKObject => B "FlattenObjectProperties"
  | FKActor => B "FlattenActorProperties"
  | FKIntransitive => B "FlattenIntransitiveActivityProperties"
  | FKActivity => B "FlattenActivityProperties"
  end.
Definition fn_kind (k : fkind) : kind :=
  match k with FKObject => KObject | FKActor => KActor | FKIntransitive => KIntransitive | FKActivity => KActivity end.
Definition steps_t (tbl : list flfn) (k : fkind) : option (list fstep) := fn_steps tbl flatten_fuel (fn_name k).

(* ------------------------------------------------------------------ the interpreter *)
Definition flatten_fields_t (tbl : list flfn) (eqv : bytes -> bytes -> bool) (k : fkind) (fs : list (fid * fval))
  : outcome (list (fid * fval)) :=
  match steps_t tbl k with
  | Some ss => run_steps (flatten eqv) (flatten_items eqv) ss fs
  | None => Err
  end.

(* ------------------------------------------------------------------ the table condition *)
Scheme Equality for fstep.

Definition osteps_beq (a b : option (list fstep)) : bool :=
  match a, b with
  | Some x, Some y => lbeq fstep_beq x y
  | None, None => true
  | _, _ => false
  end.

Definition all_fkinds : list fkind := [FKObject; FKActor; FKIntransitive; FKActivity].

Definition param_ok (tbl : list flfn) (k : fkind) : bool :=
  match find_flfn tbl (fn_name k) with Some g => kind_beq (fl_param g) (fn_kind k) | None => false end.

(* the two collection functions of flatten.go have no counterpart in Model/Flatten.v (no property clause speaks of
   them); their one step is pinned here so that a change shows *)
Definition coll_fns_ok (tbl : list flfn) : bool :=
  osteps_beq (fn_steps tbl flatten_fuel (B "FlattenCollection")) (Some [SList F_Items])
  && osteps_beq (fn_steps tbl flatten_fuel (B "FlattenOrderedCollection")) (Some [SList F_OrderedItems]).

Definition flatten_fn_names : list bytes :=
  [B "FlattenActivityProperties"; B "FlattenActorProperties"; B "FlattenCollection";
   B "FlattenIntransitiveActivityProperties"; B "FlattenObjectProperties"; B "FlattenOrderedCollection"].

Definition flatten_steps_ok (tbl : list flfn) : bool :=
  forallb (fun k => osteps_beq (steps_t tbl k) (Some (steps_of k)) && param_ok tbl k) all_fkinds.

(* FlattenProperties as Model/Flatten.v flatten_properties reads it *)
Inductive cdstmt :=
| CDNilGuard | CDTyp | CDCase (chained : bool) (lst : bytes) (on : kind) (fn : bytes) | CDReturnIt.
Definition model_dispatch : list cdstmt :=
  [CDNilGuard; CDTyp;
   CDCase false (B "IntransitiveActivityTypes") KIntransitive (B "FlattenIntransitiveActivityProperties");
   CDCase true (B "ActivityTypes") KActivity (B "FlattenActivityProperties");
   CDCase false (B "ActorTypes") KActor (B "FlattenActorProperties");
   CDCase false (B "ObjectTypes") KObject (B "FlattenObjectProperties");
   CDReturnIt].
Definition cd_of (s : fdstmt) : option cdstmt :=
  match s with
  | FDNilGuard => Some CDNilGuard
  | FDTyp => Some CDTyp
  | FDCase c l o f => Some (CDCase c l o f)
  | FDReturnIt => Some CDReturnIt
  | FDUnrecognised _ _ => None
  end.
Definition cdstmt_beq (a b : cdstmt) : bool :=
  match a, b with
  | CDNilGuard, CDNilGuard | CDTyp, CDTyp | CDReturnIt, CDReturnIt => true
  | CDCase c l o f, CDCase c' l' o' f' => Bool.eqb c c' && bytes_eqb l l' && kind_beq o o' && bytes_eqb f f'
  | _, _ => false
  end.
Fixpoint dispatch_matches (d : list fdstmt) (m : list cdstmt) : bool :=
  match d, m with
  | [], [] => true
  | s :: d', c :: m' => match cd_of s with Some x => cdstmt_beq x c && dispatch_matches d' m' | None => false end
  | _, _ => false
  end.

(* the table condition: the four property flatteners expand to the step lists of Model/Flatten.v, in order, each
   on its own struct type; the function list of flatten.go is the known one; FlattenProperties dispatches as
   flatten_properties does *)
Definition flatten_table_ok (tbl : list flfn) (dispatch : list fdstmt) : bool :=
  flatten_steps_ok tbl && coll_fns_ok tbl && lbeq bytes_eqb (map fl_name tbl) flatten_fn_names
  && dispatch_matches dispatch model_dispatch.

Definition first_bad_flatten (tbl : list flfn) : option (fkind * option (list fstep) * list fstep) :=
  match find (fun k => negb (osteps_beq (steps_t tbl k) (Some (steps_of k)))) all_fkinds with
  | Some k => Some (k, steps_t tbl k, steps_of k)
  | None => None
  end.
