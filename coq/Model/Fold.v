(* strings.EqualFold (EXTERNAL, modelled not verified; compared with the real function by Cases_C14_fold and
   with unicode.SimpleFold over all runes by Cases_C14_foldtab): both strings are decoded into runes (an invalid
   byte is U+FFFD, so ANY two invalid bytes are equal) and compared rune by rune under Unicode simple case
   folding: two runes are equal when they lie in one orbit of unicode.SimpleFold.  The model compares the
   smallest rune of the orbit, [canon]: for ASCII that is the upper-case letter; for the other runes it is read
   from Model/FoldTab.v (generated from Go's unicode tables).  The orbits that join ASCII and non-ASCII runes are
   {K, k, U+212A KELVIN SIGN} and {S, s, U+017F LATIN SMALL LETTER LONG S}.
   iri.go compares with its own equalFold since the repair of C14/invalid-utf8-bytes-equal: [sfold_eqb] below;
   typer.go (sameCollectionName) still uses strings.EqualFold.  Definitions only. *)
From AP.Model Require Import Prelude Bytes Utf8 FoldTab.

Definition ascii_canon (r : N) : N := (if (97 <=? r) && (r <=? 122) then r - 32 else r)%N.

Fixpoint tab_lookup (r : N) (t : list (N * N)) : N :=
  match t with
  | [] => r
  | (k, v) :: t' => if (k =? r)%N then v else tab_lookup r t'
  end.

Definition canon_with (tab : list (N * N)) (r : N) : N :=
  if (r <? 128)%N then ascii_canon r else tab_lookup r tab.
Definition canon : N -> N := canon_with fold_tab.

(* the canonical form of a string under EqualFold *)
Definition ucanon_with (tab : list (N * N)) (s : bytes) : list N := map (canon_with tab) (runes s).
Definition ucanon : bytes -> list N := ucanon_with fold_tab.

Fixpoint nlist_eqb (a b : list N) : bool :=
  match a, b with
  | [], [] => true
  | x :: a', y :: b' => (x =? y)%N && nlist_eqb a' b'
  | _, _ => false
  end.

(* strings.EqualFold *)
Definition ufold_eqb (a b : bytes) : bool := nlist_eqb (ucanon a) (ucanon b).

(* ---------------------------------------------------------------- iri.go equalFold *)
(* The comparison IRI.Equals makes since the repair: rune by rune under simple folding like strings.EqualFold, but
   a byte that is not part of a well formed UTF-8 sequence is equal to the same byte only.  Model: the strict
   decoding of Model/Utf8.v (an invalid byte b is the number 0x110000 + b, above every rune) under the same [canon];
   the folding table holds runes only (fold_tab_ok), so those numbers are their own canonical form and the canonical
   form of nothing else. *)
Definition scanon_with (tab : list (N * N)) (s : bytes) : list N := map (canon_with tab) (srunes s).
Definition scanon : bytes -> list N := scanon_with fold_tab.
Definition sfold_eqb (a b : bytes) : bool := nlist_eqb (scanon a) (scanon b).

(* what the proofs need of the table (a decidable condition, evaluated on the generated table):
   every key is a non-ASCII rune, a value below 0x80 is "K" or "S", and keys and values are runes (< 0x110000) *)
Definition fold_tab_ok (tab : list (N * N)) : bool :=
  forallb (fun kv => (128 <=? fst kv)%N && ((128 <=? snd kv)%N || (snd kv =? 75)%N || (snd kv =? 83)%N)
                     && (fst kv <? rune_limit)%N && (snd kv <? rune_limit)%N) tab.
