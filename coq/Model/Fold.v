(* strings.EqualFold (EXTERNAL, modelled not verified; compared with the real function by Cases_C14_fold and
   with unicode.SimpleFold over all runes by Cases_C14_foldtab): both strings are decoded into runes (an invalid
   byte is U+FFFD, so ANY two invalid bytes are equal) and compared rune by rune under Unicode simple case
   folding: two runes are equal when they lie in one orbit of unicode.SimpleFold.  The model compares the
   smallest rune of the orbit, [canon]: for ASCII that is the upper-case letter; for the other runes it is read
   from Model/FoldTab.v (generated from Go's unicode tables).  The orbits that join ASCII and non-ASCII runes are
   {K, k, U+212A KELVIN SIGN} and {S, s, U+017F LATIN SMALL LETTER LONG S}.  Definitions only. *)
From AP.Model Require Import Prelude Bytes Utf8 FoldTab.

Definition ascii_canon (r : N) : N := (if (97 <=? r) && (r <=? 122) then r - 32 else r)%N.

Fixpoint tab_lookup (r : N) (t : list (N * N)) : N :=
  match t with
  | [] => r
  | (k, v) :: t' => if (k =? r)%N then v else tab_lookup r t'
  end.

Definition canon_with (tab : list (N * N)) (r : N) : N :=
  if (r <? 128)%N then ascii_canon r else tab_lookup r tab.
Definition canon : N -> N := canon_with fold_tab.

(* the canonical form of a string under EqualFold *)
Definition ucanon_with (tab : list (N * N)) (s : bytes) : list N := map (canon_with tab) (runes s).
Definition ucanon : bytes -> list N := ucanon_with fold_tab.

Fixpoint nlist_eqb (a b : list N) : bool :=
  match a, b with
  | [], [] => true
  | x :: a', y :: b' => (x =? y)%N && nlist_eqb a' b'
  | _, _ => false
  end.

(* strings.EqualFold *)
Definition ufold_eqb (a b : bytes) : bool := nlist_eqb (ucanon a) (ucanon b).

(* what the proofs need of the table (a decidable condition, evaluated on the generated table):
   every key is a non-ASCII rune, and a value below 0x80 is "K" or "S" *)
Definition fold_tab_ok (tab : list (N * N)) : bool :=
  forallb (fun kv => (128 <=? fst kv)%N && ((128 <=? snd kv)%N || (snd kv =? 75)%N || (snd kv =? 83)%N)) tab.
