(* Function bodies as TABLES, second language (after Model/ItemsEqTab.v, whose functions return bool only).

   Gen/OrderT.v, Gen/NlvT.v, Gen/CollT.v (regenerated from the source on every run by translator/gobody.go) hold the
   bodies of
       ItemOrderTimestamp                                                             (helpers.go)
       NaturalLanguageValues.Get / Set / Add / Append / Count / First, LangRefValue.Equals  (natural_language_values.go)
       ItemCollection.Append / Count / Collection / Remove, ToItemCollection          (item_collection.go)
       IRIs.Append / Collection / Count                                               (iri.go)
       Collection / CollectionPage / OrderedCollection / OrderedCollectionPage . Append / Contains / Count / Collection
   statement by statement and expression by expression in the small imperative language defined here: locals,
   pointer receivers that are written through (assignments to the pointee, to one of its elements, to a field), field reads
   carrying the field's Go type, slices / append / make / len, range loops with index and value, continue / break,
   early and multi-value returns, type switches with a bound variable, nil tests that carry what kind of thing is
   compared with nil (interface / pointer / slice / error: go/types), calls to package functions and methods under
   their go/types-resolved names.  A Go statement or expression outside the language is an explicit
   GsUnrec / GxUnrec entry carrying its source text and position - never dropped.

   This file: the language (parametric in what a variable is: the tables name them as the source does, the
   interpreter runs on frame slots), the values, the interpreter ([ev] / [exec] / [run_fn]: what a table MEANS, whatever
   it says), boolean equality of bodies and the diagnosis of the first differing statement.  Definitions only.
   Slices have value semantics (contents; nil and empty are told apart where the item universe tells them apart):
   aliasing of backing arrays is not modelled here, exactly as in the hand-written models Nlv.v / Coll.v. *)
From AP.Model Require Import Prelude Vocab Pred Layout Nlv TabEq.
From Coq Require Import ZArith.

(* ------------------------------------------------------------------ the language *)
Inductive nilclass := NcIface | NcPtr | NcSlice | NcErr.      (* what `x == nil` compares, by x's static type *)
Inductive binop := OpEq | OpLt | OpLe | OpGt | OpGe | OpAnd | OpOr | OpAdd | OpSub.
Definition tcase := (cast_kind * bool)%type.                  (* a type in a type-switch case: (named type, pointer?) *)

Section Syntax.
  Context {V : Type}.

  Inductive gexp :=
  | GxVar (v : V)
  | GxNil
  | GxBool (b : bool)
  | GxInt (z : Z)                                 (* an integer constant expression, by its value (go/types) *)
  | GxStr (s : bytes)                             (* a string constant *)
  | GxDeref (e : gexp)                            (* *e (also where the source dereferences implicitly) *)
  | GxAddr (e : gexp)                             (* &e *)
  | GxField (e : gexp) (f : fid) (t : gotype)     (* e.F, with F's Go type *)
  | GxIndex (e i : gexp)
  | GxLen (e : gexp)
  | GxSliceTo (e hi : gexp)                       (* e[:hi] *)
  | GxSliceFrom (e lo : gexp)                     (* e[lo:] *)
  | GxSliceBoth (e lo hi : gexp)
  | GxAppend (e : gexp) (xs : gexps)              (* append(e, xs...) written out *)
  | GxAppendSpread (e x : gexp)                   (* append(e, x...) *)
  | GxMake (ty : bytes) (n : gexp)                (* make(T, n) *)
  | GxComposite (ty : bytes) (xs : gexps)         (* T{a, b} / T{} *)
  | GxConv (ty : bytes) (e : gexp)                (* T(e), a basic conversion: uint(len(x)) *)
  | GxIsNil (c : nilclass) (e : gexp)             (* e == nil; != is GxNot *)
  | GxNot (e : gexp)
  | GxBin (o : binop) (a b : gexp)
  | GxCall (f : bytes) (args : gexps)             (* a package-level function (generic instances with their type arguments) *)
  | GxMethod (m : bytes) (recv : gexp) (args : gexps)   (* m = "<receiver type>.<M>" (go/types); pointer receivers "*T.M" *)
  | GxUnrec (src pos : bytes)
  with gexps := GxsNil | GxsCons (e : gexp) (r : gexps).

  Inductive glval :=
  | GlVar (v : V)
  | GlDeref (l : glval)                           (* *l = ... *)
  | GlField (l : glval) (f : fid) (t : gotype)    (* l.F = ... *)
  | GlIndex (l : glval) (i : gexp)                (* l[i] = ... *)
  | GlUnrec (src pos : bytes).

  Inductive gstmt :=
  | GsSkip
  | GsSeq (a b : gstmt)
  | GsReturn (es : gexps)
  | GsIf (c : gexp) (t e : gstmt)
  | GsDefine (vs : list V) (e : gexp)             (* v := e;  a, b := f(x) *)
  | GsAssign (l : glval) (e : gexp)
  | GsRange (k v : option V) (coll : gexp) (body : gstmt)     (* for k, v := range coll { body } *)
  | GsContinue
  | GsBreak
  | GsExpr (e : gexp)                             (* a call whose results are dropped *)
  | GsTypeSwitch (b : option V) (e : gexp) (cs : gclauses)    (* switch b := e.(type) { ... } *)
  | GsUnrec (src pos : bytes)
  with gclauses :=
  | GcNil
  | GcCons (dflt : bool) (tys : list tcase) (body : gstmt) (r : gclauses).

  Record gfn := mkgfn { gn_name : bytes; gn_recv : option V; gn_params : list V; gn_results : nat; gn_body : gstmt }.

  Fixpoint gxs (l : list gexp) : gexps := match l with [] => GxsNil | e :: r => GxsCons e (gxs r) end.
  Fixpoint gblk (l : list gstmt) : gstmt := match l with [] => GsSkip | s :: r => GsSeq s (gblk r) end.
  Fixpoint gcls (l : list (bool * list tcase * gstmt)) : gclauses :=
    match l with [] => GcNil | (d, t, b) :: r => GcCons d t b (gcls r) end.
End Syntax.
Arguments gexp : clear implicits.
Arguments gexps : clear implicits.
Arguments glval : clear implicits.
Arguments gstmt : clear implicits.
Arguments gclauses : clear implicits.
Arguments gfn : clear implicits.

(* ------------------------------------------------------------------ names to frame slots *)
Definition gname := bytes.
Fixpoint name_eqb (a b : gname) : bool :=
  match a, b with
  | [], [] => true
  | x :: a', y :: b' => Byte.eqb x y && name_eqb a' b'
  | _, _ => false
  end.

Fixpoint slot_of (frame : list gname) (n : gname) : option nat :=
  match frame with
  | [] => None
  | m :: r => if name_eqb n m then Some 0 else option_map S (slot_of r n)
  end.

Definition olist {A B} (f : A -> option B) : list A -> option (list B) :=
  fix go l := match l with
              | [] => Some []
              | x :: r => match f x, go r with Some y, Some ys => Some (y :: ys) | _, _ => None end
              end.
Definition oopt {A B} (f : A -> option B) (o : option A) : option (option B) :=
  match o with None => Some None | Some x => option_map Some (f x) end.

Section Resolve.
  Variable frame : list gname.
  Let sl := slot_of frame.

  Fixpoint rx (e : gexp gname) : option (gexp nat) :=
    match e with
    | GxVar v => option_map GxVar (sl v)
    | GxNil => Some GxNil
    | GxBool b => Some (GxBool b)
    | GxInt z => Some (GxInt z)
    | GxStr s => Some (GxStr s)
    | GxDeref e => option_map GxDeref (rx e)
    | GxAddr e => option_map GxAddr (rx e)
    | GxField e f t => option_map (fun e' => GxField e' f t) (rx e)
    | GxIndex e i => match rx e, rx i with Some a, Some b => Some (GxIndex a b) | _, _ => None end
    | GxLen e => option_map GxLen (rx e)
    | GxSliceTo e h => match rx e, rx h with Some a, Some b => Some (GxSliceTo a b) | _, _ => None end
    | GxSliceFrom e l => match rx e, rx l with Some a, Some b => Some (GxSliceFrom a b) | _, _ => None end
    | GxSliceBoth e l h =>
        match rx e, rx l, rx h with Some a, Some b, Some c => Some (GxSliceBoth a b c) | _, _, _ => None end
    | GxAppend e xs => match rx e, rxs xs with Some a, Some b => Some (GxAppend a b) | _, _ => None end
    | GxAppendSpread e x => match rx e, rx x with Some a, Some b => Some (GxAppendSpread a b) | _, _ => None end
    | GxMake ty n => option_map (GxMake ty) (rx n)
    | GxComposite ty xs => option_map (GxComposite ty) (rxs xs)
    | GxConv ty e => option_map (GxConv ty) (rx e)
    | GxIsNil c e => option_map (GxIsNil c) (rx e)
    | GxNot e => option_map GxNot (rx e)
    | GxBin o a b => match rx a, rx b with Some x, Some y => Some (GxBin o x y) | _, _ => None end
    | GxCall f args => option_map (GxCall f) (rxs args)
    | GxMethod m r args => match rx r, rxs args with Some a, Some b => Some (GxMethod m a b) | _, _ => None end
    | GxUnrec s p => Some (GxUnrec s p)
    end
  with rxs (es : gexps gname) : option (gexps nat) :=
    match es with
    | GxsNil => Some GxsNil
    | GxsCons e r => match rx e, rxs r with Some a, Some b => Some (GxsCons a b) | _, _ => None end
    end.

  Fixpoint rl (l : glval gname) : option (glval nat) :=
    match l with
    | GlVar v => option_map GlVar (sl v)
    | GlDeref l => option_map GlDeref (rl l)
    | GlField l f t => option_map (fun l' => GlField l' f t) (rl l)
    | GlIndex l i => match rl l, rx i with Some a, Some b => Some (GlIndex a b) | _, _ => None end
    | GlUnrec s p => Some (GlUnrec s p)
    end.

  Fixpoint rs (s : gstmt gname) : option (gstmt nat) :=
    match s with
    | GsSkip => Some GsSkip
    | GsSeq a b => match rs a, rs b with Some x, Some y => Some (GsSeq x y) | _, _ => None end
    | GsReturn es => option_map GsReturn (rxs es)
    | GsIf c t e => match rx c, rs t, rs e with Some x, Some y, Some z => Some (GsIf x y z) | _, _, _ => None end
    | GsDefine vs e => match olist sl vs, rx e with Some a, Some b => Some (GsDefine a b) | _, _ => None end
    | GsAssign l e => match rl l, rx e with Some a, Some b => Some (GsAssign a b) | _, _ => None end
    | GsRange k v c body =>
        match oopt sl k, oopt sl v, rx c, rs body with
        | Some k', Some v', Some c', Some b' => Some (GsRange k' v' c' b')
        | _, _, _, _ => None
        end
    | GsContinue => Some GsContinue
    | GsBreak => Some GsBreak
    | GsExpr e => option_map GsExpr (rx e)
    | GsTypeSwitch b e cs =>
        match oopt sl b, rx e, rcs cs with
        | Some b', Some e', Some cs' => Some (GsTypeSwitch b' e' cs')
        | _, _, _ => None
        end
    | GsUnrec s p => Some (GsUnrec s p)
    end
  with rcs (cs : gclauses gname) : option (gclauses nat) :=
    match cs with
    | GcNil => Some GcNil
    | GcCons d tys body r => match rs body, rcs r with Some b, Some r' => Some (GcCons d tys b r') | _, _ => None end
    end.
End Resolve.

(* the names a body declares, in order of first declaration *)
Definition ovar (o : option gname) : list gname := match o with Some v => [v] | None => [] end.
Fixpoint decls (s : gstmt gname) : list gname :=
  match s with
  | GsSeq a b => decls a ++ decls b
  | GsIf _ t e => decls t ++ decls e
  | GsDefine vs _ => vs
  | GsRange k v _ body => ovar k ++ ovar v ++ decls body
  | GsTypeSwitch b _ cs => ovar b ++ cdecls cs
  | _ => []
  end
with cdecls (cs : gclauses gname) : list gname :=
  match cs with GcNil => [] | GcCons _ _ body r => decls body ++ cdecls r end.

Fixpoint add_names (acc l : list gname) : list gname :=
  match l with
  | [] => acc
  | x :: r => if existsb (name_eqb x) acc then add_names acc r else add_names (acc ++ [x]) r
  end.

(* the frame: receiver, parameters, then the locals; every name has one slot for the whole call (the translator
   refuses a declaration that shadows a name still in scope) *)
Definition frame_of (f : gfn gname) : list gname :=
  add_names (ovar (gn_recv f) ++ gn_params f) (decls (gn_body f)).

Definition compile (f : gfn gname) : option (gfn nat) :=
  let fr := frame_of f in
  match oopt (slot_of fr) (gn_recv f), olist (slot_of fr) (gn_params f), rs fr (gn_body f) with
  | Some r, Some ps, Some b => Some (mkgfn (gn_name f) r ps (gn_results f) b)
  | _, _, _ => None
  end.

(* ------------------------------------------------------------------ values *)
(* where a pointer to a slice points: the very pointer that came in, a field of the struct that came in, or a
   local (a copy, a fresh slice) *)
Inductive porigin := OSame | OInto (f : fid) | OFresh.

Inductive gval :=
| GvUndef                                   (* a slot not yet assigned *)
| GvNil                                     (* the nil literal *)
| GvItem (i : item)                         (* an Item; also ItemCollection / IRIs / []Item values and struct pointers *)
| GvNl (l : nl)                             (* NaturalLanguageValues *)
| GvLrv (e : lrv)                           (* LangRefValue *)
| GvBytes (b : bytes)                       (* LangRef, Content, string *)
| GvBool (b : bool)
| GvInt (z : Z)                             (* int, uint *)
| GvTime (t : vtime)
| GvErr (isnil : bool)                      (* an error value *)
| GvPtr (og : porigin) (o : option gval).   (* pointer to a slice-typed value (NaturalLanguageValues, ItemCollection, IRIs); None = nil *)

Definition gstate := list gval.
Definition sget (n : nat) (s : gstate) : gval := nth n s GvUndef.
Fixpoint sset (n : nat) (v : gval) (s : gstate) : gstate :=
  match n, s with
  | O, _ :: r => v :: r
  | S m, x :: r => x :: sset m v r
  | _, [] => []
  end.

Inductive gsignal :=
| GgNormal (s : gstate)
| GgRet (vs : list gval) (s : gstate)
| GgBreak (s : gstate)
| GgContinue (s : gstate).

(* what calls mean: by go/types-resolved name; None = a callee the environment does not know.  A method may hand
   back the new value of its (pointer) receiver. *)
Record genv := mkgenv {
  ge_func : bytes -> list gval -> option (outcome (list gval));
  ge_method : bytes -> gval -> list gval -> option (outcome (list gval * option gval)) }.

Definition lst {A} (o : option (list A)) : list A := match o with Some l => l | None => [] end.

(* ------------------------------------------------------------------ primitive operations on values *)
Definition zlen {A} (l : list A) : Z := Z.of_nat (length l).

Definition val_len (v : gval) : outcome Z :=
  match v with
  | GvItem (IItems _ lo) => Ok (zlen (lst lo))
  | GvItem (IIris _ lo) => Ok (zlen (lst lo))
  | GvNl l => Ok (zlen l)
  | GvBytes b => Ok (zlen b)
  | GvNil => Ok 0%Z
  | _ => Err
  end.

Definition read_field (t : gotype) (f : fid) (fs : list (fid * fval)) : outcome gval :=
  match t with
  | TItems => Ok (GvItem (IItems false (get_items f fs)))
  | TItem => Ok (GvItem (get_item f fs))
  | TTime => Ok (GvTime (get_time f fs))
  | TUint => Ok (GvInt (Z.of_N (get_uint f fs)))
  | TString => Ok (GvBytes (get_str f fs))
  | TNlv => Ok (GvNl (match get_nlv f fs with Some l => l | None => [] end))
  | _ => Err
  end.

Definition field_of (v : gval) (f : fid) (t : gotype) : outcome gval :=
  match v with
  | GvItem (IObj _ _ fs) => read_field t f fs
  | GvItem (ITNil _) => Panic NilDeref
  | GvLrv (r, c) => match f with F_Ref => Ok (GvBytes r) | F_Value => Ok (GvBytes c) | _ => Err end
  | _ => Err
  end.

Definition to_fval (t : gotype) (v : gval) : option fval :=
  match t, v with
  | TItems, GvItem (IItems false lo) => Some (FItems lo)
  | TItems, GvNil => Some (FItems None)
  | TItem, GvItem i => Some (FItem i)
  | TItem, GvNil => Some (FItem INil)
  | _, _ => None
  end.

Definition as_bytes (v : gval) : option bytes :=
  match v with GvBytes b => Some b | GvNil => Some [] | _ => None end.

(* the elements a range loop visits / an index reads *)
Definition elems_of (v : gval) : option (list gval) :=
  match v with
  | GvItem (IItems _ lo) => Some (map GvItem (lst lo))
  | GvItem (IIris _ lo) => Some (map (fun x => GvItem (IIri false x)) (lst lo))
  | GvNl l => Some (map GvLrv l)
  | GvNil => Some []
  | _ => None
  end.

(* a slice value rebuilt from elements, in the representation of [like]; [keep_nil]: no element and a nil slice
   stays nil *)
Fixpoint items_of_vals (l : list gval) : option (list item) :=
  match l with
  | [] => Some []
  | GvItem i :: r => option_map (cons i) (items_of_vals r)
  | GvNil :: r => option_map (cons INil) (items_of_vals r)
  | _ => None
  end.
Fixpoint iris_of_vals (l : list gval) : option (list bytes) :=
  match l with
  | [] => Some []
  | GvItem (IIri _ s) :: r => option_map (cons s) (iris_of_vals r)
  | _ => None
  end.
Fixpoint lrvs_of_vals (l : list gval) : option nl :=
  match l with
  | [] => Some []
  | GvLrv e :: r => option_map (cons e) (lrvs_of_vals r)
  | _ => None
  end.

Definition rebuild (like : gval) (l : list gval) : outcome gval :=
  match like with
  | GvItem (IItems _ _) => match items_of_vals l with Some x => Ok (GvItem (IItems false (Some x))) | None => Err end
  | GvItem (IIris _ _) => match iris_of_vals l with Some x => Ok (GvItem (IIris false (Some x))) | None => Err end
  | GvNl _ => match lrvs_of_vals l with Some x => Ok (GvNl x) | None => Err end
  | _ => Err
  end.

(* append(a, xs...): nothing appended leaves a as it is (a nil slice stays nil) *)
Definition val_append (a : gval) (xs : list gval) : outcome gval :=
  match xs with
  | [] => match elems_of a with Some _ => Ok a | None => Err end
  | _ => match elems_of a with
         | Some l => rebuild a (l ++ xs)
         | None => Err
         end
  end.

(* a[lo:hi] on the contents; bounds beyond the length are outside the model (the capacity is not modelled) *)
Definition val_slice (a : gval) (lo hi : Z) : outcome gval :=
  match elems_of a with
  | Some l =>
      if (lo <? 0)%Z || (hi <? lo)%Z then Panic SliceBounds
      else if (zlen l <? hi)%Z then Err
      else rebuild a (firstn (Z.to_nat hi - Z.to_nat lo) (skipn (Z.to_nat lo) l))
  | None => Err
  end.

Fixpoint set_nth {A} (n : nat) (x : A) (l : list A) : list A :=
  match n, l with
  | O, _ :: r => x :: r
  | S m, y :: r => y :: set_nth m x r
  | _, [] => []
  end.

Definition val_set_index (a : gval) (i : Z) (x : gval) : outcome gval :=
  match elems_of a with
  | Some l =>
      if (i <? 0)%Z || (zlen l <=? i)%Z then Panic IndexOutOfRange
      else rebuild a (set_nth (Z.to_nat i) x l)
  | None => Err
  end.

Definition val_index (a : gval) (i : Z) : outcome gval :=
  match elems_of a with
  | Some l =>
      if (i <? 0)%Z || (zlen l <=? i)%Z then Panic IndexOutOfRange
      else Ok (nth (Z.to_nat i) l GvUndef)
  | None => Err
  end.

Definition n_item_collection := B "ItemCollection".
Definition n_iris := B "IRIs".
Definition n_lrv := B "LangRefValue".
Definition n_uint := B "uint".
Definition n_int := B "int".

Definition val_make (ty : bytes) (n : Z) : outcome gval :=
  if (n <? 0)%Z then Panic SliceBounds
  else if bytes_eqb ty n_item_collection then Ok (GvItem (IItems false (Some (repeat INil (Z.to_nat n)))))
  else Err.

Definition val_composite (ty : bytes) (xs : list gval) : outcome gval :=
  if bytes_eqb ty n_lrv
  then match xs with
       | [] => Ok (GvLrv ([], []))
       | [a; b] => match as_bytes a, as_bytes b with Some x, Some y => Ok (GvLrv (x, y)) | _, _ => Err end
       | _ => Err
       end
  else Err.

Definition val_conv (ty : bytes) (v : gval) : outcome gval :=
  match v with
  | GvInt z => if bytes_eqb ty n_uint then (if (z <? 0)%Z then Err else Ok v)
               else if bytes_eqb ty n_int then Ok v else Err
  | _ => Err
  end.

Definition val_is_nil (c : nilclass) (v : gval) : outcome bool :=
  match v with
  | GvNil => Ok true
  | _ =>
    match c, v with
    | NcIface, GvItem i => Ok (match i with INil => true | _ => false end)       (* the untyped nil only *)
    | NcPtr, GvItem (ITNil _) => Ok true
    | NcPtr, GvItem (IObj true _ _) => Ok false
    | NcPtr, GvPtr _ o => Ok (match o with None => true | Some _ => false end)
    | NcSlice, GvItem (IItems false lo) => Ok (match lo with None => true | Some _ => false end)
    | NcSlice, GvItem (IIris false lo) => Ok (match lo with None => true | Some _ => false end)
    | NcErr, GvErr b => Ok b
    | _, _ => Err
    end
  end.

Definition val_bin (o : binop) (a b : gval) : outcome gval :=
  match o, a, b with
  | OpEq, GvBytes x, GvBytes y => Ok (GvBool (bytes_eqb x y))
  | OpEq, GvInt x, GvInt y => Ok (GvBool (x =? y)%Z)
  | OpEq, GvBool x, GvBool y => Ok (GvBool (Bool.eqb x y))
  | OpLt, GvInt x, GvInt y => Ok (GvBool (x <? y)%Z)
  | OpLe, GvInt x, GvInt y => Ok (GvBool (x <=? y)%Z)
  | OpGt, GvInt x, GvInt y => Ok (GvBool (y <? x)%Z)
  | OpGe, GvInt x, GvInt y => Ok (GvBool (y <=? x)%Z)
  | OpAdd, GvInt x, GvInt y => Ok (GvInt (x + y)%Z)
  | OpSub, GvInt x, GvInt y => Ok (GvInt (x - y)%Z)
  | _, _, _ => Err
  end.

(* the shape a type switch sees *)
Definition tshape (i : item) : option tcase :=
  match i with
  | INil => None
  | ITNil k => Some (CK k, true)
  | IObj p k _ => Some (CK k, p)
  | IIri p _ => Some (CKOther (B "IRI"), p)
  | IItems p _ => Some (CKOther n_item_collection, p)
  | IIris p _ => Some (CKOther n_iris, p)
  end.
Definition ckind_eqb (a b : cast_kind) : bool :=
  match a, b with
  | CK x, CK y => kind_beq x y
  | CKOther x, CKOther y => bytes_eqb x y
  | _, _ => false
  end.
Definition tcase_eqb (a b : tcase) : bool := ckind_eqb (fst a) (fst b) && Bool.eqb (snd a) (snd b).

(* the value bound in a single-type clause: a pointer to a slice type becomes a pointer value *)
Definition narrow (i : item) : gval :=
  match i with
  | IItems true lo => GvPtr OSame (Some (GvItem (IItems false lo)))
  | IIris true lo => GvPtr OSame (Some (GvItem (IIris false lo)))
  | _ => GvItem i
  end.

Definition as_int (v : gval) : outcome Z := match v with GvInt z => Ok z | _ => Err end.
Definition as_bool (v : gval) : outcome bool := match v with GvBool b => Ok b | _ => Err end.

(* ------------------------------------------------------------------ the interpreter *)
(* for k, v := range l { step }: continue goes on, break ends the loop, a return ends the function *)
Fixpoint for_loop (step : nat -> gval -> gstate -> outcome gsignal) (i : nat) (l : list gval) (s : gstate)
  : outcome gsignal :=
  match l with
  | [] => Ok (GgNormal s)
  | x :: r =>
      obind (step i x s)
            (fun g => match g with
                      | GgNormal s' | GgContinue s' => for_loop step (S i) r s'
                      | GgBreak s' => Ok (GgNormal s')
                      | other => Ok other
                      end)
  end.

Section Exec.
  Variable E : genv.

  Section Ev.
    Variable s : gstate.

    Fixpoint ev (e : gexp nat) : outcome gval :=
      match e with
      | GxVar v => match sget v s with GvUndef => Err | x => Ok x end
      | GxNil => Ok GvNil
      | GxBool b => Ok (GvBool b)
      | GxInt z => Ok (GvInt z)
      | GxStr b => Ok (GvBytes b)
      | GxDeref e =>
          obind (ev e) (fun v => match v with
                                 | GvPtr _ (Some x) => Ok x
                                 | GvPtr _ None => Panic NilDeref
                                 | GvItem (IObj true k fs) => Ok (GvItem (IObj false k fs))   (* a struct pointer: the value *)
                                 | GvItem (ITNil _) => Panic NilDeref
                                 | _ => Err
                                 end)
      | GxAddr e =>
          match e with
          | GxVar _ => obind (ev e) (fun v => Ok (GvPtr OFresh (Some v)))
          | GxField b f t =>
              obind (ev b) (fun bv =>
              obind (field_of bv f t) (fun v =>
                Ok (GvPtr (match bv with GvItem (IObj true _ _) => OInto f | _ => OFresh end) (Some v))))
          | _ => Err
          end
      | GxField e f t => obind (ev e) (fun v => field_of v f t)
      | GxIndex e i => obind (ev e) (fun a => obind (obind (ev i) as_int) (fun k => val_index a k))
      | GxLen e => obind (ev e) (fun v => obind (val_len v) (fun z => Ok (GvInt z)))
      | GxSliceTo e h => obind (ev e) (fun a => obind (obind (ev h) as_int) (fun hi => val_slice a 0 hi))
      | GxSliceFrom e l =>
          obind (ev e) (fun a => obind (obind (ev l) as_int) (fun lo => obind (val_len a) (fun n => val_slice a lo n)))
      | GxSliceBoth e l h =>
          obind (ev e) (fun a => obind (obind (ev l) as_int) (fun lo => obind (obind (ev h) as_int) (fun hi => val_slice a lo hi)))
      | GxAppend e xs => obind (ev e) (fun a => obind (evs xs) (fun l => val_append a l))
      | GxAppendSpread e x =>
          obind (ev e) (fun a => obind (ev x) (fun b =>
            match elems_of b with Some l => val_append a l | None => Err end))
      | GxMake ty n => obind (obind (ev n) as_int) (fun k => val_make ty k)
      | GxComposite ty xs => obind (evs xs) (fun l => val_composite ty l)
      | GxConv ty e => obind (ev e) (fun v => val_conv ty v)
      | GxIsNil c e => obind (ev e) (fun v => obind (val_is_nil c v) (fun b => Ok (GvBool b)))
      | GxNot e => obind (obind (ev e) as_bool) (fun b => Ok (GvBool (negb b)))
      | GxBin OpAnd a b => obind (obind (ev a) as_bool) (fun x => if x then obind (obind (ev b) as_bool) (fun y => Ok (GvBool y)) else Ok (GvBool false))
      | GxBin OpOr a b => obind (obind (ev a) as_bool) (fun x => if x then Ok (GvBool true) else obind (obind (ev b) as_bool) (fun y => Ok (GvBool y)))
      | GxBin o a b => obind (ev a) (fun x => obind (ev b) (fun y => val_bin o x y))
      | GxCall f args =>
          obind (evs args) (fun l =>
            match ge_func E f l with
            | Some o => obind o (fun rs => match rs with [r] => Ok r | _ => Err end)
            | None => Err
            end)
      | GxMethod m r args =>
          obind (ev r) (fun rv => obind (evs args) (fun l =>
            match ge_method E m rv l with
            | Some o => obind o (fun p => match p with ([x], None) => Ok x | _ => Err end)   (* no write-back inside an expression *)
            | None => Err
            end))
      | GxUnrec _ _ => Err
      end
    with evs (es : gexps nat) : outcome (list gval) :=
      match es with
      | GxsNil => Ok []
      | GxsCons e r => obind (ev e) (fun v => obind (evs r) (fun l => Ok (v :: l)))
      end.

    (* an expression where several values are wanted: a call hands back all its results *)
    Definition ev_multi (e : gexp nat) : outcome (list gval) :=
      match e with
      | GxCall f args =>
          obind (evs args) (fun l => match ge_func E f l with Some o => o | None => Err end)
      | _ => obind (ev e) (fun v => Ok [v])
      end.

    Fixpoint lv_get (l : glval nat) : outcome gval :=
      match l with
      | GlVar v => match sget v s with GvUndef => Err | x => Ok x end
      | GlDeref l =>
          obind (lv_get l) (fun v => match v with
                                     | GvPtr _ (Some x) => Ok x
                                     | GvPtr _ None => Panic NilDeref
                                     | _ => Err
                                     end)
      | GlField l f t => obind (lv_get l) (fun v => field_of v f t)
      | GlIndex l i => obind (lv_get l) (fun a => obind (obind (ev i) as_int) (fun k => val_index a k))
      | GlUnrec _ _ => Err
      end.

    (* l = x: read-modify-write down to the variable at the root of l *)
    Fixpoint lv_set (l : glval nat) (x : gval) : outcome gstate :=
      match l with
      | GlVar v => Ok (sset v x s)
      | GlDeref l' =>
          obind (lv_get l') (fun p => match p with
                                      | GvPtr og (Some _) => lv_set l' (GvPtr og (Some x))
                                      | GvPtr _ None => Panic NilDeref
                                      | _ => Err
                                      end)
      | GlField l' f t =>
          obind (lv_get l') (fun b => match b with
                                      | GvItem (IObj p k fs) =>
                                          match to_fval t x with
                                          | Some fv => lv_set l' (GvItem (IObj p k (setf f fv fs)))
                                          | None => Err
                                          end
                                      | GvItem (ITNil _) => Panic NilDeref
                                      | _ => Err
                                      end)
      | GlIndex l' i =>
          obind (lv_get l') (fun a => obind (obind (ev i) as_int) (fun k =>
            obind (val_set_index a k x) (fun a' => lv_set l' a')))
      | GlUnrec _ _ => Err
      end.
  End Ev.

  Fixpoint bind_vals (vs : list nat) (xs : list gval) (s : gstate) : option gstate :=
    match vs, xs with
    | [], [] => Some s
    | v :: vs', x :: xs' => bind_vals vs' xs' (sset v x s)
    | _, _ => None
    end.

  Definition obind_slot (o : option nat) (x : gval) (s : gstate) : gstate :=
    match o with Some v => sset v x s | None => s end.

  (* the clause a type switch takes: the first whose type list holds the shape, else the default clause *)
  Definition clause_takes (sh : option tcase) (d : bool) (tys : list tcase) : bool :=
    (match sh with Some x => existsb (tcase_eqb x) tys | None => false end) && negb d.
  Definition clause_single (tys : list tcase) : bool := match tys with [_] => true | _ => false end.

  Fixpoint exec (c : gstmt nat) (s : gstate) : outcome gsignal :=
    match c with
    | GsSkip => Ok (GgNormal s)
    | GsSeq a b => obind (exec a s) (fun g => match g with GgNormal s' => exec b s' | other => Ok other end)
    | GsReturn es =>
        match es with
        | GxsCons e GxsNil => obind (ev_multi s e) (fun vs => Ok (GgRet vs s))
        | _ => obind (evs s es) (fun vs => Ok (GgRet vs s))
        end
    | GsIf c t e => obind (obind (ev s c) as_bool) (fun b => if b then exec t s else exec e s)
    | GsDefine vs e =>
        obind (ev_multi s e) (fun xs => match bind_vals vs xs s with Some s' => Ok (GgNormal s') | None => Err end)
    | GsAssign l e => obind (ev s e) (fun x => obind (lv_set s l x) (fun s' => Ok (GgNormal s')))
    | GsRange k v coll body =>
        obind (ev s coll) (fun cv =>
          match elems_of cv with
          | Some l =>
              for_loop (fun i x s' => exec body (obind_slot v x (obind_slot k (GvInt (Z.of_nat i)) s'))) 0 l s
          | None => Err
          end)
    | GsContinue => Ok (GgContinue s)
    | GsBreak => Ok (GgBreak s)
    | GsExpr e =>
        match e with
        | GxMethod m (GxVar r) args =>                 (* a call on a variable may write the receiver back *)
            obind (ev s (GxVar r)) (fun rv => obind (evs s args) (fun l =>
              match ge_method E m rv l with
              | Some o => obind o (fun p => Ok (GgNormal (match snd p with Some rv' => sset r rv' s | None => s end)))
              | None => Err
              end))
        | _ => obind (ev_multi s e) (fun _ => Ok (GgNormal s))
        end
    | GsTypeSwitch b e cs =>
        obind (ev s e) (fun v =>
          match v with
          | GvItem i =>
              match exec_pick i b cs s with
              | Some o => o
              | None => match exec_default i b cs s with Some o => o | None => Ok (GgNormal s) end
              end
          | _ => Err
          end)
    | GsUnrec _ _ => Err
    end
  with exec_pick (i : item) (b : option nat) (cs : gclauses nat) (s : gstate) : option (outcome gsignal) :=
    match cs with
    | GcNil => None
    | GcCons d tys body r =>
        if clause_takes (tshape i) d tys
        then Some (exec body (obind_slot b (if clause_single tys then narrow i else GvItem i) s))
        else exec_pick i b r s
    end
  with exec_default (i : item) (b : option nat) (cs : gclauses nat) (s : gstate) : option (outcome gsignal) :=
    match cs with
    | GcNil => None
    | GcCons d _ body r => if d then Some (exec body (obind_slot b (GvItem i) s)) else exec_default i b r s
    end.

  (* a call: the frame is laid out once; falling off the end is fine only for a function without results *)
  Definition run_cfn (f : gfn nat) (nslots : nat) (recv : option gval) (args : list gval)
    : outcome (list gval * option gval) :=
    let s0 := repeat GvUndef nslots in
    match (match gn_recv f, recv with
           | Some r, Some d => bind_vals (gn_params f) args (sset r d s0)
           | None, None => bind_vals (gn_params f) args s0
           | _, _ => None
           end) with
    | None => Err
    | Some s =>
        obind (exec (gn_body f) s)
              (fun g =>
                 let out s' := match gn_recv f with Some r => Some (sget r s') | None => None end in
                 match g with
                 | GgRet vs s' => if Nat.eqb (length vs) (gn_results f) then Ok (vs, out s') else Err
                 | GgNormal s' => if Nat.eqb (gn_results f) 0 then Ok ([], out s') else Err
                 | _ => Err
                 end)
    end.

  Definition run_fn (f : gfn gname) (recv : option gval) (args : list gval) : outcome (list gval * option gval) :=
    match compile f with
    | Some cf => run_cfn cf (length (frame_of f)) recv args
    | None => Err
    end.
End Exec.

(* the clause a type switch takes, as a function of the shape alone: (single type?, body) *)
Fixpoint pick_clause (sh : option tcase) (cs : gclauses nat) : option (bool * gstmt nat) :=
  match cs with
  | GcNil => None
  | GcCons d tys body r => if clause_takes sh d tys then Some (clause_single tys, body) else pick_clause sh r
  end.
Fixpoint default_clause (cs : gclauses nat) : option (gstmt nat) :=
  match cs with
  | GcNil => None
  | GcCons d _ body r => if d then Some body else default_clause r
  end.

Definition fn_named (tbl : list (gfn gname)) (n : bytes) : option (gfn gname) :=
  find (fun f => bytes_eqb (gn_name f) n) tbl.
Definition run_named (E : genv) (tbl : list (gfn gname)) (n : bytes) (recv : option gval) (args : list gval)
  : outcome (list gval * option gval) :=
  match fn_named tbl n with Some f => run_fn E f recv args | None => Err end.

Definition genv_none : genv := mkgenv (fun _ _ => None) (fun _ _ _ => None).

(* ------------------------------------------------------------------ decidable equality of bodies *)
Definition nilclass_beq (a b : nilclass) : bool :=
  match a, b with NcIface, NcIface | NcPtr, NcPtr | NcSlice, NcSlice | NcErr, NcErr => true | _, _ => false end.
Definition binop_beq (a b : binop) : bool :=
  match a, b with
  | OpEq, OpEq | OpLt, OpLt | OpLe, OpLe | OpGt, OpGt | OpGe, OpGe | OpAnd, OpAnd | OpOr, OpOr | OpAdd, OpAdd
  | OpSub, OpSub => true
  | _, _ => false
  end.

Fixpoint gexp_beq (a b : gexp gname) : bool :=
  match a, b with
  | GxVar x, GxVar y => bytes_eqb x y
  | GxNil, GxNil => true
  | GxBool x, GxBool y => Bool.eqb x y
  | GxInt x, GxInt y => (x =? y)%Z
  | GxStr x, GxStr y => bytes_eqb x y
  | GxDeref x, GxDeref y | GxAddr x, GxAddr y | GxLen x, GxLen y | GxNot x, GxNot y => gexp_beq x y
  | GxField x f t, GxField y g u => gexp_beq x y && fid_beq f g && gotype_eqb t u
  | GxIndex x i, GxIndex y j | GxSliceTo x i, GxSliceTo y j | GxSliceFrom x i, GxSliceFrom y j
  | GxAppendSpread x i, GxAppendSpread y j => gexp_beq x y && gexp_beq i j
  | GxSliceBoth x i h, GxSliceBoth y j k => gexp_beq x y && gexp_beq i j && gexp_beq h k
  | GxAppend x xs, GxAppend y ys => gexp_beq x y && gexps_beq xs ys
  | GxMake t x, GxMake u y | GxConv t x, GxConv u y => bytes_eqb t u && gexp_beq x y
  | GxComposite t xs, GxComposite u ys | GxCall t xs, GxCall u ys => bytes_eqb t u && gexps_beq xs ys
  | GxIsNil c x, GxIsNil d y => nilclass_beq c d && gexp_beq x y
  | GxBin o x1 x2, GxBin p y1 y2 => binop_beq o p && gexp_beq x1 y1 && gexp_beq x2 y2
  | GxMethod m r xs, GxMethod n q ys => bytes_eqb m n && gexp_beq r q && gexps_beq xs ys
  | GxUnrec s p, GxUnrec s' p' => bytes_eqb s s' && bytes_eqb p p'
  | _, _ => false
  end
with gexps_beq (a b : gexps gname) : bool :=
  match a, b with
  | GxsNil, GxsNil => true
  | GxsCons x r, GxsCons y q => gexp_beq x y && gexps_beq r q
  | _, _ => false
  end.

Fixpoint glval_beq (a b : glval gname) : bool :=
  match a, b with
  | GlVar x, GlVar y => bytes_eqb x y
  | GlDeref x, GlDeref y => glval_beq x y
  | GlField x f t, GlField y g u => glval_beq x y && fid_beq f g && gotype_eqb t u
  | GlIndex x i, GlIndex y j => glval_beq x y && gexp_beq i j
  | GlUnrec s p, GlUnrec s' p' => bytes_eqb s s' && bytes_eqb p p'
  | _, _ => false
  end.

Definition ovar_beq (a b : option gname) : bool :=
  match a, b with Some x, Some y => bytes_eqb x y | None, None => true | _, _ => false end.

Fixpoint gstmt_beq (a b : gstmt gname) : bool :=
  match a, b with
  | GsSkip, GsSkip | GsContinue, GsContinue | GsBreak, GsBreak => true
  | GsSeq x1 x2, GsSeq y1 y2 => gstmt_beq x1 y1 && gstmt_beq x2 y2
  | GsReturn xs, GsReturn ys => gexps_beq xs ys
  | GsIf c t e, GsIf c' t' e' => gexp_beq c c' && gstmt_beq t t' && gstmt_beq e e'
  | GsDefine vs e, GsDefine vs' e' => lbeq bytes_eqb vs vs' && gexp_beq e e'
  | GsAssign l e, GsAssign l' e' => glval_beq l l' && gexp_beq e e'
  | GsRange k v c x, GsRange k' v' c' y => ovar_beq k k' && ovar_beq v v' && gexp_beq c c' && gstmt_beq x y
  | GsExpr e, GsExpr e' => gexp_beq e e'
  | GsTypeSwitch b e cs, GsTypeSwitch b' e' cs' => ovar_beq b b' && gexp_beq e e' && gclauses_beq cs cs'
  | GsUnrec s p, GsUnrec s' p' => bytes_eqb s s' && bytes_eqb p p'
  | _, _ => false
  end
with gclauses_beq (a b : gclauses gname) : bool :=
  match a, b with
  | GcNil, GcNil => true
  | GcCons d t x r, GcCons d' t' y q => Bool.eqb d d' && lbeq tcase_eqb t t' && gstmt_beq x y && gclauses_beq r q
  | _, _ => false
  end.

Definition gfn_beq (a b : gfn gname) : bool :=
  bytes_eqb (gn_name a) (gn_name b) && ovar_beq (gn_recv a) (gn_recv b)
  && lbeq bytes_eqb (gn_params a) (gn_params b) && Nat.eqb (gn_results a) (gn_results b)
  && gstmt_beq (gn_body a) (gn_body b).

(* a table condition: each of the model's functions is there, once, with the body the model was written after *)
Fixpoint nodup_names (l : list bytes) : bool :=
  match l with [] => true | x :: r => negb (existsb (bytes_eqb x) r) && nodup_names r end.

Definition fn_matches (tbl : list (gfn gname)) (m : gfn gname) : bool :=
  match fn_named tbl (gn_name m) with Some f => gfn_beq f m | None => false end.
Definition body_table_ok (model tbl : list (gfn gname)) : bool :=
  forallb (fn_matches tbl) model && nodup_names (map gn_name tbl).

(* diagnosis: the first function that differs, with the top-level statement at which the bodies part (position,
   generated, modelled); None for the statement part = the header differs or the function is missing *)
Fixpoint unblk (s : gstmt gname) : list (gstmt gname) :=
  match s with GsSeq a b => a :: unblk b | GsSkip => [] | other => [other] end.
Fixpoint first_diff_stmt (n : nat) (a b : list (gstmt gname))
  : option (nat * option (gstmt gname) * option (gstmt gname)) :=
  match a, b with
  | [], [] => None
  | x :: a', y :: b' => if gstmt_beq x y then first_diff_stmt (S n) a' b' else Some (n, Some x, Some y)
  | x :: _, [] => Some (n, Some x, None)
  | [], y :: _ => Some (n, None, Some y)
  end.
Definition first_bad_body (model tbl : list (gfn gname))
  : option (bytes * option (nat * option (gstmt gname) * option (gstmt gname))) :=
  match find (fun m => negb (fn_matches tbl m)) model with
  | None => None
  | Some m =>
      Some (gn_name m, match fn_named tbl (gn_name m) with
                       | Some f => first_diff_stmt 0 (unblk (gn_body f)) (unblk (gn_body m))
                       | None => None
                       end)
  end.

(* ---- what a source change does to a table (used by the examples) ---- *)
Definition replace_body (name : bytes) (f : gstmt gname -> gstmt gname) (tbl : list (gfn gname)) : list (gfn gname) :=
  map (fun g => if bytes_eqb (gn_name g) name
                then mkgfn (gn_name g) (gn_recv g) (gn_params g) (gn_results g) (f (gn_body g)) else g) tbl.
Fixpoint drop_nth (n : nat) (s : gstmt gname) : gstmt gname :=
  match s, n with
  | GsSeq _ b, O => b
  | GsSeq a b, S m => GsSeq a (drop_nth m b)
  | other, _ => other
  end.
Fixpoint map_nth (n : nat) (f : gstmt gname -> gstmt gname) (s : gstmt gname) : gstmt gname :=
  match s, n with
  | GsSeq a b, O => GsSeq (f a) b
  | GsSeq a b, S m => GsSeq a (map_nth m f b)
  | other, _ => other
  end.
