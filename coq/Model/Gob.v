(* The gob codec (encoding_gob.go, decoding_gob.go and the GobEncode/GobDecode methods) over an abstract,
   type-discriminating wire (DESIGN 2.4).  Definitions only.

   encoding/gob itself is external.  What the model assumes about it (validated by harness/c03.go
   against the real package on every run):
     g1  encode/decode of each leaf Go type ([]byte, [][]byte, map[string][]byte, []kv, int64, uint,
         float64, bool, an opaque GobEncoder value) is the identity;
     g2  a stream of one of those types does not decode as any of the others;
     g3  raw bytes (an IRI, a type name, a PEM block, a unit) are not a gob stream of any shape;
     g4  time.Time.GobEncode/GobDecode preserve instant, nanoseconds and zone offset.
   The per-type property tables are NOT modelled by hand: gmap / gunmap interpret the tables that the
   translator regenerates from the source (Gen/GobW.v, Gen/GobR.v), passed in through [gob_env]. *)
From AP.Model Require Import Prelude Vocab Bytes Layout Pred Dispatch GobTables.

(* ------------------------------------------------------------------ the wire *)
Inductive wire :=
| WEmpty                                   (* no bytes *)
| WRaw (b : bytes)                         (* non-empty bytes that are not a gob stream (g3) *)
| WBytes (b : bytes)                       (* gob stream of a []byte *)
| WList (l : list wire)                    (* gob stream of a [][]byte; every element is a byte string *)
| WMap (m : list (bytes * wire))           (* gob stream of a map[string][]byte *)
| WKvs (l : list (bytes * bytes))          (* gob stream of a []kv *)
| WOpaque (inner : wire)                   (* gob stream of a GobEncoder value; inner = what GobEncode returned *)
| WInt (z : Z) | WUint (n : N) | WFloat (micro : Z) | WBool (b : bool)
| WTime (t : vtime)                        (* time.Time.MarshalBinary: not a gob stream *)
| WCat (a b : wire).                       (* two streams one after the other; a decoder reads the first *)

Fixpoint aget {A} (k : bytes) (m : list (bytes * A)) : option A :=
  match m with
  | [] => None
  | (k', v) :: r => if bytes_eqb k k' then Some v else aget k r
  end.

(* mm[k] = v *)
Fixpoint aset {A} (k : bytes) (v : A) (m : list (bytes * A)) : list (bytes * A) :=
  match m with
  | [] => [(k, v)]
  | (k', v') :: r => if bytes_eqb k k' then (k, v) :: r else (k', v') :: aset k v r
  end.

Fixpoint wire_eqb (a b : wire) {struct a} : bool :=
  match a, b with
  | WEmpty, WEmpty => true
  | WRaw x, WRaw y => bytes_eqb x y
  | WBytes x, WBytes y => bytes_eqb x y
  | WList l, WList l' =>
      (fix go (x y : list wire) : bool :=
         match x, y with
         | [], [] => true
         | i :: x', j :: y' => wire_eqb i j && go x' y'
         | _, _ => false
         end) l l'
  | WMap m, WMap m' =>
      Nat.eqb (length m) (length m') &&
      (fix go (x : list (bytes * wire)) : bool :=
         match x with
         | [] => true
         | (k, w) :: x' => match aget k m' with Some w' => wire_eqb w w' | None => false end && go x'
         end) m
  | WKvs l, WKvs l' => list_eqb (pair_eqb bytes_eqb bytes_eqb) l l'
  | WOpaque i, WOpaque j => wire_eqb i j
  | WInt x, WInt y => (x =? y)%Z
  | WUint x, WUint y => (x =? y)%N
  | WFloat x, WFloat y => (x =? y)%Z
  | WBool x, WBool y => Bool.eqb x y
  | WTime x, WTime y => vtime_eqb x y
  | WCat a1 a2, WCat b1 b2 => wire_eqb a1 b1 && wire_eqb a2 b2
  | _, _ => false
  end.

Fixpoint wire_depth (w : wire) : nat :=
  match w with
  | WList l => S ((fix go (l : list wire) : nat := match l with [] => 0 | x :: r => Nat.max (wire_depth x) (go r) end) l)
  | WMap m => S ((fix go (m : list (bytes * wire)) : nat :=
                    match m with [] => 0 | (_, x) :: r => Nat.max (wire_depth x) (go r) end) m)
  | WOpaque i => S (wire_depth i)
  | WCat a b => S (Nat.max (wire_depth a) (wire_depth b))
  | _ => 1
  end.

Definition wraw (b : bytes) : wire := match b with [] => WEmpty | _ => WRaw b end.

(* the bytes of a wire, when the abstraction knows them *)
Definition wire_bytes (w : wire) : option bytes :=
  match w with WEmpty => Some [] | WRaw b => Some b | _ => None end.

(* where the real code turns arbitrary stream bytes into a string, the model writes this marker *)
Definition gob_garbage : bytes := B "<gob stream bytes>".
Definition wire_bytes_or_garbage (w : wire) : bytes :=
  match wire_bytes w with Some b => b | None => gob_garbage end.

(* typed decodes (gob.NewDecoder(bytes.NewReader(data)).Decode(&v)): g1, g2, g3; empty input is io.EOF *)
Definition wfirst (w : wire) : wire := match w with WCat a _ => a | _ => w end.
Definition gd_list (w : wire) : outcome (list wire) := match wfirst w with WList l => Ok l | _ => Err end.
Definition gd_map (w : wire) : outcome (list (bytes * wire)) := match wfirst w with WMap m => Ok m | _ => Err end.
Definition gd_kvs (w : wire) : outcome (list (bytes * bytes)) := match wfirst w with WKvs l => Ok l | _ => Err end.
Definition gd_bytes (w : wire) : outcome bytes := match wfirst w with WBytes b => Ok b | _ => Err end.
Definition gd_int (w : wire) : outcome Z := match wfirst w with WInt z => Ok z | _ => Err end.
Definition gd_uint (w : wire) : outcome N := match wfirst w with WUint n => Ok n | _ => Err end.
Definition gd_float (w : wire) : outcome Z := match wfirst w with WFloat z => Ok z | _ => Err end.
Definition gd_bool (w : wire) : outcome bool := match wfirst w with WBool b => Ok b | _ => Err end.

(* ------------------------------------------------------------------ codec names of the tables *)
Inductive wcodec :=
| CwIri | CwType | CwMime | CwLangRef | CwRawBytes | CwNlv | CwTime | CwSource | CwEndpoints | CwPubKey
| CwItem | CwItems | CwItemOrLink | CwInt64 | CwUint | CwFloat | CwBool.
Scheme Equality for wcodec.

Definition wcodec_names : list (bytes * wcodec) :=
  [ (B "IRI.GobEncode", CwIri); (B "ActivityVocabularyType.GobEncode", CwType); (B "MimeType.GobEncode", CwMime);
    (B "LangRef.GobEncode", CwLangRef); (B "[]byte", CwRawBytes); (B "NaturalLanguageValues.GobEncode", CwNlv);
    (B "time.Time.GobEncode", CwTime); (B "Source.GobEncode", CwSource); (B "*Endpoints.GobEncode", CwEndpoints);
    (B "PublicKey.GobEncode", CwPubKey); (B "gobEncodeItem", CwItem); (B "gobEncodeItems", CwItems);
    (B "gobEncodeItemOrLink", CwItemOrLink); (B "gobEncodeInt64", CwInt64); (B "gobEncodeUint", CwUint);
    (B "gobEncodeFloat64", CwFloat); (B "gobEncodeBool", CwBool) ].

Inductive rcodec :=
| CrIri | CrType | CrMime | CrLangRef | CrString | CrNlvMethod | CrNlvFn | CrTime | CrSource
| CrEndpointsMethod | CrEndpointsFn | CrPubKey | CrItem | CrItems | CrDuration | CrInt64 | CrUint | CrFloat | CrBool.
Scheme Equality for rcodec.

Definition rcodec_names : list (bytes * rcodec) :=
  [ (B "IRI.GobDecode", CrIri); (B "ActivityVocabularyType.GobDecode", CrType); (B "MimeType.GobDecode", CrMime);
    (B "LangRef.GobDecode", CrLangRef); (B "string", CrString); (B "NaturalLanguageValues.GobDecode", CrNlvMethod);
    (B "gobDecodeNaturalLanguageValues", CrNlvFn); (B "time.Time.GobDecode", CrTime); (B "Source.GobDecode", CrSource);
    (B "*Endpoints.GobDecode", CrEndpointsMethod); (B "gobDecodeEndpoints", CrEndpointsFn);
    (B "PublicKey.GobDecode", CrPubKey); (B "gobDecodeItem", CrItem); (B "gobDecodeItems", CrItems);
    (B "gobDecodeDuration", CrDuration); (B "gobDecodeInt64", CrInt64); (B "gobDecodeUint", CrUint);
    (B "gobDecodeFloat64", CrFloat); (B "gobDecodeBool", CrBool) ].

Definition wcodec_of (n : bytes) : option wcodec := aget n wcodec_names.
Definition rcodec_of (n : bytes) : option rcodec := aget n rcodec_names.

(* ------------------------------------------------------------------ environment: what is read from the source *)
Record gob_env := mk_gob_env {
  ge_wfuncs : list (bytes * option kind * list gwentry);      (* Gen/GobW.gobw_funcs *)
  ge_rfuncs : list (bytes * option kind * list grentry);      (* Gen/GobR.gobr_funcs *)
  ge_enc_methods : list (kind * list bytes);                   (* calls in T.GobEncode *)
  ge_dec_methods : list (kind * list bytes);                   (* calls in T.GobDecode *)
  ge_sw_enc : sw_table; ge_sw_enc_default : bytes;             (* switch of gobEncodeItem *)
  ge_sw_dec : sw_table; ge_sw_dec_default : bytes;             (* switch of gobDecodeItem *)
  ge_sw_typer : sw_table; ge_sw_typer_default : bytes;         (* switch of GetItemByType = ItemTyperFunc *)
  ge_layout : kind -> list fdecl;                              (* Gen/Layout.layout_of *)
  ge_layout_endpoints : list fdecl;
  (* hand-modelled code, as repaired (true) or as pinned (false) *)
  ge_any_map_is_object : bool;      (* gobDecodeItem: every property map is an object (pinned: only with "type" or "id") *)
  ge_ptr_iri : bool;                (* gobEncodeItem writes an IRI held by pointer (pinned: writes nothing) *)
  ge_endpoints_codec : bool         (* Endpoints.GobEncode/GobDecode write and read the six items (pinned: nothing) *)
}.

Section WithEnv.
Variable E : gob_env.

Fixpoint fn_lookup {A} (n : bytes) (l : list (bytes * option kind * A)) : option (option kind * A) :=
  match l with
  | [] => None
  | (n', k, a) :: r => if bytes_eqb n n' then Some (k, a) else fn_lookup n r
  end.

(* delegations inlined: the statements a call of [fn] executes, in order *)
Fixpoint wflatten (fuel : nat) (fn : bytes) : list gwentry :=
  match fuel with
  | O => [GWUnrecognised (B "delegation chain too deep") fn]
  | S n =>
      match fn_lookup fn (ge_wfuncs E) with
      | None => [GWUnrecognised (B "delegation to an unknown function") fn]
      | Some (_, es) => flat_map (fun e => match e with GWDeleg _ fn' _ => wflatten n fn' | _ => [e] end) es
      end
  end.

Fixpoint rflatten (fuel : nat) (fn : bytes) : list grentry :=
  match fuel with
  | O => [GRUnrecognised (B "delegation chain too deep") fn]
  | S n =>
      match fn_lookup fn (ge_rfuncs E) with
      | None => [GRUnrecognised (B "delegation to an unknown function") fn]
      | Some (_, es) => flat_map (fun e => match e with GRDeleg _ fn' _ => rflatten n fn' | _ => [e] end) es
      end
  end.

Definition flatten_fuel : nat := 8.

Fixpoint kget {A} (k : kind) (l : list (kind * A)) : option A :=
  match l with [] => None | (k', a) :: r => if kind_beq k k' then Some a else kget k r end.

(* the map function T.GobEncode calls: second call of the body (make, map<T>Properties, ...) *)
Definition enc_fn (k : kind) : bytes :=
  match kget k (ge_enc_methods E) with Some (_ :: fn :: _) => fn | _ => [] end.
(* the unmap function (T).GobDecode calls: third call (len, gobDecodeObjectAsMap, unmap<T>Properties) *)
Definition dec_fn_method (k : kind) : bytes :=
  match kget k (ge_dec_methods E) with Some (_ :: _ :: fn :: _) => fn | _ => [] end.

Definition wtable (k : kind) : list gwentry := wflatten flatten_fuel (enc_fn k).
Definition rtable_method (k : kind) : list grentry := rflatten flatten_fuel (dec_fn_method k).

(* dispatch on type names *)
Definition typer_kind (n : bytes) : option kind := tag_kind (sw_lookup (ge_sw_typer E) (ge_sw_typer_default E) n).
Definition enc_kind (n : bytes) : option kind := tag_kind (sw_lookup (ge_sw_enc E) (ge_sw_enc_default E) n).
Definition dec_tag (n : bytes) : bytes := sw_lookup (ge_sw_dec E) (ge_sw_dec_default E) n.
Definition dec_kind (n : bytes) : option kind := tag_kind (dec_tag n).
Definition dec_fn_item (n : bytes) : bytes := match snd (cut_byte x2f (dec_tag n)) with Some f => f | None => [] end.

(* what ItemTyperFunc (GetItemByType) returns for a type name: kind and preset fields *)
Definition fresh_fields (n : bytes) : list (fid * fval) :=
  if sw_mentions (ge_sw_typer E) n then
    let tag := sw_lookup (ge_sw_typer E) (ge_sw_typer_default E) n in
    if bytes_eqb tag (B "ObjectNew")
    then setf F_Type (FStr n) [(F_Name, FNlv (Some [])); (F_Content, FNlv (Some []))]
    else setf F_Type (FStr n) []
  else [].

(* a type name that makes every switch pick kind [k] *)
Definition type_selects (k : kind) (ty : bytes) : bool :=
  okind_eqb (typer_kind ty) (Some k) && okind_eqb (dec_kind ty) (Some k) && sw_mentions (ge_sw_dec E) ty &&
  bytes_eqb (get_str F_Type (fresh_fields ty)) ty &&      (* the fresh value carries the name it was created for *)
  match k with KLink => true | _ => okind_eqb (enc_kind ty) (Some k) end.

Definition ftype (k : kind) (f : fid) : option gotype :=
  match find (fun d => fid_beq (fd_fid d) f) (ge_layout E k) with Some d => Some (fd_type d) | None => None end.

(* ------------------------------------------------------------------ encoding *)
(* field values with their item parts already encoded (so that the table interpreter is not recursive) *)
Inductive pfval :=
| PNil                                   (* nil interface / nil slice / nil pointer *)
| PItem (w : wire)
| PItems (l : list wire)
| PEndp (e : list (fid * wire))
| PLeaf (v : fval).

Definition olist {A} (o : option (list A)) : list A := match o with Some l => l | None => [] end.

Definition nlv_len (c : nlv) : nat := length (olist c).

Definition guard_eval (g : gguard) (has : bool) (ov : option pfval) : bool :=
  match g with
  | GTrue => true
  | GHasData => has
  | GNeNil => match ov with
              | None | Some PNil | Some (PLeaf (FNlv None)) => false
              | Some _ => true
              end
  | GLenGt0 => match ov with
               | Some (PLeaf (FStr (_ :: _))) | Some (PLeaf (FNlv (Some (_ :: _)))) | Some (PItems (_ :: _)) => true
               | _ => false
               end
  | GNotZeroTime => match ov with Some (PLeaf (FTime t)) => negb (vtime_is_zero t) | _ => false end
  | GGt0 => match ov with
            | Some (PLeaf (FUint n)) => (0 <? n)%N
            | Some (PLeaf (FInt z)) | Some (PLeaf (FDur z)) | Some (PLeaf (FFloat z)) => (0 <? z)%Z
            | _ => false
            end
  | GNe0 => match ov with
            | Some (PLeaf (FUint n)) => negb (n =? 0)%N
            | Some (PLeaf (FInt z)) | Some (PLeaf (FDur z)) | Some (PLeaf (FFloat z)) => negb (z =? 0)%Z
            | _ => false
            end
  | GIsTrue => match ov with Some (PLeaf (FBool b)) => b | _ => false end
  | GSumLenGt0 subs =>
      match ov with
      | Some (PLeaf (FSource mt c)) =>
          Nat.ltb 0 (fold_right (fun s acc => (if bytes_eqb s (B "MediaType") then length mt
                                               else if bytes_eqb s (B "Content") then nlv_len c else 0) + acc) 0 subs)
      | Some (PLeaf (FPubKey id owner pem)) =>
          Nat.ltb 0 (fold_right (fun s acc => (if bytes_eqb s (B "ID") then length id
                                               else if bytes_eqb s (B "Owner") then length owner
                                               else if bytes_eqb s (B "PublicKeyPem") then length pem else 0) + acc) 0 subs)
      | _ => false
      end
  | GOther _ => false
  end.

Definition wenc_mime (s : bytes) : wire := match s with [] => WEmpty | _ => WBytes s end.
Definition wenc_nlv (c : nlv) : wire := match c with Some (x :: r) => WKvs (x :: r) | _ => WEmpty end.

(* Source.GobEncode (object.go) *)
Definition wenc_source (mt : bytes) (c : nlv) : wire :=
  let m1 := match mt with [] => [] | _ => [(B "mediaType", wenc_mime mt)] end in
  let m2 := match c with Some (_ :: _) => [(B "content", wenc_nlv c)] | _ => [] end in
  match m1 ++ m2 with [] => WEmpty | m => WMap m end.

Definition iri_nilish (s : bytes) : bool := match s with [] => true | _ => fold_eqb s nil_iri end.

(* PublicKey.GobEncode (actor.go): owner goes through gobEncodeItem, so a nil IRI writes no bytes *)
Definition wenc_pubkey (id owner pem : bytes) : wire :=
  let m1 := match id with [] => [] | _ => [(B "id", wraw id)] end in
  let m2 := match pem with [] => [] | _ => [(B "publicKeyPem", wraw pem)] end in
  let m3 := match owner with [] => [] | _ => [(B "owner", if iri_nilish owner then WEmpty else wraw owner)] end in
  match m1 ++ m2 ++ m3 with [] => WEmpty | m => WMap m end.

(* Endpoints.GobEncode (actor.go): the six items, each under its jsonld term *)
Definition endpoint_key (f : fid) : bytes :=
  match find (fun d => fid_beq (fd_fid d) f) (ge_layout_endpoints E) with Some d => fd_term d | None => [] end.

Fixpoint fget {A} (f : fid) (l : list (fid * A)) : option A :=
  match l with [] => None | (g, v) :: r => if fid_beq f g then Some v else fget f r end.

Definition wenc_endpoints (e : list (fid * wire)) : wire :=
  if ge_endpoints_codec E then
    match flat_map (fun d => match fget (fd_fid d) e with Some w => [(fd_term d, w)] | None => [] end)
                   (ge_layout_endpoints E) with
    | [] => WEmpty
    | m => WMap m
    end
  else WEmpty.

(* one encoder call; [None] is the Go zero value of the field *)
Definition wenc (c : wcodec) (ov : option pfval) : wire :=
  match c, ov with
  | (CwIri | CwType | CwRawBytes), Some (PLeaf (FStr s)) => wraw s
  | (CwMime | CwLangRef), Some (PLeaf (FStr s)) => wenc_mime s
  | CwNlv, Some (PLeaf (FNlv l)) => wenc_nlv l
  | CwTime, Some (PLeaf (FTime t)) => WTime t
  | CwTime, None => WTime vtime_zero
  | CwSource, Some (PLeaf (FSource mt c)) => wenc_source mt c
  | CwEndpoints, Some (PEndp e) => wenc_endpoints e
  | CwPubKey, Some (PLeaf (FPubKey id owner pem)) => wenc_pubkey id owner pem
  | (CwItem | CwItemOrLink), Some (PItem w) => w
  | (CwItem | CwItemOrLink), Some (PItems l) => WList l       (* an ItemCollection field passed as an Item *)
  | CwItems, Some (PItems l) => WList l
  | CwItems, (None | Some PNil) => WList []
  | CwInt64, Some (PLeaf (FDur z)) | CwInt64, Some (PLeaf (FInt z)) => WInt z
  | CwInt64, None => WInt 0
  | CwUint, Some (PLeaf (FUint n)) => WUint n
  | CwUint, None => WUint 0
  | CwFloat, Some (PLeaf (FFloat z)) => WFloat z
  | CwFloat, None => WFloat 0
  | CwBool, Some (PLeaf (FBool b)) => WBool b
  | CwBool, None => WBool false
  | _, _ => WEmpty
  end.

Definition wmap := list (bytes * wire).

(* one statement of a map<T>Properties function *)
Definition wstep (pfs : list (fid * pfval)) (st : wmap * bool) (e : gwentry) : wmap * bool :=
  let '(mm, has) := st in
  match e with
  | GW f key cn gf g flag _ =>
      if guard_eval g has (fget gf pfs) then
        match wcodec_of cn with
        | Some c => (aset key (wenc c (fget f pfs)) mm, has || flag)
        | None => st
        end
      else st
  | GWFlag gf g _ => if guard_eval g has (fget gf pfs) then (mm, true) else st
  | GWDeleg _ _ _ | GWUnrecognised _ _ => st
  end.

Definition gmap (tbl : list gwentry) (pfs : list (fid * pfval)) : wmap * bool :=
  fold_left (wstep pfs) tbl ([], false).

(* T.GobEncode: nothing at all when no statement set hasData *)
Definition enc_obj (k : kind) (pfs : list (fid * pfval)) : wire :=
  let '(mm, has) := gmap (wtable k) pfs in if has then WMap mm else WEmpty.

Definition pfs_type (pfs : list (fid * pfval)) : bytes :=
  match fget F_Type pfs with Some (PLeaf (FStr s)) => s | _ => [] end.

(* gobEncodeItem on a struct: links by Go type, everything else by type name *)
Definition enc_struct (k : kind) (pfs : list (fid * pfval)) : wire :=
  match k with
  | KLink => enc_obj KLink pfs
  | _ =>
      match enc_kind (pfs_type pfs) with
      | Some k' => if kind_beq k' k then enc_obj k pfs
                   else match k' with KObject => enc_obj KObject pfs | _ => WEmpty end   (* else: not modelled *)
      | None => WEmpty
      end
  end.

Definition wenc_iris (l : list bytes) : wire :=
  match l with [] => WEmpty | _ => WList (map wraw l) end.

Fixpoint genc (i : item) : wire :=
  if is_nil i then WEmpty else
  match i with
  | INil | ITNil _ => WEmpty
  | IIri false s => wraw s
  | IIri true s => if ge_ptr_iri E then wraw s else WEmpty
  | IIris _ l =>
      (* gobEncodeIRIs, then - IRIs also being an item collection - gobEncodeItems into the same buffer *)
      WCat (WOpaque (wenc_iris (olist l))) (WList (map wraw (olist l)))
  | IItems _ None => WList []
  | IItems _ (Some l) =>
      WList ((fix go (l : list item) : list wire := match l with [] => [] | x :: r => genc x :: go r end) l)
  | IObj _ k fs =>
      enc_struct k ((fix go (fs : list (fid * fval)) : list (fid * pfval) :=
                       match fs with [] => [] | (f, v) :: r => (f, pre_fval v) :: go r end) fs)
  end
with pre_fval (v : fval) : pfval :=
  match v with
  | FItem INil => PNil
  | FItem i => PItem (genc i)
  | FItems None => PNil
  | FItems (Some l) =>
      PItems ((fix go (l : list item) : list wire := match l with [] => [] | x :: r => genc x :: go r end) l)
  | FEndpoints None => PNil
  | FEndpoints (Some e) =>
      PEndp ((fix go (e : list (fid * item)) : list (fid * wire) :=
                match e with [] => [] | (f, x) :: r => (f, genc x) :: go r end) e)
  | _ => PLeaf v
  end.

Definition pre_fields (fs : list (fid * fval)) : list (fid * pfval) :=
  (fix go (fs : list (fid * fval)) : list (fid * pfval) :=
     match fs with [] => [] | (f, v) :: r => (f, pre_fval v) :: go r end) fs.

(* T.GobEncode / T.MarshalBinary *)
Definition genc_k (k : kind) (fs : list (fid * fval)) : wire := enc_obj k (pre_fields fs).
(* gobEncodeItems *)
Definition genc_items (l : list item) : wire := WList (map genc l).

(* which values the encoder model covers: every struct's type name selects its own kind, the Object
   view of it, or nothing at all (name not listed) *)
Definition enc_dispatch_modelled (k : kind) (ty : bytes) : bool :=
  match k with
  | KLink => true
  | _ => negb (bytes_eqb ty iri_type) &&
         match enc_kind ty with
         | Some k' => kind_beq k' k || kind_beq k' KObject
         | None => negb (sw_mentions (ge_sw_enc E) ty)
         end
  end.

Fixpoint gob_modelled (i : item) : bool :=
  match i with
  | IObj _ k fs =>
      enc_dispatch_modelled k (get_str F_Type fs) &&
      (fix go (fs : list (fid * fval)) : bool :=
         match fs with [] => true | (_, v) :: r => gob_modelled_fval v && go r end) fs
  | IItems _ (Some l) => (fix go (l : list item) : bool := match l with [] => true | x :: r => gob_modelled x && go r end) l
  | _ => true
  end
with gob_modelled_fval (v : fval) : bool :=
  match v with
  | FItem i => gob_modelled i
  | FItems (Some l) => (fix go (l : list item) : bool := match l with [] => true | x :: r => gob_modelled x && go r end) l
  | FEndpoints (Some e) =>
      (fix go (e : list (fid * item)) : bool := match e with [] => true | (_, x) :: r => gob_modelled x && go r end) e
  | _ => true
  end.

Definition gob_modelled_fields (fs : list (fid * fval)) : bool := forallb (fun p => gob_modelled_fval (snd p)) fs.

(* ------------------------------------------------------------------ decoding *)
Fixpoint omapM {A B} (f : A -> outcome B) (l : list A) : outcome (list B) :=
  match l with
  | [] => Ok []
  | x :: r => obind (f x) (fun y => obind (omapM f r) (fun ys => Ok (y :: ys)))
  end.

Definition cur_nlv (cur : option fval) : nlv := match cur with Some (FNlv l) => l | _ => None end.

(* n.GobDecode(data) on an existing list: appends *)
Definition rdec_nlv_method (cur : nlv) (w : wire) : outcome nlv :=
  match w with
  | WEmpty => Ok cur
  | _ => obind (gd_kvs w) (fun l => Ok (match l with [] => cur | _ => Some (olist cur ++ l) end))
  end.

Definition rdec_mime (cur : bytes) (w : wire) : outcome bytes :=
  match w with WEmpty => Ok cur | _ => gd_bytes w end.

(* Source.GobDecode *)
Definition rdec_source (cur : option fval) (w : wire) : outcome fval :=
  let '(mt0, c0) := match cur with Some (FSource mt c) => (mt, c) | _ => ([], None) end in
  match w with
  | WEmpty => Ok (FSource mt0 c0)
  | _ =>
      obind (gd_map w) (fun mm =>
      obind (match aget (B "mediaType") mm with Some r => rdec_mime mt0 r | None => Ok mt0 end) (fun mt =>
      obind (match aget (B "content") mm with Some r => rdec_nlv_method c0 r | None => Ok c0 end) (fun c =>
      Ok (FSource mt c))))
  end.

(* PublicKey.GobDecode *)
Definition rdec_pubkey (cur : option fval) (w : wire) : outcome fval :=
  let '(id0, ow0, pem0) := match cur with Some (FPubKey a b c) => (a, b, c) | _ => ([], [], []) end in
  match w with
  | WEmpty => Ok (FPubKey id0 ow0 pem0)
  | _ =>
      obind (gd_map w) (fun mm =>
      Ok (FPubKey (match aget (B "id") mm with Some r => wire_bytes_or_garbage r | None => id0 end)
                  (match aget (B "owner") mm with Some r => wire_bytes_or_garbage r | None => ow0 end)
                  (match aget (B "publicKeyPem") mm with Some r => wire_bytes_or_garbage r | None => pem0 end)))
  end.

Section Dec.
Variable rec : wire -> outcome item.     (* gobDecodeItem on a nested byte string *)

(* gobDecodeItems / tryDecodeItems *)
Definition dec_items (w : wire) : outcome (list item) := obind (gd_list w) (omapM rec).

(* gobDecodeEndpoints: a fresh Endpoints, the six items read from their keys *)
Fixpoint dec_endpoint_fields (ds : list fdecl) (mm : wmap) : outcome (list (fid * item)) :=
  match ds with
  | [] => Ok []
  | d :: r =>
      match aget (fd_term d) mm with
      | Some raw => obind (rec raw) (fun i => obind (dec_endpoint_fields r mm) (fun l => Ok ((fd_fid d, i) :: l)))
      | None => dec_endpoint_fields r mm
      end
  end.

Definition rdec_endpoints_fn (w : wire) : outcome fval :=
  if ge_endpoints_codec E then
    match w with
    | WEmpty => Ok (FEndpoints (Some []))
    | _ => obind (gd_map w) (fun mm => obind (dec_endpoint_fields (ge_layout_endpoints E) mm) (fun l => Ok (FEndpoints (Some l))))
    end
  else Ok (FEndpoints (Some [])).

Definition rdec (c : rcodec) (cur : option fval) (w : wire) : outcome fval :=
  match c with
  | CrIri | CrType | CrString => Ok (FStr (wire_bytes_or_garbage w))
  | CrMime | CrLangRef =>
      obind (rdec_mime (match cur with Some (FStr s) => s | _ => [] end) w) (fun s => Ok (FStr s))
  | CrNlvMethod => obind (rdec_nlv_method (cur_nlv cur) w) (fun l => Ok (FNlv l))
  | CrNlvFn => obind (rdec_nlv_method (Some []) w) (fun l => Ok (FNlv l))
  | CrTime => match w with WTime t => Ok (FTime t) | _ => Err end
  | CrSource => rdec_source cur w
  | CrEndpointsMethod =>
      (* Endpoints.GobDecode called through the field: the pinned code ignores input and (nil) receiver *)
      if ge_endpoints_codec E then
        match cur with
        | Some (FEndpoints (Some _)) => rdec_endpoints_fn w   (* not used by the tables of either tree *)
        | _ => Panic NilDeref
        end
      else Ok (match cur with Some v => v | None => FEndpoints None end)
  | CrEndpointsFn => rdec_endpoints_fn w
  | CrPubKey => rdec_pubkey cur w
  | CrItem => obind (rec w) (fun i => Ok (FItem i))
  | CrItems => obind (dec_items w) (fun l => Ok (FItems (Some l)))
  | CrDuration => obind (gd_int w) (fun z => Ok (FDur z))
  | CrInt64 => obind (gd_int w) (fun z => Ok (FInt z))
  | CrUint => obind (gd_uint w) (fun n => Ok (FUint n))
  | CrFloat => obind (gd_float w) (fun z => Ok (FFloat z))
  | CrBool => obind (gd_bool w) (fun b => Ok (FBool b))
  end.

(* one statement of an unmap<T>Properties function *)
Definition rstep (mm : wmap) (st : outcome (list (fid * fval))) (e : grentry) : outcome (list (fid * fval)) :=
  obind st (fun fs =>
  match e with
  | GR f key cn _ =>
      match aget key mm with
      | None => Ok fs
      | Some raw =>
          match rcodec_of cn with
          | Some c => obind (rdec c (getf f fs) raw) (fun v => Ok (setf f v fs))
          | None => Ok fs
          end
      end
  | GRDeleg _ _ _ | GRUnrecognised _ _ => Ok fs
  end).

Definition gunmap (tbl : list grentry) (mm : wmap) (init : list (fid * fval)) : outcome (list (fid * fval)) :=
  fold_left (rstep mm) tbl (Ok init).

(* struct order, as a Go value prints *)
Definition canon_fields (k : kind) (fs : list (fid * fval)) : list (fid * fval) :=
  flat_map (fun d => match getf (fd_fid d) fs with Some v => [(fd_fid d, v)] | None => [] end) (ge_layout E k).

(* the object branch of gobDecodeItem *)
Definition dec_object (mm : wmap) : outcome item :=
  let typ := match aget (B "type") mm with Some r => wire_bytes_or_garbage r | None => [] end in
  match typer_kind typ with
  | None => Err
  | Some kc =>
      let init := fresh_fields typ in
      let ty0 := get_str F_Type init in           (* it.GetType() of the fresh value *)
      match dec_kind ty0 with
      | Some k =>
          if kind_beq k kc
          then obind (gunmap (rflatten flatten_fuel (dec_fn_item ty0)) mm init) (fun fs => Ok (IObj true k (canon_fields k fs)))
          else Err                                  (* On<K> of another struct: not modelled *)
      | None => Ok (IObj true kc (canon_fields kc init))   (* the switch has no case: returned as created *)
      end
  end.

(* IRIs.GobDecode *)
Fixpoint dec_iris (w : wire) : outcome (list bytes) :=
  match w with
  | WEmpty => Ok []
  | WOpaque i | WCat (WOpaque i) _ => dec_iris i
  | WList l | WCat (WList l) _ =>
      omapM (fun x => match wire_bytes x with Some b => Ok b | None => Err end) l
  | _ => Err
  end.

Definition dec_step (w : wire) : outcome item :=
  match dec_items w with
  | Ok l => Ok (IItems false (Some l))
  | _ =>
      match dec_iris w with
      | Ok l => Ok (IIris false (Some l))
      | _ =>
          let raw := Ok (IIri false (wire_bytes_or_garbage w)) in
          match gd_map w with
          | Ok mm =>
              if ge_any_map_is_object E || (match aget (B "type") mm with Some _ => true | None => false end)
                 || (match aget (B "id") mm with Some _ => true | None => false end)
              then dec_object mm else raw
          | _ => raw
          end
      end
  end.
End Dec.

Fixpoint dec_fuel (n : nat) (w : wire) : outcome item :=
  match n with
  | O => OutOfFuel
  | S n' => dec_step (dec_fuel n') w
  end.

(* gobDecodeItem / GobDecode *)
Definition gdec (w : wire) : outcome item := dec_fuel (S (wire_depth w)) w.

(* (T).GobDecode / UnmarshalBinary into a zero value *)
Definition gdec_k (k : kind) (w : wire) : outcome (list (fid * fval)) :=
  match w with
  | WEmpty => Ok []
  | _ => obind (gd_map w) (fun mm =>
         obind (gunmap (dec_fuel (S (wire_depth w))) (rtable_method k) mm []) (fun fs => Ok (canon_fields k fs)))
  end.

(* gobDecodeItems *)
Definition gdec_items (w : wire) : outcome (list item) := dec_items (dec_fuel (S (wire_depth w))) w.

(* did the model have to write the garbage marker somewhere in a decoded value *)
Fixpoint item_has_garbage (i : item) : bool :=
  match i with
  | IIri _ s => bytes_eqb s gob_garbage
  | IObj _ _ fs =>
      (fix go (fs : list (fid * fval)) : bool :=
         match fs with [] => false | (_, v) :: r => fval_has_garbage v || go r end) fs
  | IItems _ (Some l) => (fix go (l : list item) : bool := match l with [] => false | x :: r => item_has_garbage x || go r end) l
  | IIris _ (Some l) => existsb (fun s => bytes_eqb s gob_garbage) l
  | _ => false
  end
with fval_has_garbage (v : fval) : bool :=
  match v with
  | FItem i => item_has_garbage i
  | FItems (Some l) => (fix go (l : list item) : bool := match l with [] => false | x :: r => item_has_garbage x || go r end) l
  | FStr s => bytes_eqb s gob_garbage
  | FPubKey a b c => bytes_eqb a gob_garbage || bytes_eqb b gob_garbage || bytes_eqb c gob_garbage
  | FEndpoints (Some e) =>
      (fix go (e : list (fid * item)) : bool := match e with [] => false | (_, x) :: r => item_has_garbage x || go r end) e
  | _ => false
  end.

(* comparison used by the correspondence check: where the model wrote the marker the real code holds
   stream bytes the abstraction does not know; such cases are counted, not compared *)
Definition dec_agrees (m o : outcome item) : bool :=
  outcome_eqb item_eqb m o || match m with Ok i => item_has_garbage i | _ => false end.

(* wires on which the decoder model speaks: no string is made out of stream bytes the abstraction does not know *)
Fixpoint wire_modelled (w : wire) : bool :=
  match w with
  | WList l => (fix go (l : list wire) : bool := match l with [] => true | x :: r => wire_modelled x && go r end) l
  | WMap m =>
      (fix go (m : list (bytes * wire)) : bool :=
         match m with [] => true | (_, x) :: r => wire_modelled x && go r end) m
  | WOpaque i => wire_modelled i
  | WCat a b => wire_modelled a && wire_modelled b
  | WBytes _ | WKvs _ | WInt _ | WUint _ | WFloat _ | WBool _ | WTime _ => true
  | WEmpty | WRaw _ => true
  end.

End WithEnv.
