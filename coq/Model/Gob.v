(* The gob codec (encoding_gob.go, decoding_gob.go and the GobEncode/GobDecode methods) over an abstract,
   type-discriminating wire (DESIGN 2.4).  Definitions only.

   encoding/gob itself is external.  What the model assumes about it (validated by harness/c03.go
   against the real package on every run):
     g1  encode/decode of each leaf Go type ([]byte, [][]byte, map[string][]byte, []kv, int64, uint,
         float64, bool, an opaque GobEncoder value) is the identity;
     g2  a stream of one of those types does not decode as any of the others;
     g3  raw bytes (an IRI, a type name, a PEM block, a unit) are not a gob stream of any shape;
     g4  time.Time.GobEncode/GobDecode preserve instant, nanoseconds and zone offset.
   The per-type property tables are NOT modelled by hand: gmap / gunmap interpret the tables that the
   translator regenerates from the source (Gen/GobW.v, Gen/GobR.v), passed in through [gob_env].
   The same holds for the three leaf structs that are property maps of their own (Source, PublicKey,
   Endpoints: the statements of T.GobEncode / ( *T).GobDecode are generated as gobw_leaf / gobr_leaf and
   interpreted by the same gmap / gunmap, one level down: [wenc0] / [rdec0] are the codecs that do not
   open a nested map) and for the order in which gobDecodeItem tries the shapes (gob_sniff).
   Builder b43: the one-call leaf codecs (GobEncode / GobDecode of IRI, ActivityVocabularyType, MimeType,
   LangRef, Content, NaturalLanguageValues, LangRefValue, IRIs; the helpers gobEncodeInt64 .. gobDecodeEndpoints)
   are interpreted from their generated statement lists too (gobw_codecs / gobr_codecs, [lw_run] / [lr_run]);
   the closed forms they had before ([wenc0c], [rdec0c], [dec_iris] ..) are kept and PROVED equal to the
   interpreters for every table set satisfying [codecs_ok] of Model/GobWhole.v (Proofs/GobCodecP.v);
   likewise the body of gobEncodeItem (gob_enc_item, [genc]) and what GetItemByType presets
   (gob_typer_presets, [fresh_fields]). *)
From AP.Model Require Import Prelude Vocab Bytes Layout Pred Dispatch GobTables.

(* ------------------------------------------------------------------ the wire *)
Inductive wire :=
| WEmpty                                   (* no bytes *)
| WRaw (b : bytes)                         (* non-empty bytes that are not a gob stream (g3) *)
| WBytes (b : bytes)                       (* gob stream of a []byte *)
| WList (l : list wire)                    (* gob stream of a [][]byte; every element is a byte string *)
| WMap (m : list (bytes * wire))           (* gob stream of a map[string][]byte *)
| WKvs (l : list (bytes * bytes))          (* gob stream of a []kv *)
| WKv (k v : bytes)                        (* gob stream of one kv struct (LangRefValue.GobEncode) *)
| WOpaque (inner : wire)                   (* gob stream of a GobEncoder value; inner = what GobEncode returned *)
| WInt (z : Z) | WUint (n : N) | WFloat (micro : Z) | WBool (b : bool)
| WTime (t : vtime)                        (* time.Time.MarshalBinary: not a gob stream *)
| WCat (a b : wire).                       (* two streams one after the other; a decoder reads the first *)

Fixpoint aget {A} (k : bytes) (m : list (bytes * A)) : option A :=
  match m with
  | [] => None
  | (k', v) :: r => if bytes_eqb k k' then Some v else aget k r
  end.

(* mm[k] = v *)
Fixpoint aset {A} (k : bytes) (v : A) (m : list (bytes * A)) : list (bytes * A) :=
  match m with
  | [] => [(k, v)]
  | (k', v') :: r => if bytes_eqb k k' then (k, v) :: r else (k', v') :: aset k v r
  end.

Fixpoint wire_eqb (a b : wire) {struct a} : bool :=
  match a, b with
  | WEmpty, WEmpty => true
  | WRaw x, WRaw y => bytes_eqb x y
  | WBytes x, WBytes y => bytes_eqb x y
  | WList l, WList l' =>
      (fix go (x y : list wire) : bool :=
         match x, y with
         | [], [] => true
         | i :: x', j :: y' => wire_eqb i j && go x' y'
         | _, _ => false
         end) l l'
  | WMap m, WMap m' =>
      Nat.eqb (length m) (length m') &&
      (fix go (x : list (bytes * wire)) : bool :=
         match x with
         | [] => true
         | (k, w) :: x' => match aget k m' with Some w' => wire_eqb w w' | None => false end && go x'
         end) m
  | WKvs l, WKvs l' => list_eqb (pair_eqb bytes_eqb bytes_eqb) l l'
  | WKv k v, WKv k' v' => bytes_eqb k k' && bytes_eqb v v'
  | WOpaque i, WOpaque j => wire_eqb i j
  | WInt x, WInt y => (x =? y)%Z
  | WUint x, WUint y => (x =? y)%N
  | WFloat x, WFloat y => (x =? y)%Z
  | WBool x, WBool y => Bool.eqb x y
  | WTime x, WTime y => vtime_eqb x y
  | WCat a1 a2, WCat b1 b2 => wire_eqb a1 b1 && wire_eqb a2 b2
  | _, _ => false
  end.

Fixpoint wire_depth (w : wire) : nat :=
  match w with
  | WList l => S ((fix go (l : list wire) : nat := match l with [] => 0 | x :: r => Nat.max (wire_depth x) (go r) end) l)
  | WMap m => S ((fix go (m : list (bytes * wire)) : nat :=
                    match m with [] => 0 | (_, x) :: r => Nat.max (wire_depth x) (go r) end) m)
  | WOpaque i => S (wire_depth i)
  | WCat a b => S (Nat.max (wire_depth a) (wire_depth b))
  | _ => 1
  end.

Definition wraw (b : bytes) : wire := match b with [] => WEmpty | _ => WRaw b end.

(* the bytes of a wire, when the abstraction knows them *)
Definition wire_bytes (w : wire) : option bytes :=
  match w with WEmpty => Some [] | WRaw b => Some b | _ => None end.

(* where the real code turns arbitrary stream bytes into a string, the model writes this marker *)
Definition gob_garbage : bytes := B "<gob stream bytes>".
Definition wire_bytes_or_garbage (w : wire) : bytes :=
  match wire_bytes w with Some b => b | None => gob_garbage end.

(* typed decodes (gob.NewDecoder(bytes.NewReader(data)).Decode(&v)): g1, g2, g3; empty input is io.EOF *)
Definition wfirst (w : wire) : wire := match w with WCat a _ => a | _ => w end.
Definition gd_list (w : wire) : outcome (list wire) := match wfirst w with WList l => Ok l | _ => Err end.
Definition gd_map (w : wire) : outcome (list (bytes * wire)) := match wfirst w with WMap m => Ok m | _ => Err end.
Definition gd_kvs (w : wire) : outcome (list (bytes * bytes)) := match wfirst w with WKvs l => Ok l | _ => Err end.
Definition gd_kv (w : wire) : outcome (bytes * bytes) := match wfirst w with WKv k v => Ok (k, v) | _ => Err end.
Definition gd_bytes (w : wire) : outcome bytes := match wfirst w with WBytes b => Ok b | _ => Err end.
Definition gd_int (w : wire) : outcome Z := match wfirst w with WInt z => Ok z | _ => Err end.
Definition gd_uint (w : wire) : outcome N := match wfirst w with WUint n => Ok n | _ => Err end.
Definition gd_float (w : wire) : outcome Z := match wfirst w with WFloat z => Ok z | _ => Err end.
Definition gd_bool (w : wire) : outcome bool := match wfirst w with WBool b => Ok b | _ => Err end.

(* ------------------------------------------------------------------ codec names of the tables *)
Inductive wcodec :=
| CwIri | CwType | CwMime | CwLangRef | CwRawBytes | CwNlv | CwTime | CwSource | CwEndpoints | CwPubKey
| CwItem | CwItems | CwItemOrLink | CwInt64 | CwUint | CwFloat | CwBool.
Scheme Equality for wcodec.

Definition wcodec_names : list (bytes * wcodec) :=
  [ (B "IRI.GobEncode", CwIri); (B "ActivityVocabularyType.GobEncode", CwType); (B "MimeType.GobEncode", CwMime);
    (B "LangRef.GobEncode", CwLangRef); (B "[]byte", CwRawBytes); (B "NaturalLanguageValues.GobEncode", CwNlv);
    (B "time.Time.GobEncode", CwTime); (B "Source.GobEncode", CwSource); (B "*Endpoints.GobEncode", CwEndpoints);
    (B "PublicKey.GobEncode", CwPubKey); (B "gobEncodeItem", CwItem); (B "gobEncodeItems", CwItems);
    (B "gobEncodeItemOrLink", CwItemOrLink); (B "gobEncodeInt64", CwInt64); (B "gobEncodeUint", CwUint);
    (B "gobEncodeFloat64", CwFloat); (B "gobEncodeBool", CwBool) ].

Inductive rcodec :=
| CrIri | CrType | CrMime | CrLangRef | CrString | CrNlvMethod | CrNlvFn | CrTime | CrSource
| CrEndpointsMethod | CrEndpointsFn | CrPubKey | CrItem | CrItems | CrDuration | CrInt64 | CrUint | CrFloat | CrBool.
Scheme Equality for rcodec.

Definition rcodec_names : list (bytes * rcodec) :=
  [ (B "IRI.GobDecode", CrIri); (B "ActivityVocabularyType.GobDecode", CrType); (B "MimeType.GobDecode", CrMime);
    (B "LangRef.GobDecode", CrLangRef); (B "string", CrString); (B "NaturalLanguageValues.GobDecode", CrNlvMethod);
    (B "gobDecodeNaturalLanguageValues", CrNlvFn); (B "time.Time.GobDecode", CrTime); (B "Source.GobDecode", CrSource);
    (B "*Endpoints.GobDecode", CrEndpointsMethod); (B "gobDecodeEndpoints", CrEndpointsFn);
    (B "PublicKey.GobDecode", CrPubKey); (B "gobDecodeItem", CrItem); (B "gobDecodeItems", CrItems);
    (B "gobDecodeDuration", CrDuration); (B "gobDecodeInt64", CrInt64); (B "gobDecodeUint", CrUint);
    (B "gobDecodeFloat64", CrFloat); (B "gobDecodeBool", CrBool) ].

Definition wcodec_of (n : bytes) : option wcodec := aget n wcodec_names.
Definition rcodec_of (n : bytes) : option rcodec := aget n rcodec_names.

(* ------------------------------------------------------------------ one-call leaf codecs, interpreted
   The bodies of the GobEncode / GobDecode methods of the leaf types and of the one-call helper functions
   are not modelled by hand: the translator emits them statement by statement (glw / glr of
   Model/GobTables.v, Gen/GobW.gobw_codecs, Gen/GobR.gobr_codecs) and the two interpreters below run them.
   What a codec handles is a leaf value: *)
Inductive lval :=
| LvStr (s : bytes)                        (* IRI, ActivityVocabularyType, MimeType, LangRef, Content, []byte *)
| LvNlv (c : nlv)                          (* NaturalLanguageValues; None = the nil slice *)
| LvKv (k v : bytes)                       (* LangRefValue: (Ref, Value); the struct kv: (K, V) *)
| LvStrs (l : list bytes)                  (* IRIs, [][]byte *)
| LvInt (z : Z) | LvUint (n : N) | LvFloat (micro : Z) | LvBool (b : bool).

(* what a GobEncode returns: no bytes, the bytes of a string as they are, or the gob stream of a value *)
Inductive lw_result := LwrEmpty | LwrRaw (s : bytes) | LwrGob (v : lval) | LwrStuck.

Definition n_ref : bytes := B "Ref".
Definition n_value : bytes := B "Value".
Definition n_K : bytes := B "K".
Definition n_V : bytes := B "V".
Definition n_local : bytes := B "local".
Definition n_recv : bytes := B "recv".
Definition n_encode : bytes := B "Encode".

(* x.Ref / x.Value of a LangRefValue *)
Definition lrv_sel (s : bytes) (e : bytes * bytes) : bytes :=
  if bytes_eqb s n_ref then fst e else if bytes_eqb s n_value then snd e else [].
(* m.K / m.V of a kv *)
Definition kv_sel (s : bytes) (e : bytes * bytes) : bytes :=
  if bytes_eqb s n_K then fst e else if bytes_eqb s n_V then snd e else [].

Definition is_nilb {A} (l : list A) : bool := match l with [] => true | _ => false end.

(* len(x.<s>) == 0; s = "": the receiver itself *)
Definition sel_len0 (s : bytes) (v : lval) : bool :=
  match s, v with
  | [], LvStr x => is_nilb x
  | [], LvNlv c => is_nilb (match c with Some l => l | None => [] end)
  | [], LvStrs l => is_nilb l
  | _ :: _, LvKv a b => is_nilb (lrv_sel s (a, b))
  | _, _ => false
  end.

Record lw_st := mk_lw_st { lw_buf : bool; lw_enc : bool; lw_local : option lval; lw_out : option lval }.
Definition lw_st0 : lw_st := mk_lw_st false false None None.

(* the helper gobEncodeStringLikeType(g, s) is `if err := g.Encode(s); err != nil { return err }; return nil` *)
Definition helper_encodes (tbl : list glw) : bool :=
  match tbl with [LwHelperEncode _; LwHelperRetNil _] => true | _ => false end.

(* gg.Encode(T(x)): a conversion of the value on its way into the stream (builder b50; the translator keeps it as the
   source "T(recv)" of the LwEncode entry).  The narrowing of an unsigned number to 32 bits is given its meaning, so
   that a table changed that way computes the truncated value; any other source is not modelled. *)
Definition conv_src (src : bytes) (v : lval) : option lval :=
  if bytes_eqb src (B "uint32(recv)") then
    match v with LvUint n => Some (LvUint (n mod 4294967296)%N) | _ => None end
  else None.

Section LeafWrite.
Variable wtbl : bytes -> list glw.          (* the write tables, by name *)

Definition lw_step (v : lval) (st : lw_st) (s : glw) : lw_st + lw_result :=
  match s with
  | LwRetEmptyIfLen0 sels _ =>
      match sels with
      | [] => inr LwrStuck
      | _ => if forallb (fun s => sel_len0 s v) sels then inr LwrEmpty else inl st
      end
  | LwRetRaw _ => inr (match v with LvStr x => LwrRaw x | _ => LwrStuck end)
  | LwBuffer _ => inl (mk_lw_st true (lw_enc st) (lw_local st) (lw_out st))
  | LwEncoder _ => if lw_buf st then inl (mk_lw_st true true (lw_local st) (lw_out st)) else inr LwrStuck
  | LwMkKvs k vv _ =>
      match v with
      | LvNlv c => inl (mk_lw_st (lw_buf st) (lw_enc st)
                          (Some (LvNlv (Some (map (fun e => (lrv_sel k e, lrv_sel vv e)) (match c with Some l => l | None => [] end)))))
                          (lw_out st))
      | _ => inr LwrStuck
      end
  | LwMkKv k vv _ =>
      match v with
      | LvKv a b => inl (mk_lw_st (lw_buf st) (lw_enc st) (Some (LvKv (lrv_sel k (a, b)) (lrv_sel vv (a, b)))) (lw_out st))
      | _ => inr LwrStuck
      end
  | LwMkByteList _ =>
      match v with
      | LvStrs l => inl (mk_lw_st (lw_buf st) (lw_enc st) (Some (LvStrs l)) (lw_out st))
      | _ => inr LwrStuck
      end
  | LwEncode via src _ =>
      if lw_enc st && (bytes_eqb via n_encode || helper_encodes (wtbl via)) then
        match lw_out st, (if bytes_eqb src n_local then lw_local st else if bytes_eqb src n_recv then Some v else conv_src src v) with
        | None, Some p => inl (mk_lw_st (lw_buf st) (lw_enc st) (lw_local st) (Some p))
        | _, _ => inr LwrStuck
        end
      else inr LwrStuck
  | LwRetBuffer _ =>
      if lw_buf st then inr (match lw_out st with Some p => LwrGob p | None => LwrEmpty end) else inr LwrStuck
  | LwHelperEncode _ | LwHelperRetNil _ => inr LwrStuck
  | LwUnrecognised _ _ => inl st
  end.

Fixpoint lw_run (tbl : list glw) (v : lval) (st : lw_st) : lw_result :=
  match tbl with
  | [] => LwrStuck
  | s :: r => match lw_step v st s with inl st' => lw_run r v st' | inr res => res end
  end.
End LeafWrite.

Definition wire_of_lval (v : lval) : wire :=
  match v with
  | LvStr s => WBytes s
  | LvNlv c => WKvs (match c with Some l => l | None => [] end)
  | LvKv k v => WKv k v
  | LvStrs l => WList (map wraw l)
  | LvInt z => WInt z | LvUint n => WUint n | LvFloat z => WFloat z | LvBool b => WBool b
  end.

Definition wire_of_result (r : lw_result) : wire :=
  match r with
  | LwrEmpty => WEmpty
  | LwrRaw s => wraw s
  | LwrGob v => wire_of_lval v
  | LwrStuck => WRaw gob_garbage
  end.

(* ---- reading.  What gob.NewDecoder(bytes.NewReader(data)).Decode(&L) gives for a local L of Go type [ty] *)
Definition ty_bytes : bytes := B "[]byte".
Definition ty_kvs : bytes := B "[]kv".
Definition ty_kv : bytes := B "kv".
Definition ty_bytelist : bytes := B "[][]byte".
Definition ty_int64 : bytes := B "int64".
Definition ty_duration : bytes := B "time.Duration".
Definition ty_uint : bytes := B "uint".
Definition ty_float64 : bytes := B "float64".
Definition ty_bool : bytes := B "bool".
Definition ty_nlv : bytes := B "NaturalLanguageValues".

Definition gd_typed (ty : bytes) (w : wire) : outcome lval :=
  if bytes_eqb ty ty_bytes then omap LvStr (gd_bytes w)
  else if bytes_eqb ty ty_kvs then omap (fun l => LvNlv (Some l)) (gd_kvs w)
  else if bytes_eqb ty ty_kv then omap (fun p => LvKv (fst p) (snd p)) (gd_kv w)
  else if bytes_eqb ty ty_bytelist then omap (fun l => LvStrs (map wire_bytes_or_garbage l)) (gd_list w)
  else if bytes_eqb ty ty_int64 || bytes_eqb ty ty_duration then omap LvInt (gd_int w)
  else if bytes_eqb ty ty_uint then omap LvUint (gd_uint w)
  else if bytes_eqb ty ty_float64 then omap LvFloat (gd_float w)
  else if bytes_eqb ty ty_bool then omap LvBool (gd_bool w)
  else Err.

(* the zero / freshly made value of a declared local *)
Definition how_make0 : bytes := B "make0".
Definition lv_fresh (how ty : bytes) : option lval :=
  if bytes_eqb ty ty_nlv then Some (LvNlv (if bytes_eqb how how_make0 then Some [] else None)) else None.

Record lr_st := mk_lr_st { lr_ty : option bytes; lr_loc : option lval; lr_cur : lval; lr_dec : bool }.

Definition is_wempty (w : wire) : bool := match w with WEmpty => true | _ => false end.

Section LeafRead.
Variable self : lval -> outcome lval.
      (* Decode(x) into the receiver itself, a GobDecoder: its GobDecode run on the opaque payload of the stream *)
Variable meth : bytes -> lval -> outcome lval.      (* L.GobDecode(data) for a local L (helpers only) *)
Variable w : wire.                                   (* data *)

Definition lr_step (st : lr_st) (s : glr) : lr_st + outcome lval :=
  match s with
  | LrRetNilIfEmpty _ => if is_wempty w then inr (Ok (lr_cur st)) else inl st
  | LrStoreRaw _ => inl (mk_lr_st (lr_ty st) (lr_loc st) (LvStr (wire_bytes_or_garbage w)) (lr_dec st))
  | LrDeclare how ty _ => inl (mk_lr_st (Some ty) (lv_fresh how ty) (lr_cur st) (lr_dec st))
  | LrDecoder _ => inl (mk_lr_st (lr_ty st) (lr_loc st) (lr_cur st) true)
  | LrDecodeLocal _ | LrDecodeLocalErr _ =>
      match lr_ty st with
      | Some ty =>
          match gd_typed ty w with
          | Ok v => inl (mk_lr_st (lr_ty st) (Some v) (lr_cur st) (lr_dec st))
          | _ => inr Err
          end
      | None => inr Err
      end
  | LrTryDecodeRecv _ =>
      match self (lr_cur st) with
      | Ok v => inr (Ok v)
      | _ => inl st
      end
  | LrStoreLocal _ =>
      match lr_loc st with
      | Some v => inl (mk_lr_st (lr_ty st) (lr_loc st) v (lr_dec st))
      | None => inl st
      end
  | LrAppendKvs ref val _ =>
      match lr_loc st, lr_cur st with
      | Some (LvNlv (Some (x :: l))), LvNlv c =>
          inl (mk_lr_st (lr_ty st) (lr_loc st)
                 (LvNlv (Some ((match c with Some c' => c' | None => [] end) ++ map (fun e => (kv_sel ref e, kv_sel val e)) (x :: l))))
                 (lr_dec st))
      | _, _ => inl st
      end
  | LrStoreKv field part _ =>
      match lr_loc st, lr_cur st with
      | Some (LvKv k v), LvKv a b =>
          let x := kv_sel part (k, v) in
          inl (mk_lr_st (lr_ty st) (lr_loc st)
                 (if bytes_eqb field n_ref then LvKv x b else if bytes_eqb field n_value then LvKv a x else LvKv a b) (lr_dec st))
      | _, _ => inl st
      end
  | LrAppendStrs _ =>
      match lr_loc st, lr_cur st with
      | Some (LvStrs l), LvStrs c => inl (mk_lr_st (lr_ty st) (lr_loc st) (LvStrs (c ++ l)) (lr_dec st))
      | _, _ => inl st
      end
  | LrRetNil _ => inr (Ok (lr_cur st))
  | LrRetDecodeParam ty _ => if lr_dec st then inr (match gd_typed ty w with Ok v => Ok v | _ => Err end) else inr Err
  | LrMethodDecode callee _ =>
      match lr_loc st with
      | Some l => match meth callee l with
                  | Ok v => inl (mk_lr_st (lr_ty st) (Some v) (lr_cur st) (lr_dec st))
                  | _ => inr Err
                  end
      | None => inr Err
      end
  | LrRetLocalErr _ => inr (match lr_loc st with Some v => Ok v | None => Err end)
  | LrUnrecognised _ _ => inl st
  end.

Fixpoint lr_run (tbl : list glr) (st : lr_st) : outcome lval :=
  match tbl with
  | [] => Err
  | s :: r => match lr_step st s with inl st' => lr_run r st' | inr res => res end
  end.
End LeafRead.

Definition lr_st0 (cur : lval) : lr_st := mk_lr_st None None cur false.

(* field values with their item parts already encoded (so that the table interpreter is not recursive) *)
Inductive pfval :=
| PNil                                   (* nil interface / nil slice / nil pointer *)
| PItem (w : wire)
| PItems (l : list wire)
| PEndp (e : list (fid * pfval))              (* the fields of an Endpoints struct *)
| PLeaf (v : fval).


(* ------------------------------------------------------------------ gobEncodeItem, interpreted
   The body of gobEncodeItem is not modelled by hand either: Gen/GobW.gob_enc_item lists its statement groups
   in source order and [genc_run] runs them on an item whose nested items are already encoded. *)
Inductive pitem :=
| PiNone                                   (* nil, typed nil *)
| PiIri (ptr : bool) (s : bytes)           (* IRI / *IRI *)
| PiIris (l : list bytes)
| PiItems (ws : list wire)                 (* an item list, members encoded *)
| PiObj (k : kind) (pfs : list (fid * pfval)).

(* b.Write(bytes): two streams one after the other; writing no bytes changes nothing *)
Definition wcat (a b : wire) : wire :=
  match a, b with WEmpty, _ => b | _, WEmpty => a | _, _ => WCat a b end.

Definition pred_holds (pred : bytes) (x : pitem) : bool :=
  if bytes_eqb pred (B "IsIRI") then match x with PiIri _ _ => true | _ => false end
  else if bytes_eqb pred (B "IsIRIs") then match x with PiIris _ => true | _ => false end
  else if bytes_eqb pred (B "IsItemCollection") then match x with PiItems _ | PiIris _ => true | _ => false end
  else if bytes_eqb pred (B "IsLink") then match x with PiObj KLink _ => true | _ => false end
  else if bytes_eqb pred (B "IsObject") then match x with PiObj KLink _ => false | PiObj _ _ => true | _ => false end
  else false.

Section EncItem.
Variable enc_iris : list bytes -> wire.                        (* IRIs.GobEncode (inside gob.Encode of a GobEncoder) *)
Variable enc_link : list (fid * pfval) -> wire.                (* Link.GobEncode *)
Variable enc_switch : kind -> list (fid * pfval) -> wire.      (* switch it.GetType() { .. } of gobEncodeItem *)

Definition callee_result (callee : bytes) (x : pitem) : wire :=
  if bytes_eqb callee (B "gobEncodeIRIs") then match x with PiIris l => WOpaque (enc_iris l) | _ => WRaw gob_garbage end
  else if bytes_eqb callee (B "gobEncodeItems") then
    match x with PiItems ws => WList ws | PiIris l => WList (map wraw l) | _ => WRaw gob_garbage end
  else if bytes_eqb callee (B "Link.GobEncode") then match x with PiObj KLink pfs => enc_link pfs | _ => WRaw gob_garbage end
  else WRaw gob_garbage.

Definition genc_step (nil : bool) (x : pitem) (acc : wire) (s : genc_stmt) : wire + wire :=
  match s with
  | GENilEmpty _ => if nil then inr WEmpty else inl acc
  | GEIriBlock byv byp fb _ =>
      match x with
      | PiIri ptr s => if (if ptr then byp else byv) then inr (wraw s) else if fb then inr WEmpty else inl acc
      | _ => inl acc
      end
  | GEBuffer _ => inl acc
  | GEOn pred _ callee _ => if pred_holds pred x then inl (wcat acc (callee_result callee x)) else inl acc
  | GESwitch pred _ =>
      if pred_holds pred x then match x with PiObj k pfs => inl (wcat acc (enc_switch k pfs)) | _ => inl acc end else inl acc
  | GEReturn _ => inr acc
  | GEUnrecognised _ _ => inl acc
  end.

Fixpoint genc_run (steps : list genc_stmt) (nil : bool) (x : pitem) (acc : wire) : wire :=
  match steps with
  | [] => WRaw gob_garbage
  | s :: r => match genc_step nil x acc s with inl a => genc_run r nil x a | inr w => w end
  end.
End EncItem.

(* ------------------------------------------------------------------ environment: what is read from the source *)
Record gob_env := mk_gob_env {
  ge_wfuncs : list (bytes * option kind * list gwentry);      (* Gen/GobW.gobw_funcs *)
  ge_rfuncs : list (bytes * option kind * list grentry);      (* Gen/GobR.gobr_funcs *)
  ge_enc_methods : list (kind * list bytes);                   (* calls in T.GobEncode *)
  ge_dec_methods : list (kind * list bytes);                   (* calls in T.GobDecode *)
  ge_sw_enc : sw_table; ge_sw_enc_default : bytes;             (* switch of gobEncodeItem *)
  ge_sw_dec : sw_table; ge_sw_dec_default : bytes;             (* switch of gobDecodeItem *)
  ge_sw_typer : sw_table; ge_sw_typer_default : bytes;         (* switch of GetItemByType = ItemTyperFunc *)
  ge_layout : kind -> list fdecl;                              (* Gen/Layout.layout_of *)
  ge_layout_endpoints : list fdecl;
  ge_leaf_w : list (bytes * (list gwentry * list bytes));      (* Gen/GobW.gobw_leaf: statements and frame of T.GobEncode, T a leaf struct *)
  ge_leaf_r : list (bytes * (list grentry * list bytes));      (* Gen/GobR.gobr_leaf: statements and frame of ( *T).GobDecode *)
  ge_leaf_layouts : list (bytes * list fdecl);                 (* Gen/GobW.gob_leaf_layouts *)
  ge_sniff : list gsniff;                                      (* Gen/GobR.gob_sniff: the shapes gobDecodeItem tries, in order *)
  ge_codecs_w : list (bytes * list glw);                       (* Gen/GobW.gobw_codecs: the one-call encoders, statement by statement *)
  ge_codecs_r : list (bytes * list glr);                       (* Gen/GobR.gobr_codecs: the one-call decoders *)
  ge_enc_item : list genc_stmt;                                (* Gen/GobW.gob_enc_item: the body of gobEncodeItem *)
  ge_typer_presets : list (bytes * list gpreset);              (* Gen/GobR.gob_typer_presets: what each case of GetItemByType creates *)
  (* hand-modelled code, as repaired (true) or as pinned (false) *)
  ge_endpoints_codec : bool         (* Endpoints.GobEncode/GobDecode are property-map codecs (pinned: write and read nothing) *)
}.

Section WithEnv.
Variable E : gob_env.

Fixpoint fn_lookup {A} (n : bytes) (l : list (bytes * option kind * A)) : option (option kind * A) :=
  match l with
  | [] => None
  | (n', k, a) :: r => if bytes_eqb n n' then Some (k, a) else fn_lookup n r
  end.

(* delegations inlined: the statements a call of [fn] executes, in order *)
Fixpoint wflatten (fuel : nat) (fn : bytes) : list gwentry :=
  match fuel with
  | O => [GWUnrecognised (B "delegation chain too deep") fn]
  | S n =>
      match fn_lookup fn (ge_wfuncs E) with
      | None => [GWUnrecognised (B "delegation to an unknown function") fn]
      | Some (_, es) => flat_map (fun e => match e with GWDeleg _ fn' _ => wflatten n fn' | _ => [e] end) es
      end
  end.

Fixpoint rflatten (fuel : nat) (fn : bytes) : list grentry :=
  match fuel with
  | O => [GRUnrecognised (B "delegation chain too deep") fn]
  | S n =>
      match fn_lookup fn (ge_rfuncs E) with
      | None => [GRUnrecognised (B "delegation to an unknown function") fn]
      | Some (_, es) => flat_map (fun e => match e with GRDeleg _ fn' _ => rflatten n fn' | _ => [e] end) es
      end
  end.

Definition flatten_fuel : nat := 8.

Fixpoint kget {A} (k : kind) (l : list (kind * A)) : option A :=
  match l with [] => None | (k', a) :: r => if kind_beq k k' then Some a else kget k r end.

(* the map function T.GobEncode calls: second call of the body (make, map<T>Properties, ...) *)
Definition enc_fn (k : kind) : bytes :=
  match kget k (ge_enc_methods E) with Some (_ :: fn :: _) => fn | _ => [] end.
(* the unmap function (T).GobDecode calls: third call (len, gobDecodeObjectAsMap, unmap<T>Properties) *)
Definition dec_fn_method (k : kind) : bytes :=
  match kget k (ge_dec_methods E) with Some (_ :: _ :: fn :: _) => fn | _ => [] end.

Definition wtable (k : kind) : list gwentry := wflatten flatten_fuel (enc_fn k).
Definition rtable_method (k : kind) : list grentry := rflatten flatten_fuel (dec_fn_method k).

(* dispatch on type names *)
Definition typer_kind (n : bytes) : option kind := tag_kind (sw_lookup (ge_sw_typer E) (ge_sw_typer_default E) n).
Definition enc_kind (n : bytes) : option kind := tag_kind (sw_lookup (ge_sw_enc E) (ge_sw_enc_default E) n).
Definition dec_tag (n : bytes) : bytes := sw_lookup (ge_sw_dec E) (ge_sw_dec_default E) n.
Definition dec_kind (n : bytes) : option kind := tag_kind (dec_tag n).
Definition dec_fn_item (n : bytes) : bytes := match snd (cut_byte x2f (dec_tag n)) with Some f => f | None => [] end.

(* what ItemTyperFunc (GetItemByType) returns for a type name: the fields the expression of the switch case sets,
   read from the source (Gen/GobR.gob_typer_presets: `&T{Type: typ}`, or the body of the constructor called) *)
Definition presets_of (tag : bytes) : list gpreset :=
  match aget tag (ge_typer_presets E) with Some ps => ps | None => [] end.

Definition preset_step (st : bytes * option bytes * list fid) (p : gpreset) : bytes * option bytes * list fid :=
  let '(typ, tset, nl) := st in
  match p with
  | GPTypeDefault _ names d _ => (if in_list names typ then typ else d, tset, nl)      (* if !(L.Contains(typ)) { typ = D } *)
  | GPType _ => (typ, Some typ, nl)                                                  (* Type: typ *)
  | GPNlvNew f _ => (typ, tset, nl ++ [f])                                           (* o.F = NaturalLanguageValuesNew() *)
  | GPUnrecognised _ _ => st
  end.

Definition run_presets (ps : list gpreset) (n : bytes) : list (fid * fval) :=
  let '(_, tset, nl) := fold_left preset_step ps (n, None, []) in
  let base := map (fun f => (f, FNlv (Some []))) nl in
  match tset with Some t => setf F_Type (FStr t) base | None => base end.

Definition fresh_fields (n : bytes) : list (fid * fval) :=
  run_presets (presets_of (sw_lookup (ge_sw_typer E) (ge_sw_typer_default E) n)) n.

(* a type name that makes every switch pick kind [k] *)
Definition type_selects (k : kind) (ty : bytes) : bool :=
  okind_eqb (typer_kind ty) (Some k) && okind_eqb (dec_kind ty) (Some k) && sw_mentions (ge_sw_dec E) ty &&
  bytes_eqb (get_str F_Type (fresh_fields ty)) ty &&      (* the fresh value carries the name it was created for *)
  match k with KLink => true | _ => okind_eqb (enc_kind ty) (Some k) end.

Definition ftype (k : kind) (f : fid) : option gotype :=
  match find (fun d => fid_beq (fd_fid d) f) (ge_layout E k) with Some d => Some (fd_type d) | None => None end.

(* ------------------------------------------------------------------ encoding *)
Definition olist {A} (o : option (list A)) : list A := match o with Some l => l | None => [] end.

Definition nlv_len (c : nlv) : nat := length (olist c).

Definition guard_eval (g : gguard) (has : bool) (ov : option pfval) : bool :=
  match g with
  | GTrue => true
  | GHasData => has
  | GNeNil => match ov with
              | None | Some PNil | Some (PLeaf (FNlv None)) => false
              | Some _ => true
              end
  | GLenGt0 => match ov with
               | Some (PLeaf (FStr (_ :: _))) | Some (PLeaf (FNlv (Some (_ :: _)))) | Some (PItems (_ :: _)) => true
               | _ => false
               end
  | GNotZeroTime => match ov with Some (PLeaf (FTime t)) => negb (vtime_is_zero t) | _ => false end
  | GGt0 => match ov with
            | Some (PLeaf (FUint n)) => (0 <? n)%N
            | Some (PLeaf (FInt z)) | Some (PLeaf (FDur z)) | Some (PLeaf (FFloat z)) => (0 <? z)%Z
            | _ => false
            end
  | GNe0 => match ov with
            | Some (PLeaf (FUint n)) => negb (n =? 0)%N
            | Some (PLeaf (FInt z)) | Some (PLeaf (FDur z)) | Some (PLeaf (FFloat z)) => negb (z =? 0)%Z
            | _ => false
            end
  | GIsTrue => match ov with Some (PLeaf (FBool b)) => b | _ => false end
  | GSumLenGt0 subs =>
      match ov with
      | Some (PLeaf (FSource mt c)) =>
          Nat.ltb 0 (fold_right (fun s acc => (if bytes_eqb s (B "MediaType") then length mt
                                               else if bytes_eqb s (B "Content") then nlv_len c else 0) + acc) 0 subs)
      | Some (PLeaf (FPubKey id owner pem)) =>
          Nat.ltb 0 (fold_right (fun s acc => (if bytes_eqb s (B "ID") then length id
                                               else if bytes_eqb s (B "Owner") then length owner
                                               else if bytes_eqb s (B "PublicKeyPem") then length pem else 0) + acc) 0 subs)
      | _ => false
      end
  | GOther _ => false
  end.

Definition wenc_mime (s : bytes) : wire := match s with [] => WEmpty | _ => WBytes s end.
Definition wenc_nlv (c : nlv) : wire := match c with Some (x :: r) => WKvs (x :: r) | _ => WEmpty end.

Definition iri_nilish (s : bytes) : bool := match s with [] => true | _ => fold_eqb s nil_iri end.

Fixpoint fget {A} (f : fid) (l : list (fid * A)) : option A :=
  match l with [] => None | (g, v) :: r => if fid_beq f g then Some v else fget f r end.

(* one encoder call that does not write a nested property map; [None] is the Go zero value of the field.
   CLOSED FORM (what the interpreted [wenc0] below computes under codecs_ok: Proofs/GobCodecP.wenc0_closed) *)
Definition wenc0c (c : wcodec) (ov : option pfval) : wire :=
  match c, ov with
  | (CwIri | CwType | CwRawBytes), Some (PLeaf (FStr s)) => wraw s
  | (CwMime | CwLangRef), Some (PLeaf (FStr s)) => wenc_mime s
  | CwNlv, Some (PLeaf (FNlv l)) => wenc_nlv l
  | CwTime, Some (PLeaf (FTime t)) => WTime t
  | CwTime, None => WTime vtime_zero
  | (CwItem | CwItemOrLink), Some (PItem w) => w
  | (CwItem | CwItemOrLink), Some (PItems l) => WList l       (* an ItemCollection field passed as an Item *)
  | (CwItem | CwItemOrLink), Some (PLeaf (FStr s)) =>         (* an IRI field passed as an Item: a nil IRI writes no bytes *)
      if iri_nilish s then WEmpty else wraw s
  | CwItems, Some (PItems l) => WList l
  | CwItems, (None | Some PNil) => WList []
  | CwInt64, Some (PLeaf (FDur z)) | CwInt64, Some (PLeaf (FInt z)) => WInt z
  | CwInt64, None => WInt 0
  | CwUint, Some (PLeaf (FUint n)) => WUint n
  | CwUint, None => WUint 0
  | CwFloat, Some (PLeaf (FFloat z)) => WFloat z
  | CwFloat, None => WFloat 0
  | CwBool, Some (PLeaf (FBool b)) => WBool b
  | CwBool, None => WBool false
  | _, _ => WEmpty
  end.


(* names of the one-call encoders (the codec names of the property tables) *)
Definition n_iri_enc : bytes := B "IRI.GobEncode".
Definition n_type_enc : bytes := B "ActivityVocabularyType.GobEncode".
Definition n_mime_enc : bytes := B "MimeType.GobEncode".
Definition n_langref_enc : bytes := B "LangRef.GobEncode".
Definition n_content_enc : bytes := B "Content.GobEncode".
Definition n_nlv_enc : bytes := B "NaturalLanguageValues.GobEncode".
Definition n_lrv_enc : bytes := B "LangRefValue.GobEncode".
Definition n_iris_enc : bytes := B "IRIs.GobEncode".
Definition n_int64_enc : bytes := B "gobEncodeInt64".
Definition n_uint_enc : bytes := B "gobEncodeUint".
Definition n_float_enc : bytes := B "gobEncodeFloat64".
Definition n_bool_enc : bytes := B "gobEncodeBool".
Definition n_strlike_enc : bytes := B "gobEncodeStringLikeType".

Definition codec_w (n : bytes) : list glw :=
  match aget n (ge_codecs_w E) with Some t => t | None => [LwUnrecognised (B "no such encoder") n] end.
(* T.GobEncode() / the helper, on a leaf value *)
Definition lw_exec (n : bytes) (v : lval) : wire := wire_of_result (lw_run codec_w (codec_w n) v lw_st0).

(* gobEncodeItem on a value that is not a struct (no struct encoder is reached) *)
Definition genc_leaf (nil : bool) (x : pitem) : wire :=
  genc_run (fun l => lw_exec n_iris_enc (LvStrs l)) (fun _ => WRaw gob_garbage) (fun _ _ => WRaw gob_garbage) (ge_enc_item E) nil x WEmpty.

(* one encoder call that does not write a nested property map, INTERPRETED from the generated statements *)
Definition wenc0 (c : wcodec) (ov : option pfval) : wire :=
  match c, ov with
  | CwIri, Some (PLeaf (FStr s)) => lw_exec n_iri_enc (LvStr s)
  | CwType, Some (PLeaf (FStr s)) => lw_exec n_type_enc (LvStr s)
  | CwRawBytes, Some (PLeaf (FStr s)) => wraw s               (* []byte(x.F): the conversion is in the statement itself *)
  | CwMime, Some (PLeaf (FStr s)) => lw_exec n_mime_enc (LvStr s)
  | CwLangRef, Some (PLeaf (FStr s)) => lw_exec n_langref_enc (LvStr s)
  | CwNlv, Some (PLeaf (FNlv l)) => lw_exec n_nlv_enc (LvNlv l)
  | CwTime, Some (PLeaf (FTime t)) => WTime t                  (* time.Time.GobEncode: external (g4) *)
  | CwTime, None => WTime vtime_zero
  | (CwItem | CwItemOrLink), Some (PItem w) => w
  | (CwItem | CwItemOrLink), Some (PItems l) => genc_leaf false (PiItems l)     (* an ItemCollection field passed as an Item *)
  | (CwItem | CwItemOrLink), Some (PLeaf (FStr s)) =>         (* an IRI field passed as an Item: a nil IRI writes no bytes *)
      genc_leaf (iri_nilish s) (PiIri false s)
  | CwItems, Some (PItems l) => WList l
  | CwItems, (None | Some PNil) => WList []
  | CwInt64, Some (PLeaf (FDur z)) | CwInt64, Some (PLeaf (FInt z)) => lw_exec n_int64_enc (LvInt z)
  | CwInt64, None => lw_exec n_int64_enc (LvInt 0)
  | CwUint, Some (PLeaf (FUint n)) => lw_exec n_uint_enc (LvUint n)
  | CwUint, None => lw_exec n_uint_enc (LvUint 0)
  | CwFloat, Some (PLeaf (FFloat z)) => lw_exec n_float_enc (LvFloat z)
  | CwFloat, None => lw_exec n_float_enc (LvFloat 0)
  | CwBool, Some (PLeaf (FBool b)) => lw_exec n_bool_enc (LvBool b)
  | CwBool, None => lw_exec n_bool_enc (LvBool false)
  | _, _ => WEmpty
  end.

Definition wmap := list (bytes * wire).

(* one statement of a map<T>Properties function (or of the GobEncode method of a leaf struct) *)
Definition wstep_gen (enc : wcodec -> option pfval -> wire) (pfs : list (fid * pfval)) (st : wmap * bool) (e : gwentry) : wmap * bool :=
  let '(mm, has) := st in
  match e with
  | GW f key cn gf g flag _ =>
      if guard_eval g has (fget gf pfs) then
        match wcodec_of cn with
        | Some c => (aset key (enc c (fget f pfs)) mm, has || flag)
        | None => st
        end
      else st
  | GWFlag gf g _ => if guard_eval g has (fget gf pfs) then (mm, true) else st
  | GWDeleg _ _ _ | GWUnrecognised _ _ => st
  end.

Definition gmap_gen (enc : wcodec -> option pfval -> wire) (tbl : list gwentry) (pfs : list (fid * pfval)) : wmap * bool :=
  fold_left (wstep_gen enc pfs) tbl ([], false).

(* the frame of T.GobEncode: no bytes at all when no statement set hasData, else the gob stream of the map *)
Definition enc_map_gen (enc : wcodec -> option pfval -> wire) (tbl : list gwentry) (pfs : list (fid * pfval)) : wire :=
  let '(mm, has) := gmap_gen enc tbl pfs in if has then WMap mm else WEmpty.

(* the statements of T.GobEncode / ( *T).GobDecode for a leaf struct T *)
Definition leaf_w (n : bytes) : list gwentry :=
  match aget n (ge_leaf_w E) with Some p => fst p | None => [GWUnrecognised (B "no GobEncode method of this leaf struct") n] end.
Definition leaf_r (n : bytes) : list grentry :=
  match aget n (ge_leaf_r E) with Some p => fst p | None => [GRUnrecognised (B "no GobDecode method of this leaf struct") n] end.
Definition leaf_layout (n : bytes) : list fdecl :=
  match aget n (ge_leaf_layouts E) with Some l => l | None => [] end.

Definition n_source : bytes := B "Source".
Definition n_pubkey : bytes := B "PublicKey".
Definition n_endpoints : bytes := B "Endpoints".

(* the leaf structs as field lists *)
Definition source_pfs (mt : bytes) (c : nlv) : list (fid * pfval) :=
  [(F_MediaType, PLeaf (FStr mt)); (F_Content, PLeaf (FNlv c))].
Definition pubkey_pfs (id owner pem : bytes) : list (fid * pfval) :=
  [(F_ID, PLeaf (FStr id)); (F_Owner, PLeaf (FStr owner)); (F_PublicKeyPem, PLeaf (FStr pem))].

(* Source.GobEncode (object.go), PublicKey.GobEncode, Endpoints.GobEncode (actor.go) *)
Definition wenc_source (mt : bytes) (c : nlv) : wire := enc_map_gen wenc0 (leaf_w n_source) (source_pfs mt c).
Definition wenc_pubkey (id owner pem : bytes) : wire := enc_map_gen wenc0 (leaf_w n_pubkey) (pubkey_pfs id owner pem).
Definition wenc_endpoints (e : list (fid * pfval)) : wire :=
  if ge_endpoints_codec E then enc_map_gen wenc0 (leaf_w n_endpoints) e else WEmpty.

(* one encoder call *)
Definition wenc (c : wcodec) (ov : option pfval) : wire :=
  match c, ov with
  | CwSource, Some (PLeaf (FSource mt c)) => wenc_source mt c
  | CwEndpoints, Some (PEndp e) => wenc_endpoints e
  | CwPubKey, Some (PLeaf (FPubKey id owner pem)) => wenc_pubkey id owner pem
  | (CwSource | CwEndpoints | CwPubKey), _ => WEmpty
  | _, _ => wenc0 c ov
  end.

Definition wstep := wstep_gen wenc.
Definition gmap := gmap_gen wenc.

(* T.GobEncode: nothing at all when no statement set hasData *)
Definition enc_obj (k : kind) (pfs : list (fid * pfval)) : wire := enc_map_gen wenc (wtable k) pfs.

Definition pfs_type (pfs : list (fid * pfval)) : bytes :=
  match fget F_Type pfs with Some (PLeaf (FStr s)) => s | _ => [] end.

(* the switch of gobEncodeItem on the type name (the cases are Gen/Switches.sw_gobEncodeItem) *)
Definition enc_switch (k : kind) (pfs : list (fid * pfval)) : wire :=
  match enc_kind (pfs_type pfs) with
  | Some k' => if kind_beq k' k then enc_obj k pfs
               else match k' with KObject => enc_obj KObject pfs | _ => WEmpty end   (* else: not modelled *)
  | None => WEmpty
  end.

(* gobEncodeItem on a struct, closed form: links by Go type, everything else by type name *)
Definition enc_struct (k : kind) (pfs : list (fid * pfval)) : wire :=
  match k with
  | KLink => enc_obj KLink pfs
  | _ => enc_switch k pfs
  end.

(* IRIs.GobEncode: closed form, and interpreted *)
Definition wenc_iris (l : list bytes) : wire :=
  match l with [] => WEmpty | _ => WList (map wraw l) end.
Definition wenc_iris_t (l : list bytes) : wire := lw_exec n_iris_enc (LvStrs l).

(* gobEncodeItem, run from its generated statement groups *)
Definition genc_item (nil : bool) (x : pitem) : wire :=
  genc_run wenc_iris_t (enc_obj KLink) enc_switch (ge_enc_item E) nil x WEmpty.

Fixpoint genc (i : item) : wire :=
  genc_item (is_nil i)
    (match i with
     | INil | ITNil _ => PiNone
     | IIri p s => PiIri p s
     | IIris _ l => PiIris (olist l)
     | IItems _ None => PiItems []
     | IItems _ (Some l) =>
         PiItems ((fix go (l : list item) : list wire := match l with [] => [] | x :: r => genc x :: go r end) l)
     | IObj _ k fs =>
         PiObj k ((fix go (fs : list (fid * fval)) : list (fid * pfval) :=
                     match fs with [] => [] | (f, v) :: r => (f, pre_fval v) :: go r end) fs)
     end)
with pre_fval (v : fval) : pfval :=
  match v with
  | FItem INil => PNil
  | FItem i => PItem (genc i)
  | FItems None => PNil
  | FItems (Some l) =>
      PItems ((fix go (l : list item) : list wire := match l with [] => [] | x :: r => genc x :: go r end) l)
  | FEndpoints None => PNil
  | FEndpoints (Some e) =>
      PEndp ((fix go (e : list (fid * item)) : list (fid * pfval) :=
                match e with
                | [] => []
                | (f, x) :: r => (f, match x with INil => PNil | _ => PItem (genc x) end) :: go r
                end) e)
  | _ => PLeaf v
  end.

Definition pre_fields (fs : list (fid * fval)) : list (fid * pfval) :=
  (fix go (fs : list (fid * fval)) : list (fid * pfval) :=
     match fs with [] => [] | (f, v) :: r => (f, pre_fval v) :: go r end) fs.

(* T.GobEncode / T.MarshalBinary *)
Definition genc_k (k : kind) (fs : list (fid * fval)) : wire := enc_obj k (pre_fields fs).
(* gobEncodeItems *)
Definition genc_items (l : list item) : wire := WList (map genc l).

(* which values the encoder model covers: every struct's type name selects its own kind, the Object
   view of it, or nothing at all (name not listed) *)
Definition enc_dispatch_modelled (k : kind) (ty : bytes) : bool :=
  match k with
  | KLink => true
  | _ => negb (bytes_eqb ty iri_type) &&
         match enc_kind ty with
         | Some k' => kind_beq k' k || kind_beq k' KObject
         | None => negb (sw_mentions (ge_sw_enc E) ty)
         end
  end.

Fixpoint gob_modelled (i : item) : bool :=
  match i with
  | IObj _ k fs =>
      enc_dispatch_modelled k (get_str F_Type fs) &&
      (fix go (fs : list (fid * fval)) : bool :=
         match fs with [] => true | (_, v) :: r => gob_modelled_fval v && go r end) fs
  | IItems _ (Some l) => (fix go (l : list item) : bool := match l with [] => true | x :: r => gob_modelled x && go r end) l
  | _ => true
  end
with gob_modelled_fval (v : fval) : bool :=
  match v with
  | FItem i => gob_modelled i
  | FItems (Some l) => (fix go (l : list item) : bool := match l with [] => true | x :: r => gob_modelled x && go r end) l
  | FEndpoints (Some e) =>
      (fix go (e : list (fid * item)) : bool := match e with [] => true | (_, x) :: r => gob_modelled x && go r end) e
  | _ => true
  end.

Definition gob_modelled_fields (fs : list (fid * fval)) : bool := forallb (fun p => gob_modelled_fval (snd p)) fs.

(* ------------------------------------------------------------------ decoding *)
Fixpoint omapM {A B} (f : A -> outcome B) (l : list A) : outcome (list B) :=
  match l with
  | [] => Ok []
  | x :: r => obind (f x) (fun y => obind (omapM f r) (fun ys => Ok (y :: ys)))
  end.

Definition cur_nlv (cur : option fval) : nlv := match cur with Some (FNlv l) => l | _ => None end.

(* n.GobDecode(data) on an existing list: appends *)
Definition rdec_nlv_method (cur : nlv) (w : wire) : outcome nlv :=
  match w with
  | WEmpty => Ok cur
  | _ => obind (gd_kvs w) (fun l => Ok (match l with [] => cur | _ => Some (olist cur ++ l) end))
  end.

Definition rdec_mime (cur : bytes) (w : wire) : outcome bytes :=
  match w with WEmpty => Ok cur | _ => gd_bytes w end.

(* names of the one-call decoders *)
Definition n_iri_dec : bytes := B "IRI.GobDecode".
Definition n_type_dec : bytes := B "ActivityVocabularyType.GobDecode".
Definition n_mime_dec : bytes := B "MimeType.GobDecode".
Definition n_langref_dec : bytes := B "LangRef.GobDecode".
Definition n_content_dec : bytes := B "Content.GobDecode".
Definition n_nlv_dec : bytes := B "NaturalLanguageValues.GobDecode".
Definition n_lrv_dec : bytes := B "LangRefValue.GobDecode".
Definition n_iris_dec : bytes := B "IRIs.GobDecode".
Definition n_int64_fn : bytes := B "gobDecodeInt64".
Definition n_uint_fn : bytes := B "gobDecodeUint".
Definition n_float_fn : bytes := B "gobDecodeFloat64".
Definition n_bool_fn : bytes := B "gobDecodeBool".
Definition n_dur_fn : bytes := B "gobDecodeDuration".
Definition n_nlv_fn : bytes := B "gobDecodeNaturalLanguageValues".
Definition n_endpoints_fn : bytes := B "gobDecodeEndpoints".

Definition codec_r (n : bytes) : list glr :=
  match aget n (ge_codecs_r E) with Some t => t | None => [LrUnrecognised (B "no such decoder") n] end.

Definition no_self : lval -> outcome lval := fun _ => Err.
Definition no_meth : bytes -> lval -> outcome lval := fun _ _ => Err.

(* ( *T).GobDecode(data) of a leaf type, on the receiver [cur] *)
Definition lr_method (n : bytes) (cur : lval) (w : wire) : outcome lval :=
  lr_run no_self no_meth w (codec_r n) (lr_st0 cur).
(* a helper function: it may call the GobDecode method of a local *)
Definition lr_helper (n : bytes) (w : wire) : outcome lval :=
  lr_run no_self (fun callee l => lr_method callee l w) w (codec_r n) (lr_st0 (LvStr [])).

(* IRIs.GobDecode: `Decode(i)` into the receiver, a GobDecoder, runs IRIs.GobDecode on the opaque payload *)
Fixpoint dec_iris_t (w : wire) (cur : lval) : outcome lval :=
  lr_run (fun c => match w with
                   | WOpaque i => dec_iris_t i c
                   | WCat (WOpaque i) _ => dec_iris_t i c
                   | _ => Err
                   end) no_meth w (codec_r n_iris_dec) (lr_st0 cur).

Definition lv_str (v : lval) : bytes := match v with LvStr s => s | _ => [] end.
Definition lv_nlv (v : lval) : nlv := match v with LvNlv c => c | _ => None end.
Definition lv_strs (v : lval) : list bytes := match v with LvStrs l => l | _ => [] end.
Definition lv_int (v : lval) : Z := match v with LvInt z => z | _ => 0%Z end.
Definition lv_uint (v : lval) : N := match v with LvUint n => n | _ => 0%N end.
Definition lv_float (v : lval) : Z := match v with LvFloat z => z | _ => 0%Z end.
Definition lv_bool (v : lval) : bool := match v with LvBool b => b | _ => false end.
Definition cur_str (cur : option fval) : bytes := match cur with Some (FStr s) => s | _ => [] end.

(* the helper gobDecodeEndpoints is `e := new(Endpoints); err := e.GobDecode(data); return e, err` *)
Definition endpoints_fn_shape (tbl : list glr) : bool :=
  match tbl with
  | [LrDeclare how ty _; LrMethodDecode callee _; LrRetLocalErr _] =>
      bytes_eqb how (B "new") && bytes_eqb ty (B "*Endpoints") && bytes_eqb callee (B "*Endpoints.GobDecode")
  | _ => false
  end.

Section Dec.
Variable rec : wire -> outcome item.     (* gobDecodeItem on a nested byte string *)

(* gobDecodeItems / tryDecodeItems *)
Definition dec_items (w : wire) : outcome (list item) := obind (gd_list w) (omapM rec).

(* one decoder call that does not open a nested property map: CLOSED FORM (Proofs/GobCodecP.rdec0_closed) *)
Definition rdec0c (c : rcodec) (cur : option fval) (w : wire) : outcome fval :=
  match c with
  | CrIri | CrType | CrString => Ok (FStr (wire_bytes_or_garbage w))
  | CrMime | CrLangRef =>
      obind (rdec_mime (match cur with Some (FStr s) => s | _ => [] end) w) (fun s => Ok (FStr s))
  | CrNlvMethod => obind (rdec_nlv_method (cur_nlv cur) w) (fun l => Ok (FNlv l))
  | CrNlvFn => obind (rdec_nlv_method (Some []) w) (fun l => Ok (FNlv l))
  | CrTime => match w with WTime t => Ok (FTime t) | _ => Err end
  | CrItem => obind (rec w) (fun i => Ok (FItem i))
  | CrItems => obind (dec_items w) (fun l => Ok (FItems (Some l)))
  | CrDuration => obind (gd_int w) (fun z => Ok (FDur z))
  | CrInt64 => obind (gd_int w) (fun z => Ok (FInt z))
  | CrUint => obind (gd_uint w) (fun n => Ok (FUint n))
  | CrFloat => obind (gd_float w) (fun z => Ok (FFloat z))
  | CrBool => obind (gd_bool w) (fun b => Ok (FBool b))
  | CrSource | CrEndpointsMethod | CrEndpointsFn | CrPubKey => Err     (* not used one level down *)
  end.

(* one decoder call that does not open a nested property map, INTERPRETED from the generated statements *)
Definition rdec0 (c : rcodec) (cur : option fval) (w : wire) : outcome fval :=
  match c with
  | CrIri => omap (fun v => FStr (lv_str v)) (lr_method n_iri_dec (LvStr (cur_str cur)) w)
  | CrType => omap (fun v => FStr (lv_str v)) (lr_method n_type_dec (LvStr (cur_str cur)) w)
  | CrString => Ok (FStr (wire_bytes_or_garbage w))            (* x.F = string(raw): in the statement itself *)
  | CrMime => omap (fun v => FStr (lv_str v)) (lr_method n_mime_dec (LvStr (cur_str cur)) w)
  | CrLangRef => omap (fun v => FStr (lv_str v)) (lr_method n_langref_dec (LvStr (cur_str cur)) w)
  | CrNlvMethod => omap (fun v => FNlv (lv_nlv v)) (lr_method n_nlv_dec (LvNlv (cur_nlv cur)) w)
  | CrNlvFn => omap (fun v => FNlv (lv_nlv v)) (lr_helper n_nlv_fn w)
  | CrTime => match w with WTime t => Ok (FTime t) | _ => Err end     (* time.Time.GobDecode: external (g4) *)
  | CrItem => obind (rec w) (fun i => Ok (FItem i))
  | CrItems => obind (dec_items w) (fun l => Ok (FItems (Some l)))
  | CrDuration => omap (fun v => FDur (lv_int v)) (lr_helper n_dur_fn w)
  | CrInt64 => omap (fun v => FInt (lv_int v)) (lr_helper n_int64_fn w)
  | CrUint => omap (fun v => FUint (lv_uint v)) (lr_helper n_uint_fn w)
  | CrFloat => omap (fun v => FFloat (lv_float v)) (lr_helper n_float_fn w)
  | CrBool => omap (fun v => FBool (lv_bool v)) (lr_helper n_bool_fn w)
  | CrSource | CrEndpointsMethod | CrEndpointsFn | CrPubKey => Err     (* not used one level down *)
  end.

(* one statement of an unmap<T>Properties function (or of the GobDecode method of a leaf struct) *)
Definition rstep_gen (dec : rcodec -> option fval -> wire -> outcome fval) (mm : wmap)
           (st : outcome (list (fid * fval))) (e : grentry) : outcome (list (fid * fval)) :=
  obind st (fun fs =>
  match e with
  | GR f key cn _ =>
      match aget key mm with
      | None => Ok fs
      | Some raw =>
          match rcodec_of cn with
          | Some c => obind (dec c (getf f fs) raw) (fun v => Ok (setf f v fs))
          | None => Ok fs
          end
      end
  | GRDeleg _ _ _ | GRUnrecognised _ _ => Ok fs
  end).

Definition gunmap_gen (dec : rcodec -> option fval -> wire -> outcome fval) (tbl : list grentry) (mm : wmap)
           (init : list (fid * fval)) : outcome (list (fid * fval)) :=
  fold_left (rstep_gen dec mm) tbl (Ok init).

(* the frame of ( *T).GobDecode for a leaf struct T: empty input leaves the value as it is, else the
   input must be a property map, which is read into the value *)
Definition rdec_leaf (n : bytes) (cur : list (fid * fval)) (w : wire) : outcome (list (fid * fval)) :=
  match w with
  | WEmpty => Ok cur
  | _ => obind (gd_map w) (fun mm => gunmap_gen rdec0 (leaf_r n) mm cur)
  end.

(* the leaf structs as field lists, and back *)
Definition source_fields (cur : option fval) : list (fid * fval) :=
  match cur with Some (FSource mt c) => setf F_MediaType (FStr mt) (setf F_Content (FNlv c) []) | _ => [] end.
Definition source_of (fs : list (fid * fval)) : fval := FSource (get_str F_MediaType fs) (get_nlv F_Content fs).
Definition pubkey_fields (cur : option fval) : list (fid * fval) :=
  match cur with
  | Some (FPubKey id owner pem) => setf F_ID (FStr id) (setf F_Owner (FStr owner) (setf F_PublicKeyPem (FStr pem) []))
  | _ => []
  end.
Definition pubkey_of (fs : list (fid * fval)) : fval :=
  FPubKey (get_str F_ID fs) (get_str F_Owner fs) (get_str F_PublicKeyPem fs).
Definition endp_of (fs : list (fid * fval)) : list (fid * item) :=
  flat_map (fun d => match getf (fd_fid d) fs with Some (FItem i) => [(fd_fid d, i)] | _ => [] end) (ge_layout_endpoints E).

(* Source.GobDecode, PublicKey.GobDecode *)
Definition rdec_source (cur : option fval) (w : wire) : outcome fval :=
  obind (rdec_leaf n_source (source_fields cur) w) (fun fs => Ok (source_of fs)).
Definition rdec_pubkey (cur : option fval) (w : wire) : outcome fval :=
  obind (rdec_leaf n_pubkey (pubkey_fields cur) w) (fun fs => Ok (pubkey_of fs)).

(* gobDecodeEndpoints: Endpoints.GobDecode into a fresh Endpoints *)
Definition rdec_endpoints_method (w : wire) : outcome fval :=
  if ge_endpoints_codec E then
    obind (rdec_leaf n_endpoints [] w) (fun fs => Ok (FEndpoints (Some (endp_of fs))))
  else Ok (FEndpoints (Some [])).
Definition rdec_endpoints_fn (w : wire) : outcome fval :=
  if endpoints_fn_shape (codec_r n_endpoints_fn) then rdec_endpoints_method w else Err.

Definition rdec (c : rcodec) (cur : option fval) (w : wire) : outcome fval :=
  match c with
  | CrSource => rdec_source cur w
  | CrEndpointsMethod =>
      (* Endpoints.GobDecode called through the field: the pinned code ignores input and (nil) receiver *)
      if ge_endpoints_codec E then
        match cur with
        | Some (FEndpoints (Some _)) => rdec_endpoints_method w   (* not used by the tables of either tree *)
        | _ => Panic NilDeref
        end
      else Ok (match cur with Some v => v | None => FEndpoints None end)
  | CrEndpointsFn => rdec_endpoints_fn w
  | CrPubKey => rdec_pubkey cur w
  | _ => rdec0 c cur w
  end.

Definition rstep := rstep_gen rdec.
Definition gunmap := gunmap_gen rdec.

(* struct order, as a Go value prints *)
Definition canon_fields (k : kind) (fs : list (fid * fval)) : list (fid * fval) :=
  flat_map (fun d => match getf (fd_fid d) fs with Some v => [(fd_fid d, v)] | None => [] end) (ge_layout E k).

(* the object branch of gobDecodeItem *)
Definition dec_object (tkey : bytes) (mm : wmap) : outcome item :=
  let typ := match aget tkey mm with Some r => wire_bytes_or_garbage r | None => [] end in
  match typer_kind typ with
  | None => Err
  | Some kc =>
      let init := fresh_fields typ in
      let ty0 := get_str F_Type init in           (* it.GetType() of the fresh value *)
      match dec_kind ty0 with
      | Some k =>
          if kind_beq k kc
          then obind (gunmap (rflatten flatten_fuel (dec_fn_item ty0)) mm init) (fun fs => Ok (IObj true k (canon_fields k fs)))
          else Err                                  (* On<K> of another struct: not modelled *)
      | None => Ok (IObj true kc (canon_fields kc init))   (* the switch has no case: returned as created *)
      end
  end.

(* IRIs.GobDecode: nothing on empty input; the opaque value gobEncodeIRIs wrote (its content read the same
   way); else any [][]byte, each element taken as the bytes of an IRI.  CLOSED FORM of [dec_iris_t]
   (Proofs/GobCodecP.dec_iris_closed) *)
Fixpoint dec_iris (w : wire) : outcome (list bytes) :=
  match w with
  | WEmpty => Ok []
  | WOpaque i | WCat (WOpaque i) _ => dec_iris i
  | WList l | WCat (WList l) _ => Ok (map wire_bytes_or_garbage l)
  | _ => Err
  end.

Definition has_key {A} (k : bytes) (m : list (bytes * A)) : bool := match aget k m with Some _ => true | None => false end.

Definition fn_try_items : bytes := B "tryDecodeItems".
Definition fn_try_iris : bytes := B "tryDecodeIRIs".
Definition fn_try_iri : bytes := B "tryDecodeIRI".
Definition fn_as_map : bytes := B "gobDecodeObjectAsMap".

(* `if err := fn(&v, data); err == nil { return v, nil }`: None = the attempt failed, the next shape is
   tried.  A panic is not an error return: it ends the call. *)
Definition sniff_try (fn : bytes) (w : wire) : option (outcome item) :=
  if bytes_eqb fn fn_try_items then
    match dec_items w with
    | Ok l => Some (Ok (IItems false (Some l)))
    | Err => None
    | Panic p => Some (Panic p)
    | OutOfFuel => Some OutOfFuel
    end
  else if bytes_eqb fn fn_try_iris then              (* iris := make(IRIs, 0); iris.GobDecode(data) *)
    match dec_iris_t w (LvStrs []) with Ok v => Some (Ok (IIris false (Some (lv_strs v)))) | _ => None end
  else if bytes_eqb fn fn_try_iri then               (* iri := IRI(""); iri.GobDecode(data) *)
    match lr_method n_iri_dec (LvStr []) w with Ok v => Some (Ok (IIri false (lv_str v))) | _ => None end
  else Some Err.                                                (* a function the model does not know *)

Definition sniff_one (s : gsniff) (w : wire) : option (outcome item) :=
  match s with
  | GSTry fn _ => sniff_try fn w
  | GSMap fn tkey always _ =>
      if bytes_eqb fn fn_as_map then
        match gd_map w with
        | Ok mm =>
            (* pinned: a map is an object only when it has a type or an id *)
            if always || has_key tkey mm || has_key (B "id") mm then Some (dec_object tkey mm) else None
        | _ => None
        end
      else Some Err
  | GSFail _ => Some Err
  | GSUnrecognised _ _ => Some Err
  end.

Fixpoint sniff_run (l : list gsniff) (w : wire) : outcome item :=
  match l with
  | [] => Err
  | s :: r => match sniff_one s w with Some o => o | None => sniff_run r w end
  end.

(* gobDecodeItem: the first shape that fits *)
Definition dec_step (w : wire) : outcome item := sniff_run (ge_sniff E) w.
End Dec.

Fixpoint dec_fuel (n : nat) (w : wire) : outcome item :=
  match n with
  | O => OutOfFuel
  | S n' => dec_step (dec_fuel n') w
  end.

(* gobDecodeItem / GobDecode *)
Definition gdec (w : wire) : outcome item := dec_fuel (S (wire_depth w)) w.

(* (T).GobDecode / UnmarshalBinary into a zero value *)
Definition gdec_k (k : kind) (w : wire) : outcome (list (fid * fval)) :=
  match w with
  | WEmpty => Ok []
  | _ => obind (gd_map w) (fun mm =>
         obind (gunmap (dec_fuel (S (wire_depth w))) (rtable_method k) mm []) (fun fs => Ok (canon_fields k fs)))
  end.

(* gobDecodeItems *)
Definition gdec_items (w : wire) : outcome (list item) := dec_items (dec_fuel (S (wire_depth w))) w.

(* did the model have to write the garbage marker somewhere in a decoded value *)
Fixpoint item_has_garbage (i : item) : bool :=
  match i with
  | IIri _ s => bytes_eqb s gob_garbage
  | IObj _ _ fs =>
      (fix go (fs : list (fid * fval)) : bool :=
         match fs with [] => false | (_, v) :: r => fval_has_garbage v || go r end) fs
  | IItems _ (Some l) => (fix go (l : list item) : bool := match l with [] => false | x :: r => item_has_garbage x || go r end) l
  | IIris _ (Some l) => existsb (fun s => bytes_eqb s gob_garbage) l
  | _ => false
  end
with fval_has_garbage (v : fval) : bool :=
  match v with
  | FItem i => item_has_garbage i
  | FItems (Some l) => (fix go (l : list item) : bool := match l with [] => false | x :: r => item_has_garbage x || go r end) l
  | FStr s => bytes_eqb s gob_garbage
  | FPubKey a b c => bytes_eqb a gob_garbage || bytes_eqb b gob_garbage || bytes_eqb c gob_garbage
  | FEndpoints (Some e) =>
      (fix go (e : list (fid * item)) : bool := match e with [] => false | (_, x) :: r => item_has_garbage x || go r end) e
  | _ => false
  end.

(* comparison used by the correspondence check: where the model wrote the marker the real code holds
   stream bytes the abstraction does not know; such cases are counted, not compared *)
Definition dec_agrees (m o : outcome item) : bool :=
  outcome_eqb item_eqb m o || match m with Ok i => item_has_garbage i | _ => false end.

(* wires on which the decoder model speaks: no string is made out of stream bytes the abstraction does not know *)
Fixpoint wire_modelled (w : wire) : bool :=
  match w with
  | WList l => (fix go (l : list wire) : bool := match l with [] => true | x :: r => wire_modelled x && go r end) l
  | WMap m =>
      (fix go (m : list (bytes * wire)) : bool :=
         match m with [] => true | (_, x) :: r => wire_modelled x && go r end) m
  | WOpaque i => wire_modelled i
  | WCat a b => wire_modelled a && wire_modelled b
  | WBytes _ | WKvs _ | WKv _ _ | WInt _ | WUint _ | WFloat _ | WBool _ | WTime _ => true
  | WEmpty | WRaw _ => true
  end.

End WithEnv.

(* environments that differ from [E] in one table (used by the refutation witnesses of Props/C04.v, C07.v) *)
Definition set_rfuncs (E : gob_env) (r : list (bytes * option kind * list grentry)) : gob_env :=
  {| ge_wfuncs := ge_wfuncs E; ge_rfuncs := r; ge_enc_methods := ge_enc_methods E; ge_dec_methods := ge_dec_methods E;
     ge_sw_enc := ge_sw_enc E; ge_sw_enc_default := ge_sw_enc_default E; ge_sw_dec := ge_sw_dec E;
     ge_sw_dec_default := ge_sw_dec_default E; ge_sw_typer := ge_sw_typer E; ge_sw_typer_default := ge_sw_typer_default E;
     ge_layout := ge_layout E; ge_layout_endpoints := ge_layout_endpoints E;
     ge_leaf_w := ge_leaf_w E; ge_leaf_r := ge_leaf_r E; ge_leaf_layouts := ge_leaf_layouts E; ge_sniff := ge_sniff E;
     ge_codecs_w := ge_codecs_w E; ge_codecs_r := ge_codecs_r E; ge_enc_item := ge_enc_item E;
     ge_typer_presets := ge_typer_presets E;
     ge_endpoints_codec := ge_endpoints_codec E |}.
Definition set_sw_dec (E : gob_env) (sw : sw_table) : gob_env :=
  {| ge_wfuncs := ge_wfuncs E; ge_rfuncs := ge_rfuncs E; ge_enc_methods := ge_enc_methods E; ge_dec_methods := ge_dec_methods E;
     ge_sw_enc := ge_sw_enc E; ge_sw_enc_default := ge_sw_enc_default E; ge_sw_dec := sw;
     ge_sw_dec_default := ge_sw_dec_default E; ge_sw_typer := ge_sw_typer E; ge_sw_typer_default := ge_sw_typer_default E;
     ge_layout := ge_layout E; ge_layout_endpoints := ge_layout_endpoints E;
     ge_leaf_w := ge_leaf_w E; ge_leaf_r := ge_leaf_r E; ge_leaf_layouts := ge_leaf_layouts E; ge_sniff := ge_sniff E;
     ge_codecs_w := ge_codecs_w E; ge_codecs_r := ge_codecs_r E; ge_enc_item := ge_enc_item E;
     ge_typer_presets := ge_typer_presets E;
     ge_endpoints_codec := ge_endpoints_codec E |}.
Definition set_wfuncs (E : gob_env) (wf : list (bytes * option kind * list gwentry)) : gob_env :=
  {| ge_wfuncs := wf; ge_rfuncs := ge_rfuncs E; ge_enc_methods := ge_enc_methods E; ge_dec_methods := ge_dec_methods E;
     ge_sw_enc := ge_sw_enc E; ge_sw_enc_default := ge_sw_enc_default E; ge_sw_dec := ge_sw_dec E;
     ge_sw_dec_default := ge_sw_dec_default E; ge_sw_typer := ge_sw_typer E; ge_sw_typer_default := ge_sw_typer_default E;
     ge_layout := ge_layout E; ge_layout_endpoints := ge_layout_endpoints E;
     ge_leaf_w := ge_leaf_w E; ge_leaf_r := ge_leaf_r E; ge_leaf_layouts := ge_leaf_layouts E; ge_sniff := ge_sniff E;
     ge_codecs_w := ge_codecs_w E; ge_codecs_r := ge_codecs_r E; ge_enc_item := ge_enc_item E;
     ge_typer_presets := ge_typer_presets E;
     ge_endpoints_codec := ge_endpoints_codec E |}.
