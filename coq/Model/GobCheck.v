(* The table condition of C03: a decidable check of the generated gob property tables that the generic
   round-trip theorem (Proofs/GobP.v) takes as its hypothesis, and [first_bad], which names the kind,
   the field and the reason when the check fails.  Definitions only. *)
From AP.Model Require Import Prelude Vocab Bytes Layout Pred Dispatch GobTables Gob.

(* a guard that holds whenever a field of Go type [t] holds a value whose normal form is not empty *)
Definition guard_ok (g : gguard) (t : gotype) : bool :=
  match g, t with
  | GTrue, _ => true
  | GNeNil, (TItem | TItems | TNlv | TEndpoints) => true
  | GLenGt0, (TString | TNlv | TItems) => true
  | GNotZeroTime, TTime => true
  | GGt0, TUint => true
  | GNe0, (TUint | TInt64 | TDur | TFloat) => true
  | GIsTrue, TBool => true
  | GSumLenGt0 subs, TSource => in_list subs (B "MediaType") && in_list subs (B "Content")
  | GSumLenGt0 subs, TPubKey => in_list subs (B "ID") && in_list subs (B "Owner") && in_list subs (B "PublicKeyPem")
  | _, _ => false
  end.

Definition is_hasdata (g : gguard) : bool := match g with GHasData => true | _ => false end.

Definition wcodec_fits (c : wcodec) (t : gotype) : bool :=
  match c, t with
  | (CwIri | CwType | CwRawBytes | CwMime | CwLangRef), TString => true
  | CwNlv, TNlv | CwTime, TTime | CwSource, TSource | CwEndpoints, TEndpoints | CwPubKey, TPubKey => true
  | (CwItem | CwItemOrLink), (TItem | TItems) => true
  | CwItems, TItems => true
  | CwInt64, (TDur | TInt64) => true
  | CwUint, TUint | CwFloat, TFloat | CwBool, TBool => true
  | _, _ => false
  end.

(* writer / reader pairs that are inverse to each other on a field of type [t] *)
Definition pair_ok (endpoints_codec : bool) (t : gotype) (cw : wcodec) (cr : rcodec) : bool :=
  match t, cw, cr with
  | TString, (CwIri | CwType | CwRawBytes), (CrIri | CrType | CrString) => true
  | TString, (CwMime | CwLangRef), (CrMime | CrLangRef) => true
  | TNlv, CwNlv, (CrNlvMethod | CrNlvFn) => true
  | TTime, CwTime, CrTime => true
  | TSource, CwSource, CrSource => true
  | TEndpoints, CwEndpoints, CrEndpointsFn => endpoints_codec
  | TPubKey, CwPubKey, CrPubKey => true
  | TItem, (CwItem | CwItemOrLink), CrItem => true
  | TItems, (CwItem | CwItemOrLink | CwItems), CrItems => true
  | TDur, CwInt64, CrDuration => true
  | TInt64, CwInt64, CrInt64 => true
  | TUint, CwUint, CrUint => true
  | TFloat, CwFloat, CrFloat => true
  | TBool, CwBool, CrBool => true
  | _, _, _ => false
  end.

(* ---- the per-field check, generic in which encoders fit a Go type ([fits]) and which encoder / decoder
        pairs are inverse ([pok]): used for the 14 struct kinds and, one level down, for the leaf structs ---- *)
Definition w_field (e : gwentry) : option fid := match e with GW f _ _ _ _ _ _ => Some f | _ => None end.

(* some write statement for [f] is executed whenever [f] is set.  [flagged]: a statement seen before sets
   hasData whenever [f] is set (which is what makes a later `if hasData` write fire) *)
Fixpoint fires (f : fid) (t : gotype) (flagged : bool) (W : list gwentry) : bool :=
  match W with
  | [] => false
  | GW f' _ _ gf g flag _ :: r =>
      if fid_beq f' f then
        if fid_beq gf f && guard_ok g t then true
        else if is_hasdata g && flagged then true
        else fires f t flagged r
      else fires f t flagged r
  | GWFlag gf g _ :: r => fires f t (flagged || (fid_beq gf f && guard_ok g t)) r
  | _ :: r => fires f t flagged r
  end.

(* some statement sets hasData whenever [f] is set *)
Definition flags (f : fid) (t : gotype) (W : list gwentry) : bool :=
  existsb (fun e => match e with
                    | GW f' _ _ gf g flag _ => fid_beq f' f && fid_beq gf f && flag && guard_ok g t
                    | GWFlag gf g _ => fid_beq gf f && guard_ok g t
                    | _ => false
                    end) W.

(* gobEncodeItem on a nil ItemCollection writes no bytes, which gobDecodeItems rejects: such a write
   must be guarded by the list being there *)
Definition codec_guard_ok (c : wcodec) (t : gotype) (g : gguard) : bool :=
  match t, c with
  | TItems, (CwItem | CwItemOrLink) => match g with GNeNil | GLenGt0 => true | _ => false end
  | _, _ => true
  end.

(* the type name is what gobDecodeItem sniffs: it must be written as raw bytes under "type" *)
Definition raw_codec (cn : bytes) : bool :=
  match wcodec_of cn with Some (CwIri | CwType | CwRawBytes) => true | _ => false end.

Definition read_entry (f : fid) (R : list grentry) : option (bytes * bytes) :=
  match find (fun e => match e with GR f' _ _ _ => fid_beq f' f | _ => false end) R with
  | Some (GR _ key cn _) => Some (key, cn)
  | _ => None
  end.

Definition count_reads (f : fid) (R : list grentry) : nat :=
  length (filter (fun e => match e with GR f' _ _ _ => fid_beq f' f | _ => false end) R).

Inductive field_verdict :=
| FieldOk
| FieldBad (reason : bytes).

Section GenCheck.
Variable fits : wcodec -> gotype -> bool.
Variable pok : gotype -> wcodec -> rcodec -> bool.

(* the write statements for [f]: guard on [f] itself (or none / hasData), known codec fitting the type *)
Definition wentry_ok_gen (f : fid) (t : gotype) (e : gwentry) : bool :=
  match e with
  | GW f' key cn gf g _ _ =>
      if fid_beq f' f then
        fid_beq gf f && match wcodec_of cn with Some c => fits c t && codec_guard_ok c t g | None => false end
        && (if fid_beq f F_Type then bytes_eqb key (B "type") && raw_codec cn else true)
      else true
  | _ => true
  end.

(* every reader of [f] uses the key every writer of [f] uses, with an inverse codec *)
Definition cross_ok_gen (f : fid) (t : gotype) (W : list gwentry) (R : list grentry) : bool :=
  forallb (fun er =>
    match er with
    | GR fr key crn _ =>
        if fid_beq fr f then
          match rcodec_of crn with
          | Some cr =>
              forallb (fun e => match e with
                                | GW f' key' cwn _ _ _ _ =>
                                    if fid_beq f' f then
                                      bytes_eqb key' key &&
                                      match wcodec_of cwn with Some cw => pok t cw cr | None => false end
                                    else true
                                | _ => true
                                end) W
          | None => false
          end
        else true
    | _ => true
    end) R.

Definition field_check_gen (W : list gwentry) (R : list grentry) (d : fdecl) : field_verdict :=
  let f := fd_fid d in
  let t := fd_type d in
  if negb (existsb (fun e => match w_field e with Some f' => fid_beq f' f | None => false end) W)
  then FieldBad (B "no statement writes the field")
  else if negb (forallb (wentry_ok_gen f t) W)
  then FieldBad (B "a write statement tests another field, or its encoder is unknown or does not fit the Go type")
  else if negb (fires f t false W)
  then FieldBad (B "the guard of the write statement is stronger than `the field is set`")
  else if negb (flags f t W)
  then FieldBad (B "no statement sets hasData when only this field is set")
  else if Nat.eqb (count_reads f R) 0 then FieldBad (B "no statement reads the field")
  else if negb (Nat.eqb (count_reads f R) 1) then FieldBad (B "the field is read more than once")
  else if negb (cross_ok_gen f t W R)
  then FieldBad (B "reader and writer disagree on the key, or the decoder is not the inverse of the encoder")
  else FieldOk.

Definition field_ok_gen (W : list gwentry) (R : list grentry) (d : fdecl) : bool :=
  match field_check_gen W R d with FieldOk => true | FieldBad _ => false end.
End GenCheck.

(* on the write side a key belongs to one field *)
Definition w_keys_ok (W : list gwentry) : bool :=
  forallb (fun e1 => forallb (fun e2 =>
    match e1, e2 with
    | GW f1 k1 _ _ _ _ _, GW f2 k2 _ _ _ _ _ => if bytes_eqb k1 k2 then fid_beq f1 f2 else true
    | _, _ => true
    end) W) W.

(* on the read side too, and it is the same field *)
Definition r_keys_ok (W : list gwentry) (R : list grentry) : bool :=
  forallb (fun e1 => forallb (fun e2 =>
    match e1, e2 with
    | GR f1 k1 _ _, GR f2 k2 _ _ => if bytes_eqb k1 k2 then fid_beq f1 f2 else true
    | _, _ => true
    end) R) R &&
  forallb (fun e1 => forallb (fun e2 =>
    match e1, e2 with
    | GR f1 k1 _ _, GW f2 k2 _ _ _ _ _ => if bytes_eqb k1 k2 then fid_beq f1 f2 else true
    | _, _ => true
    end) W) R.

Fixpoint nodup_fids (l : list fid) : bool :=
  match l with [] => true | x :: r => negb (existsb (fid_beq x) r) && nodup_fids r end.
Fixpoint nodup_bytes (l : list bytes) : bool :=
  match l with [] => true | x :: r => negb (existsb (bytes_eqb x) r) && nodup_bytes r end.

(* a struct (its field declarations [L]) with its write statements [W] and read statements [R] *)
Definition in_fields (L : list fdecl) (f : fid) : bool := existsb (fun d => fid_beq (fd_fid d) f) L.

Definition w_recognised_in (L : list fdecl) (e : gwentry) : bool :=
  match e with
  | GW f _ _ gf _ _ _ => in_fields L f && in_fields L gf
  | GWFlag gf _ _ => in_fields L gf
  | GWDeleg _ _ _ | GWUnrecognised _ _ => false
  end.

Definition r_recognised_in (L : list fdecl) (e : grentry) : bool :=
  match e with
  | GR f _ cn _ => in_fields L f && match rcodec_of cn with Some _ => true | None => false end
  | GRDeleg _ _ _ | GRUnrecognised _ _ => false
  end.

Definition struct_ok (fits : wcodec -> gotype -> bool) (pok : gotype -> wcodec -> rcodec -> bool)
           (L : list fdecl) (W : list gwentry) (R : list grentry) : bool :=
  nodup_fids (map fd_fid L) && forallb (w_recognised_in L) W && forallb (r_recognised_in L) R &&
  w_keys_ok W && r_keys_ok W R && forallb (field_ok_gen fits pok W R) L.

Section Check.
Variable E : gob_env.

Definition wentry_ok := wentry_ok_gen wcodec_fits.
Definition cross_ok := cross_ok_gen (pair_ok (ge_endpoints_codec E)).
Definition field_check := field_check_gen wcodec_fits (pair_ok (ge_endpoints_codec E)).
Definition field_ok := field_ok_gen wcodec_fits (pair_ok (ge_endpoints_codec E)).

(* statements as a whole *)
Definition in_layout (k : kind) (f : fid) : bool := existsb (fun d => fid_beq (fd_fid d) f) (ge_layout E k).

Definition w_recognised (k : kind) (e : gwentry) : bool :=
  match e with
  | GW f _ _ gf _ _ _ => in_layout k f && in_layout k gf
  | GWFlag gf _ _ => in_layout k gf
  | GWDeleg _ _ _ | GWUnrecognised _ _ => false
  end.

Definition r_recognised (k : kind) (e : grentry) : bool :=
  match e with
  | GR f _ cn _ => in_layout k f && match rcodec_of cn with Some _ => true | None => false end
  | GRDeleg _ _ _ | GRUnrecognised _ _ => false
  end.

(* T.GobEncode and T.GobDecode have the one body shape the model gives them *)
Definition methods_ok (k : kind) : bool :=
  match kget k (ge_enc_methods E), kget k (ge_dec_methods E) with
  | Some [m; fn; ne; en; by_], Some [ln; dm; fn'] =>
      bytes_eqb m (B "make") && bytes_eqb ne (B "gob.NewEncoder") && bytes_eqb en (B "g.Encode") && bytes_eqb by_ (B "bb.Bytes")
      && bytes_eqb ln (B "len") && bytes_eqb dm (B "gobDecodeObjectAsMap")
      && match fn_lookup fn (ge_wfuncs E), fn_lookup fn' (ge_rfuncs E) with
         | Some (Some k1, _), Some (Some k2, _) => kind_beq k1 k && kind_beq k2 k
         | _, _ => false
         end
  | _, _ => false
  end.

(* gobDecodeItem runs, for every type name that selects [k], the unmap function (T).GobDecode runs *)
Definition item_route_ok (k : kind) : bool :=
  forallb (fun c => forallb (fun n =>
    if okind_eqb (dec_kind E n) (Some k) then bytes_eqb (dec_fn_item E n) (dec_fn_method E k) else true) (fst c)) (ge_sw_dec E).

(* delegations are views: a field a delegated function touches sits at the same offset, with the same
   type, in the struct it is called on and in the struct it is written for *)
Definition fdecl_of (k : kind) (f : fid) : option fdecl := find (fun d => fid_beq (fd_fid d) f) (ge_layout E k).

Definition same_slot (k k' : kind) (f : fid) : bool :=
  match fdecl_of k f, fdecl_of k' f with
  | Some a, Some b => gotype_eqb (fd_type a) (fd_type b) && Nat.eqb (fd_off a) (fd_off b)
  | _, _ => false
  end.

Fixpoint w_views_ok (fuel : nat) (k : kind) (fn : bytes) : bool :=
  match fuel with
  | O => false
  | S n =>
      match fn_lookup fn (ge_wfuncs E) with
      | Some (Some k', es) =>
          forallb (fun e => match e with
                            | GW f _ _ gf _ _ _ => same_slot k k' f && same_slot k k' gf
                            | GWFlag gf _ _ => same_slot k k' gf
                            | GWDeleg _ fn' _ => w_views_ok n k fn'
                            | GWUnrecognised _ _ => false
                            end) es
      | _ => false
      end
  end.

Fixpoint r_views_ok (fuel : nat) (k : kind) (fn : bytes) : bool :=
  match fuel with
  | O => false
  | S n =>
      match fn_lookup fn (ge_rfuncs E) with
      | Some (Some k', es) =>
          forallb (fun e => match e with
                            | GR f _ _ _ => same_slot k k' f
                            | GRDeleg _ fn' _ => r_views_ok n k fn'
                            | GRUnrecognised _ _ => false
                            end) es
      | _ => false
      end
  end.

Definition endpoints_layout_ok : bool :=
  nodup_fids (map fd_fid (ge_layout_endpoints E)) && nodup_bytes (map fd_term (ge_layout_endpoints E)).

Inductive kind_verdict :=
| KindOk
| KindBad (f : option fid) (reason : bytes).

Definition first_bad_field (W : list gwentry) (R : list grentry) (ds : list fdecl) : option (fid * bytes) :=
  match find (fun d => negb (field_ok W R d)) ds with
  | Some d => match field_check W R d with FieldBad r => Some (fd_fid d, r) | FieldOk => None end
  | None => None
  end.

Definition kind_check (k : kind) : kind_verdict :=
  let W := wtable E k in
  let R := rtable_method E k in
  if negb (nodup_fids (map fd_fid (ge_layout E k)) && endpoints_layout_ok) then KindBad None (B "a struct declares a field twice")
  else if negb (methods_ok k) then KindBad None (B "T.GobEncode / T.GobDecode do not have the expected body")
  else if negb (forallb (w_recognised k) W) then KindBad None (B "a statement of the map function is not recognised, or names a field the struct does not have")
  else if negb (forallb (r_recognised k) R) then KindBad None (B "a statement of the unmap function is not recognised, names a field the struct does not have, or uses an unknown decoder")
  else if negb (w_keys_ok W) then KindBad None (B "two fields are written under one key")
  else if negb (r_keys_ok W R) then KindBad None (B "a key is read into two fields, or into another field than the one written under it")
  else if negb (item_route_ok k) then KindBad None (B "gobDecodeItem and T.GobDecode use different unmap functions")
  else if negb (w_views_ok flatten_fuel k (enc_fn E k) && r_views_ok flatten_fuel k (dec_fn_method E k))
  then KindBad None (B "a delegation reads a field at another offset or with another type")
  else match first_bad_field W R (ge_layout E k) with
       | Some (f, r) => KindBad (Some f) r
       | None => KindOk
       end.

Definition kind_ok (k : kind) : bool := match kind_check k with KindOk => true | KindBad _ _ => false end.

(* MarshalBinary / UnmarshalBinary are aliases of GobEncode / GobDecode, for every struct type *)
Definition aliases_ok (marshal unmarshal : list (bytes * bytes)) : bool :=
  forallb (fun p => bytes_eqb (snd p) (B "GobEncode")) marshal &&
  forallb (fun p => bytes_eqb (snd p) (B "GobDecode")) unmarshal &&
  forallb (fun kn => existsb (fun p => bytes_eqb (fst p) (fst kn)) marshal &&
                     existsb (fun p => bytes_eqb (fst p) (fst kn)) unmarshal) kind_names.

Definition gob_tables_consistent : bool := forallb kind_ok all_kinds.

(* diagnostics: the first kind / field / reason for which the condition fails *)
Definition first_bad : option (kind * option fid * bytes) :=
  match find (fun k => negb (kind_ok k)) all_kinds with
  | Some k => match kind_check k with KindBad f r => Some (k, f, r) | KindOk => None end
  | None => None
  end.

(* diagnostics: every (kind, field) whose statements fail the per-field check *)
Definition bad_fields : list (kind * fid) :=
  flat_map (fun k => flat_map (fun d => if field_ok (wtable E k) (rtable_method E k) d then [] else [(k, fd_fid d)])
                              (ge_layout E k)) all_kinds.

End Check.
