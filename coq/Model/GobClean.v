(* C11 on the gob wire: the decidable condition on the regenerated gob write tables (Gen/GobW.v) under
   which, after Clean, the property map the gob encoder model writes for a pointer-embedded non-link struct on
   the walk has no "bto" / "bcc" entry.  Definitions only; theorems in Proofs/GobCleanP.v.

   A property map gets an entry under a key only from a write statement `mm[key] = ENC(x.F)` whose guard holds.
   The condition: in the (delegation-flattened) write table of EVERY struct kind, a statement that writes
   under "bto" ("bcc") writes the field Bto (BCC) and is guarded by `len(x.Bto) > 0` (`len(x.BCC) > 0`) - so
   the list Clean truncated (empty, or nil) is not written at all - and no statement is of an unrecognised
   shape (such a statement could write under any key). *)
From AP.Model Require Import Prelude Vocab Bytes Layout Pred Dispatch GobTables Gob.

Definition k_bto : bytes := B "bto".
Definition k_bcc : bytes := B "bcc".

Definition is_lengt0 (g : gguard) : bool := match g with GLenGt0 => true | _ => false end.

Definition gob_private_entry_ok (e : gwentry) : bool :=
  match e with
  | GW f key _ gf g _ _ =>
      if bytes_eqb key k_bto then fid_beq f F_Bto && fid_beq gf F_Bto && is_lengt0 g
      else if bytes_eqb key k_bcc then fid_beq f F_BCC && fid_beq gf F_BCC && is_lengt0 g
      else true
  | GWFlag _ _ _ => true
  | GWDeleg _ _ _ | GWUnrecognised _ _ => false
  end.

Definition gob_private_ok (E : gob_env) : bool :=
  forallb (fun k => forallb gob_private_entry_ok (wtable E k)) all_kinds.

(* diagnostics: the offending statements, per struct kind *)
Definition gob_private_bad (E : gob_env) : list (kind * gwentry) :=
  flat_map (fun k => map (fun e => (k, e)) (filter (fun e => negb (gob_private_entry_ok e)) (wtable E k))) all_kinds.

(* bto and bcc hold item lists - the Go type of the two fields; every value rendered from a Go struct does *)
Definition holds_items (f : fid) (fs : list (fid * fval)) : bool :=
  match getf f fs with Some (FItems _) | None => true | Some _ => false end.
Definition private_fields_shaped (fs : list (fid * fval)) : bool := holds_items F_Bto fs && holds_items F_BCC fs.

(* a wire without private entries at its top: no bytes, or a property map with neither key *)
Definition wire_no_private (w : wire) : Prop :=
  w = WEmpty \/ exists mm, w = WMap mm /\ aget k_bto mm = None /\ aget k_bcc mm = None.
Definition wire_no_privateb (w : wire) : bool :=
  match w with
  | WEmpty => true
  | WMap mm => match aget k_bto mm, aget k_bcc mm with None, None => true | _, _ => false end
  | _ => false
  end.
