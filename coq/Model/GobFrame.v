(* C03 (builder b55): the FRAMES of the struct methods (T) GobEncode / ( *T) GobDecode of the 14 vocabulary struct
   types, interpreted from their generated statement lists, and the locals gobDecodeItem hands to its attempts.

   Model/Gob.v gives the frames a hand-written meaning:
       (T) GobEncode      enc_obj E k pfs = enc_map_gen (wenc E) (wtable E k) pfs
                          = no bytes when map<T>Properties reports no data, else the gob stream of the map it filled,
                          where wtable reads the name of the map function off a list of the CALLS in the body
                          (ge_enc_methods; Model/GobCheck.methods_ok compares that list with the five expected names)
       ( *T) GobDecode     gdec_k E k w = the value as it is on empty input, else gobDecodeObjectAsMap, then
                          unmap<T>Properties into the value (ge_dec_methods, three calls)
   A list of calls does not see the control flow: a frame that drops the `if !hasData` block, tests `hasData` instead
   of `!hasData`, or keeps `len(data)` in another comparison has the same calls.  Here the same methods are RUN from
   the statement lists the translator regenerates from the source on every run (Gen/GobW.gobw_frames,
   Gen/GobR.gobr_frames; entry types gfw / gfr of Model/GobTables.v; translator/gobframes.go): [fw_run] / [fr_run]
   give every statement list a meaning, whatever it says.  Proofs/GobFrameP.v proves the interpreters equal to the
   hand-written frames for every table set satisfying the decidable condition [frames_ok] below; Props/C03.v
   evaluates the condition (and the diagnosis [frames_first_bad]) on the tables of the run.

   Second part: gobDecodeItem declares the local each attempt decodes into (`items := make(ItemCollection, 0)`,
   `iris := make(IRIs, 0)`, `iri := IRI("")`).  The sniffing translator consumed those declarations without a trace;
   Gob.sniff_try starts every attempt from the empty value by hand.  They are now generated too
   (Gen/GobR.gob_sniff_locals), [sniff_try_l] starts each attempt from the value the declaration makes, and
   [sniff_locals_ok] is the explicit condition under which that is Gob.sniff_try.  Definitions only. *)
From AP.Model Require Import Prelude Vocab Bytes Layout Pred Dispatch IriEq Equal Coll GobTables Gob GobCheck GobWhole GobWrap.

Definition arg_recv : bytes := B "recv".
Definition arg_addr : bytes := B "&recv".
Definition what_empty : bytes := B "empty".
Definition what_nil : bytes := B "nil".
Definition cmp_eq : bytes := B "==".

(* the receiver itself or its address: which of the two the function takes is fixed by its signature (go/types) *)
Definition arg_is_recv (a : bytes) : bool := bytes_eqb a arg_recv || bytes_eqb a arg_addr.
(* `return []byte{}, nil` and `return nil, nil` both hand back no bytes: no caller (b.Write, mm[k] =, gob's own
   GobEncoder support, len(data) == 0 on the way back) tells them apart, and the wire has one value for both *)
Definition no_bytes (w : bytes) : bool := bytes_eqb w what_empty || bytes_eqb w what_nil.

(* ------------------------------------------------------------------ writing: (T) GobEncode *)
Record fw_st := mk_fw_st { fw_mm : option wmap; fw_has : option bool; fw_buf : bool; fw_enc : bool; fw_out : option wire }.
Definition fw_st0 : fw_st := mk_fw_st None None false false None.
Definition fw_stuck : wire := WRaw gob_garbage.

Section FrameWrite.
Variable callmap : bytes -> wmap * bool.
      (* <fn>(mm, x) on the receiver and an empty mm: the map as the function leaves it, and the flag it returns *)

Definition fw_step (st : fw_st) (s : gfw) : fw_st + wire :=
  match s with
  | FwMakeMap _ => inl (mk_fw_st (Some []) (fw_has st) (fw_buf st) (fw_enc st) (fw_out st))
  | FwCallMap fn arg _ =>
      if arg_is_recv arg then
        match fw_mm st with
        | Some [] => let '(m, h) := callmap fn in inl (mk_fw_st (Some m) (Some h) (fw_buf st) (fw_enc st) (fw_out st))
        | _ => inr fw_stuck
        end
      else inr fw_stuck
  | FwErrRet _ => inl st                           (* the map functions of the model do not fail *)
  | FwNoDataRet neg what _ =>
      match fw_has st with
      | Some h => if (if neg then negb h else h) then inr (if no_bytes what then WEmpty else fw_stuck) else inl st
      | None => inr fw_stuck
      end
  | FwBuffer _ => inl (mk_fw_st (fw_mm st) (fw_has st) true (fw_enc st) (fw_out st))
  | FwEncoder _ => if fw_buf st then inl (mk_fw_st (fw_mm st) (fw_has st) true true (fw_out st)) else inr fw_stuck
  | FwEncodeMap _ =>
      if fw_enc st then
        match fw_out st, fw_mm st with
        | None, Some m => inl (mk_fw_st (fw_mm st) (fw_has st) (fw_buf st) (fw_enc st) (Some (WMap m)))
        | _, _ => inr fw_stuck
        end
      else inr fw_stuck
  | FwRetBuffer _ => if fw_buf st then inr (match fw_out st with Some o => o | None => WEmpty end) else inr fw_stuck
  | FwUnrecognised _ _ => inr fw_stuck
  end.

Fixpoint fw_run (tbl : list gfw) (st : fw_st) : wire :=
  match tbl with
  | [] => fw_stuck
  | s :: r => match fw_step st s with inl st' => fw_run r st' | inr o => o end
  end.
End FrameWrite.

(* ------------------------------------------------------------------ reading: ( *T) GobDecode *)
Record fr_st := mk_fr_st { fr_mm : option wmap; fr_err : bool }.
Definition fr_st0 : fr_st := mk_fr_st None false.

(* len(data) <cmp> 0, a length being no less than 0 *)
Definition len0_cmp (cmp : bytes) (w : wire) : option bool :=
  let z := is_wempty w in
  if bytes_eqb cmp cmp_eq || bytes_eqb cmp (B "<=") then Some z
  else if bytes_eqb cmp (B "!=") || bytes_eqb cmp (B ">") then Some (negb z)
  else if bytes_eqb cmp (B ">=") then Some true
  else if bytes_eqb cmp (B "<") then Some false
  else None.

Section FrameRead.
Variable asmap : bytes -> wire -> outcome wmap.                           (* <callee>(data) *)
Variable unmap : bytes -> wmap -> outcome (list (fid * fval)).            (* <fn>(mm, x): the fields of x afterwards *)
Variable cur : list (fid * fval).                                         (* the fields of the receiver as it is *)
Variable w : wire.                                                        (* data *)

Definition fr_step (st : fr_st) (s : gfr) : fr_st + outcome (list (fid * fval)) :=
  match s with
  | FrRetNilIfEmpty cmp _ =>
      match len0_cmp cmp w with
      | Some true => inr (Ok cur)
      | Some false => inl st
      | None => inr Err
      end
  | FrDecodeAsMap callee _ =>
      match asmap callee w with
      | Ok m => inl (mk_fr_st (Some m) false)
      | Err => inl (mk_fr_st (Some []) true)          (* mm is nil, err is set; a nil map reads as an empty one *)
      | Panic p => inr (Panic p)
      | OutOfFuel => inr OutOfFuel
      end
  | FrErrRet _ => if fr_err st then inr Err else inl st
  | FrRetUnmap fn arg _ =>
      if arg_is_recv arg then match fr_mm st with Some m => inr (unmap fn m) | None => inr Err end else inr Err
  | FrUnrecognised _ _ => inr Err
  end.

Fixpoint fr_run (tbl : list gfr) (st : fr_st) : outcome (list (fid * fval)) :=
  match tbl with
  | [] => Err
  | s :: r => match fr_step st s with inl st' => fr_run r st' | inr res => res end
  end.
End FrameRead.

(* ------------------------------------------------------------------ the methods, run from the tables *)
Section FrameTables.
Variable E : gob_env.
Variable WR : list (bytes * list gwr).          (* Gen/GobR.gobr_wrappers (builder b50): gobDecodeObjectAsMap is run from its table *)
Variable FW : list (kind * list gfw).           (* Gen/GobW.gobw_frames *)
Variable FR : list (kind * list gfr).           (* Gen/GobR.gobr_frames *)

Definition fw_table (k : kind) : list gfw :=
  match kget k FW with Some t => t | None => [FwUnrecognised (B "no GobEncode method of this struct") []] end.
Definition fr_table (k : kind) : list gfr :=
  match kget k FR with Some t => t | None => [FrUnrecognised (B "no GobDecode method of this struct") []] end.

(* map<T>Properties(mm, x) for any function name: its statements, delegations inlined, on the fields of x *)
Definition callmap_of (pfs : list (fid * pfval)) (fn : bytes) : wmap * bool := gmap E (wflatten E flatten_fuel fn) pfs.

(* (T) GobEncode, the item parts of the receiver already encoded *)
Definition fw_enc_obj (k : kind) (pfs : list (fid * pfval)) : wire := fw_run (callmap_of pfs) (fw_table k) fw_st0.
(* (T) GobEncode / MarshalBinary *)
Definition fw_genc_k (k : kind) (fs : list (fid * fval)) : wire := fw_enc_obj k (pre_fields E fs).

Definition asmap_of (callee : bytes) (w : wire) : outcome wmap :=
  if bytes_eqb callee fn_as_map then wr_as_map WR w else Err.
Definition unmap_of (rec : wire -> outcome item) (cur : list (fid * fval)) (fn : bytes) (mm : wmap) : outcome (list (fid * fval)) :=
  gunmap E rec (rflatten E flatten_fuel fn) mm cur.

(* ( *T) GobDecode on a receiver holding [cur]: the fields afterwards, as the unmap function leaves them *)
Definition fr_dec_obj (rec : wire -> outcome item) (k : kind) (cur : list (fid * fval)) (w : wire) : outcome (list (fid * fval)) :=
  fr_run asmap_of (unmap_of rec cur) cur w (fr_table k) fr_st0.
(* ( *T) GobDecode / UnmarshalBinary into a zero value, fields in struct order (compare Gob.gdec_k) *)
Definition fr_gdec_k (k : kind) (w : wire) : outcome (list (fid * fval)) :=
  obind (fr_dec_obj (dec_fuel E (S (wire_depth w))) k [] w) (fun fs => Ok (canon_fields E k fs)).
End FrameTables.

(* ------------------------------------------------------------------ the table condition
   Each frame is compared, positions aside, with the statement list the proofs are made for, built around the
   function the call list of the method names (Gob.enc_fn / Gob.dec_fn_method, which is what the hand-written frames
   run); that function must be one written for the receiver's own struct (its parameter type, read by the translator
   with go/types: the kind column of gobw_funcs / gobr_funcs). *)
Definition gfw_same (a b : gfw) : bool :=
  match a, b with
  | FwMakeMap _, FwMakeMap _ | FwErrRet _, FwErrRet _ | FwBuffer _, FwBuffer _ | FwEncoder _, FwEncoder _
  | FwEncodeMap _, FwEncodeMap _ | FwRetBuffer _, FwRetBuffer _ => true
  | FwCallMap f x _, FwCallMap f' x' _ => bytes_eqb f f' && arg_is_recv x && arg_is_recv x'
  | FwNoDataRet n w _, FwNoDataRet n' w' _ => Bool.eqb n n' && no_bytes w && no_bytes w'
  | _, _ => false
  end.

Definition gfr_same (a b : gfr) : bool :=
  match a, b with
  | FrRetNilIfEmpty c _, FrRetNilIfEmpty c' _ => bytes_eqb c c'
  | FrDecodeAsMap c _, FrDecodeAsMap c' _ => bytes_eqb c c'
  | FrErrRet _, FrErrRet _ => true
  | FrRetUnmap f x _, FrRetUnmap f' x' _ => bytes_eqb f f' && arg_is_recv x && arg_is_recv x'
  | _, _ => false
  end.

Definition canon_fw (fn : bytes) : list gfw :=
  [FwMakeMap []; FwCallMap fn arg_recv []; FwErrRet []; FwNoDataRet true what_empty []; FwBuffer []; FwEncoder [];
   FwEncodeMap []; FwRetBuffer []].
Definition canon_fr (fn : bytes) : list gfr :=
  [FrRetNilIfEmpty cmp_eq []; FrDecodeAsMap fn_as_map []; FrErrRet []; FrRetUnmap fn arg_recv []].

Definition fn_kind_w (E : gob_env) (fn : bytes) (k : kind) : bool :=
  match fn_lookup fn (ge_wfuncs E) with Some (Some k', _) => kind_beq k' k | _ => false end.
Definition fn_kind_r (E : gob_env) (fn : bytes) (k : kind) : bool :=
  match fn_lookup fn (ge_rfuncs E) with Some (Some k', _) => kind_beq k' k | _ => false end.

Definition frame_w_ok (E : gob_env) (FW : list (kind * list gfw)) (k : kind) : bool :=
  all2 gfw_same (fw_table FW k) (canon_fw (enc_fn E k)) && fn_kind_w E (enc_fn E k) k.
Definition frame_r_ok (E : gob_env) (FR : list (kind * list gfr)) (k : kind) : bool :=
  all2 gfr_same (fr_table FR k) (canon_fr (dec_fn_method E k)) && fn_kind_r E (dec_fn_method E k) k.

Definition frames_w_ok (E : gob_env) (FW : list (kind * list gfw)) : bool := forallb (frame_w_ok E FW) all_kinds.
Definition frames_r_ok (E : gob_env) (FR : list (kind * list gfr)) : bool := forallb (frame_r_ok E FR) all_kinds.
Definition frames_ok (E : gob_env) (FW : list (kind * list gfw)) (FR : list (kind * list gfr)) : bool :=
  frames_w_ok E FW && frames_r_ok E FR.

(* diagnosis: the first method whose statements are not the expected ones - the struct kind, the method, and the index
   (from 0) of its first differing statement; when the statements are the expected ones but the function called is
   written for another struct, the index of the call *)
Definition m_enc : bytes := B "GobEncode".
Definition m_dec : bytes := B "GobDecode".

Definition frame_w_bad (E : gob_env) (FW : list (kind * list gfw)) (k : kind) : option (kind * bytes * nat) :=
  match first_diff gfw_same (fw_table FW k) (canon_fw (enc_fn E k)) with
  | Some i => Some (k, m_enc, i)
  | None => if fn_kind_w E (enc_fn E k) k then None else Some (k, m_enc, 1)
  end.
Definition frame_r_bad (E : gob_env) (FR : list (kind * list gfr)) (k : kind) : option (kind * bytes * nat) :=
  match first_diff gfr_same (fr_table FR k) (canon_fr (dec_fn_method E k)) with
  | Some i => Some (k, m_dec, i)
  | None => if fn_kind_r E (dec_fn_method E k) k then None else Some (k, m_dec, 3)
  end.

Definition frames_first_bad (E : gob_env) (FW : list (kind * list gfw)) (FR : list (kind * list gfr)) : option (kind * bytes * nat) :=
  match first_some (frame_w_bad E FW) all_kinds with
  | Some d => Some d
  | None => first_some (frame_r_bad E FR) all_kinds
  end.

(* ------------------------------------------------------------------ the locals of gobDecodeItem
   `v := <fresh>; if err := fn(&v, data); err == nil { return v, nil }`: what v holds before the call. *)
Definition how_conv_empty : bytes := B "conv-empty".
Definition ty_iris : bytes := B "IRIs".
Definition ty_iri : bytes := B "IRI".

Inductive sniff_local :=
| SlItems (l : list item)        (* an ItemCollection *)
| SlLeaf (v : lval)              (* IRIs, IRI *)
| SlNone.

(* make(T, n) of a slice type holds n zero values: nil items, empty IRIs *)
Definition make_n (how : bytes) : option nat :=
  if bytes_eqb how how_make0 then Some 0
  else if bytes_eqb how (B "make1") then Some 1
  else if bytes_eqb how (B "make2") then Some 2
  else None.

Definition sl_fresh (how ty : bytes) : sniff_local :=
  if bytes_eqb ty ty_items then match make_n how with Some n => SlItems (repeat INil n) | None => SlNone end
  else if bytes_eqb ty ty_iris then match make_n how with Some n => SlLeaf (LvStrs (repeat [] n)) | None => SlNone end
  else if bytes_eqb ty ty_iri && bytes_eqb how how_conv_empty then SlLeaf (LvStr [])
  else SlNone.

Fixpoint local_of (SL : list (bytes * bytes * bytes * bytes)) (fn : bytes) : sniff_local :=
  match SL with
  | [] => SlNone
  | (f, how, ty, _) :: r => if bytes_eqb f fn then sl_fresh how ty else local_of r fn
  end.

(* one attempt of gobDecodeItem, the callee run from its table (GobWrap.sniff_try_t) AND the local it is handed made
   as the declaration says *)
Definition sniff_try_l (SL : list (bytes * bytes * bytes * bytes)) (WR : list (bytes * list gwr)) (E : gob_env)
           (rec : wire -> outcome item) (fn : bytes) (w : wire) : option (outcome item) :=
  if bytes_eqb fn fn_try_items then
    match local_of SL fn with
    | SlItems cur =>
        match wr_try_items WR rec cur w with
        | Ok l => Some (Ok (IItems false (Some l)))
        | Err => None
        | Panic p => Some (Panic p)
        | OutOfFuel => Some OutOfFuel
        end
    | _ => Some Err
    end
  else if bytes_eqb fn fn_try_iris then
    match local_of SL fn with
    | SlLeaf (LvStrs l0) =>
        match wr_try_leaf WR E fn_try_iris (LvStrs l0) w with Ok v => Some (Ok (IIris false (Some (lv_strs v)))) | _ => None end
    | _ => Some Err
    end
  else if bytes_eqb fn fn_try_iri then
    match local_of SL fn with
    | SlLeaf (LvStr s0) =>
        match wr_try_leaf WR E fn_try_iri (LvStr s0) w with Ok v => Some (Ok (IIri false (lv_str v))) | _ => None end
    | _ => Some Err
    end
  else Some Err.

Definition sniff_one_l SL (WR : list (bytes * list gwr)) (E : gob_env) (rec : wire -> outcome item) (s : gsniff) (w : wire)
  : option (outcome item) :=
  match s with
  | GSTry fn _ => sniff_try_l SL WR E rec fn w
  | GSMap fn tkey always _ =>
      if bytes_eqb fn fn_as_map then
        match wr_as_map WR w with
        | Ok mm => if always || has_key tkey mm || has_key (B "id") mm then Some (dec_object E rec tkey mm) else None
        | _ => None
        end
      else Some Err
  | GSFail _ => Some Err
  | GSUnrecognised _ _ => Some Err
  end.
Fixpoint sniff_run_l SL (WR : list (bytes * list gwr)) (E : gob_env) (rec : wire -> outcome item) (l : list gsniff) (w : wire)
  : outcome item :=
  match l with
  | [] => Err
  | s :: r => match sniff_one_l SL WR E rec s w with Some o => o | None => sniff_run_l SL WR E rec r w end
  end.

(* the condition: every attempt of the sniffing order is handed a local declared empty, of the type its function
   decodes into; no declaration is left over *)
Definition expected_local (fn : bytes) : option (bytes * bytes) :=
  if bytes_eqb fn fn_try_items then Some (how_make0, ty_items)
  else if bytes_eqb fn fn_try_iris then Some (how_make0, ty_iris)
  else if bytes_eqb fn fn_try_iri then Some (how_conv_empty, ty_iri)
  else None.

Fixpoint local_decl (SL : list (bytes * bytes * bytes * bytes)) (fn : bytes) : option (bytes * bytes) :=
  match SL with
  | [] => None
  | (f, how, ty, _) :: r => if bytes_eqb f fn then Some (how, ty) else local_decl r fn
  end.

Definition decl_eqb (a b : option (bytes * bytes)) : bool :=
  match a, b with
  | Some (h, t), Some (h', t') => bytes_eqb h h' && bytes_eqb t t'
  | _, _ => false
  end.

Definition sniff_tries (l : list gsniff) : list bytes :=
  flat_map (fun s => match s with GSTry fn _ => [fn] | _ => [] end) l.

Definition sniff_locals_ok (SL : list (bytes * bytes * bytes * bytes)) (l : list gsniff) : bool :=
  forallb (fun fn => decl_eqb (local_decl SL fn) (expected_local fn)) (sniff_tries l) &&
  forallb (fun d => let '(f, _, _, _) := d in existsb (bytes_eqb f) (sniff_tries l)) SL.

(* diagnosis: the first attempt whose local is not declared as expected (function, declaration found), or the first
   declaration no attempt uses *)
Definition sniff_locals_first_bad (SL : list (bytes * bytes * bytes * bytes)) (l : list gsniff)
  : option (bytes * option (bytes * bytes)) :=
  match first_some (fun fn => if decl_eqb (local_decl SL fn) (expected_local fn) then None else Some (fn, local_decl SL fn))
                   (sniff_tries l) with
  | Some d => Some d
  | None => first_some (fun d => let '(f, how, ty, _) := d in
                                 if existsb (bytes_eqb f) (sniff_tries l) then None else Some (f, Some (how, ty))) SL
  end.

(* ------------------------------------------------------------------ tables edited the way realistic source changes edit them *)
Fixpoint kset {A} (k : kind) (a : A) (l : list (kind * A)) : list (kind * A) :=
  match l with
  | [] => [(k, a)]
  | (k', a') :: r => if kind_beq k k' then (k, a) :: r else (k', a') :: kset k a r
  end.

Definition edit_fw (k : kind) (f : gfw -> list gfw) (FW : list (kind * list gfw)) : list (kind * list gfw) :=
  map (fun p => if kind_beq (fst p) k then (fst p, flat_map f (snd p)) else p) FW.
Definition edit_fr (k : kind) (f : gfr -> list gfr) (FR : list (kind * list gfr)) : list (kind * list gfr) :=
  map (fun p => if kind_beq (fst p) k then (fst p, flat_map f (snd p)) else p) FR.

(* ( *T) GobDecode without `if len(data) == 0 { return nil }` *)
Definition fr_drop_empty_return (k : kind) : list (kind * list gfr) -> list (kind * list gfr) :=
  edit_fr k (fun s => match s with FrRetNilIfEmpty _ _ => [] | _ => [s] end).
(* ( *T) GobDecode testing `len(data) != 0` *)
Definition fr_flip_empty_test (k : kind) : list (kind * list gfr) -> list (kind * list gfr) :=
  edit_fr k (fun s => match s with FrRetNilIfEmpty _ p => [FrRetNilIfEmpty (B "!=") p] | _ => [s] end).
(* (T) GobEncode without `if !hasData { return []byte{}, nil }`: the flag is ignored *)
Definition fw_drop_nodata (k : kind) : list (kind * list gfw) -> list (kind * list gfw) :=
  edit_fw k (fun s => match s with FwNoDataRet _ _ _ => [] | _ => [s] end).
(* (T) GobEncode testing `hasData` instead of `!hasData` *)
Definition fw_flip_nodata (k : kind) : list (kind * list gfw) -> list (kind * list gfw) :=
  edit_fw k (fun s => match s with FwNoDataRet n w p => [FwNoDataRet (negb n) w p] | _ => [s] end).
(* (T) GobEncode returning nil instead of []byte{} when nothing was written: the same frame *)
Definition fw_nodata_nil (k : kind) : list (kind * list gfw) -> list (kind * list gfw) :=
  edit_fw k (fun s => match s with FwNoDataRet n _ p => [FwNoDataRet n what_nil p] | _ => [s] end).
(* a frame that calls the map / unmap function of another type *)
Definition fw_call_other (k : kind) (fn : bytes) : list (kind * list gfw) -> list (kind * list gfw) :=
  edit_fw k (fun s => match s with FwCallMap _ a p => [FwCallMap fn a p] | _ => [s] end).
Definition fr_call_other (k : kind) (fn : bytes) : list (kind * list gfr) -> list (kind * list gfr) :=
  edit_fr k (fun s => match s with FrRetUnmap _ a p => [FrRetUnmap fn a p] | _ => [s] end).

(* the same change seen by the call lists too (both tables follow the source) *)
Definition set_methods (E : gob_env) (em dm : list (kind * list bytes)) : gob_env :=
  {| ge_wfuncs := ge_wfuncs E; ge_rfuncs := ge_rfuncs E; ge_enc_methods := em; ge_dec_methods := dm;
     ge_sw_enc := ge_sw_enc E; ge_sw_enc_default := ge_sw_enc_default E; ge_sw_dec := ge_sw_dec E;
     ge_sw_dec_default := ge_sw_dec_default E; ge_sw_typer := ge_sw_typer E; ge_sw_typer_default := ge_sw_typer_default E;
     ge_layout := ge_layout E; ge_layout_endpoints := ge_layout_endpoints E;
     ge_leaf_w := ge_leaf_w E; ge_leaf_r := ge_leaf_r E; ge_leaf_layouts := ge_leaf_layouts E; ge_sniff := ge_sniff E;
     ge_codecs_w := ge_codecs_w E; ge_codecs_r := ge_codecs_r E; ge_enc_item := ge_enc_item E;
     ge_typer_presets := ge_typer_presets E;
     ge_endpoints_codec := ge_endpoints_codec E |}.
Definition env_dec_calls_other (E : gob_env) (k : kind) (fn : bytes) : gob_env :=
  set_methods E (ge_enc_methods E)
    (map (fun p => if kind_beq (fst p) k
                   then (fst p, match snd p with a :: b :: _ :: r => a :: b :: fn :: r | l => l end) else p) (ge_dec_methods E)).

(* gobDecodeItem handing an attempt a local that is not empty: `items := make(ItemCollection, 1)` *)
Definition sl_edit_how (fn how : bytes) (SL : list (bytes * bytes * bytes * bytes)) : list (bytes * bytes * bytes * bytes) :=
  map (fun d => let '(f, h, ty, p) := d in if bytes_eqb f fn then (f, how, ty, p) else d) SL.

(* ------------------------------------------------------------------ the leaf structs Source / PublicKey / Endpoints
   Their GobEncode / GobDecode methods hold the property statements inline; the translator emits the statements as
   entries (gobw_leaf / gobr_leaf) and the frame around them as a list of ROLES, each role the name of one literally
   matched statement (translator/gobtables.go, gobLeafWriteFrame / gobLeafReadFrame), "entries" where the statements
   stand.  Model/GobWhole.leaf_frames_ok compares the role lists with frame_w / frame_r1 / frame_r2 and Model/Gob.v
   gives those the hand-written meaning enc_map_gen / rdec_leaf.  Here the role lists are RUN: each role is the
   statement it names. *)
Section LeafRolesWrite.
Variable entries : wmap * bool.        (* the inline statements, from the empty map and hasData = false *)

Definition role_w_step (st : fw_st) (r : bytes) : fw_st + wire :=
  if bytes_eqb r (B "decl") then          (* var ( mm = make(map[string][]byte); err error; hasData bool ) *)
    inl (mk_fw_st (Some []) (Some false) (fw_buf st) (fw_enc st) (fw_out st))
  else if bytes_eqb r (B "entries") then
    match fw_mm st, fw_has st with
    | Some [], Some false => let '(m, h) := entries in inl (mk_fw_st (Some m) (Some h) (fw_buf st) (fw_enc st) (fw_out st))
    | _, _ => inr fw_stuck
    end
  else if bytes_eqb r (B "nodata-empty") then fw_step (fun _ => ([], false)) st (FwNoDataRet true what_empty [])
  else if bytes_eqb r (B "buffer") then fw_step (fun _ => ([], false)) st (FwBuffer [])
  else if bytes_eqb r (B "encoder") then fw_step (fun _ => ([], false)) st (FwEncoder [])
  else if bytes_eqb r (B "encode-mm") then fw_step (fun _ => ([], false)) st (FwEncodeMap [])
  else if bytes_eqb r (B "return-bytes") then fw_step (fun _ => ([], false)) st (FwRetBuffer [])
  else inr fw_stuck.

Fixpoint role_w_run (roles : list bytes) (st : fw_st) : wire :=
  match roles with
  | [] => fw_stuck
  | r :: rest => match role_w_step st r with inl st' => role_w_run rest st' | inr o => o end
  end.
End LeafRolesWrite.

Record lf_st := mk_lf_st { lf_mm : option wmap; lf_err : bool; lf_dec : bool; lf_cur : list (fid * fval) }.

Section LeafRolesRead.
Variable entries : wmap -> list (fid * fval) -> outcome (list (fid * fval)).    (* the inline statements *)
Variable w : wire.

Definition role_r_step (st : lf_st) (r : bytes) : lf_st + outcome (list (fid * fval)) :=
  if bytes_eqb r (B "empty-nil") then (if is_wempty w then inr (Ok (lf_cur st)) else inl st)
  else if bytes_eqb r (B "decode-as-map") then      (* mm, err := gobDecodeObjectAsMap(data) *)
    match gd_map w with
    | Ok m => inl (mk_lf_st (Some m) false (lf_dec st) (lf_cur st))
    | Err => inl (mk_lf_st (Some []) true (lf_dec st) (lf_cur st))
    | Panic p => inr (Panic p)
    | OutOfFuel => inr OutOfFuel
    end
  else if bytes_eqb r (B "err-return") then (if lf_err st then inr Err else inl st)
  else if bytes_eqb r (B "make-mm") then inl (mk_lf_st (Some []) (lf_err st) (lf_dec st) (lf_cur st))
  else if bytes_eqb r (B "decoder") then inl (mk_lf_st (lf_mm st) (lf_err st) true (lf_cur st))
  else if bytes_eqb r (B "decode-mm") then          (* if err := g.Decode(&mm); err != nil { return err } *)
    match lf_dec st, lf_mm st with
    | true, Some _ =>
        match gd_map w with
        | Ok m => inl (mk_lf_st (Some m) (lf_err st) true (lf_cur st))
        | Err => inr Err
        | Panic p => inr (Panic p)
        | OutOfFuel => inr OutOfFuel
        end
    | _, _ => inr Err
    end
  else if bytes_eqb r (B "entries") then
    match lf_mm st with
    | Some m => match entries m (lf_cur st) with
                | Ok fs => inl (mk_lf_st (lf_mm st) (lf_err st) (lf_dec st) fs)
                | o => inr o
                end
    | None => inr Err
    end
  else if bytes_eqb r (B "return-nil") then inr (Ok (lf_cur st))
  else inr Err.

Fixpoint role_r_run (roles : list bytes) (st : lf_st) : outcome (list (fid * fval)) :=
  match roles with
  | [] => Err
  | r :: rest => match role_r_step st r with inl st' => role_r_run rest st' | inr o => o end
  end.
End LeafRolesRead.

(* T.GobEncode / ( *T).GobDecode of a leaf struct, frame and statements run from the tables *)
Definition lf_enc (E : gob_env) (n : bytes) (pfs : list (fid * pfval)) : wire :=
  match aget n (ge_leaf_w E) with
  | Some (rows, roles) => role_w_run (gmap_gen (wenc0 E) rows pfs) roles fw_st0
  | None => fw_stuck
  end.
Definition lf_dec_leaf (E : gob_env) (rec : wire -> outcome item) (n : bytes) (cur : list (fid * fval)) (w : wire)
  : outcome (list (fid * fval)) :=
  match aget n (ge_leaf_r E) with
  | Some (rows, roles) => role_r_run (fun mm c => gunmap_gen (rdec0 E rec) rows mm c) w roles (mk_lf_st None false false cur)
  | None => Err
  end.
