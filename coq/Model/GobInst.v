(* The gob model instantiated with the tables regenerated from the source (the Gen directory), as repaired, and the
   same tables edited back to what the pinned tree said (for the *_pinned_refuted witnesses). *)
From AP.Model Require Import Prelude Vocab Bytes Layout Dispatch GobTables Gob.
From AP.Gen Require Import Layout Switches GobW GobR.

Definition genv : gob_env := {|
  ge_wfuncs := gobw_funcs; ge_rfuncs := gobr_funcs;
  ge_enc_methods := gob_enc_methods; ge_dec_methods := gob_dec_methods;
  ge_sw_enc := sw_gobEncodeItem; ge_sw_enc_default := sw_gobEncodeItem_default;
  ge_sw_dec := sw_gobDecodeItem; ge_sw_dec_default := sw_gobDecodeItem_default;
  ge_sw_typer := sw_GetItemByType; ge_sw_typer_default := sw_GetItemByType_default;
  ge_layout := layout_of; ge_layout_endpoints := layout_endpoints;
  ge_leaf_w := gobw_leaf; ge_leaf_r := gobr_leaf; ge_leaf_layouts := gob_leaf_layouts; ge_sniff := gob_sniff;
  ge_codecs_w := gobw_codecs; ge_codecs_r := gobr_codecs; ge_enc_item := gob_enc_item; ge_typer_presets := gob_typer_presets;
  ge_endpoints_codec := true |}.

(* ---- the pinned tree (commit e898418), as edits of the regenerated tables ---- *)
Definition w_key (e : gwentry) : bytes := match e with GW _ k _ _ _ _ _ => k | _ => [] end.
Definition r_key (e : grentry) : bytes := match e with GR _ k _ _ => k | _ => [] end.

Definition edit_w (fn : bytes) (f : gwentry -> list gwentry) (l : list (bytes * option kind * list gwentry)) :=
  map (fun r => let '(n, k, es) := r in if bytes_eqb n fn then (n, k, flat_map f es) else r) l.
Definition edit_r (fn : bytes) (f : grentry -> list grentry) (l : list (bytes * option kind * list grentry)) :=
  map (fun r => let '(n, k, es) := r in if bytes_eqb n fn then (n, k, flat_map f es) else r) l.

Definition drop_w (key : bytes) (e : gwentry) : list gwentry := if bytes_eqb (w_key e) key then [] else [e].
Definition drop_r (key : bytes) (e : grentry) : list grentry := if bytes_eqb (r_key e) key then [] else [e].
Definition sign_guard (keys : list bytes) (e : gwentry) : list gwentry :=
  match e with
  | GW f k c gf GNe0 fl p => if in_list keys k then [GW f k c gf GGt0 fl p] else [e]
  | _ => [e]
  end.

Definition gobw_funcs_pinned :=
  edit_w (B "mapIntransitiveActivityProperties") (drop_w (B "origin"))
  (edit_w (B "mapLinkProperties") (drop_w (B "preview"))
  (edit_w (B "mapOrderedCollectionPageProperties") (drop_w (B "startIndex"))
  (edit_w (B "mapObjectProperties") (sign_guard [B "duration"])
  (edit_w (B "mapPlaceProperties") (sign_guard [B "accuracy"; B "altitude"; B "latitude"; B "longitude"; B "radius"])
  (edit_w (B "mapActorProperties")
     (fun e => match e with
               | GW f k c gf (GSumLenGt0 _) fl p => if bytes_eqb k (B "publicKey") then [GW f k c gf (GSumLenGt0 [B "PublicKeyPem"; B "ID"]) fl p] else [e]
               | _ => [e]
               end)
  gobw_funcs))))).

Definition gobr_funcs_pinned :=
  edit_r (B "unmapPlaceProperties") (drop_r (B "longitude"))
  (edit_r (B "unmapProfileProperties")
     (fun e => match e with GR f k c p => if bytes_eqb k (B "describes") then [GR f (B "Describes") c p] else [e] | _ => [e] end)
  (edit_r (B "unmapLinkProperties") (drop_r (B "preview"))
  (edit_r (B "unmapOrderedCollectionPageProperties") (drop_r (B "startIndex"))
  (edit_r (B "unmapActorProperties")
     (fun e => match e with GR f k c p => if bytes_eqb k (B "endpoints") then [GR f k (B "*Endpoints.GobDecode") p] else [e] | _ => [e] end)
  gobr_funcs)))).

(* pinned gobDecodeItem: a property map is an object only when it has a "type" or an "id" *)
Definition gob_sniff_pinned : list gsniff :=
  map (fun s => match s with GSMap fn tkey _ pos => GSMap fn tkey false pos | _ => s end) gob_sniff.

(* pinned gobEncodeItem: no case for an IRI held by pointer (it fell through to `return []byte{}, nil`) *)
Definition gob_enc_item_pinned : list genc_stmt :=
  map (fun s => match s with GEIriBlock byv _ fb pos => GEIriBlock byv false fb pos | _ => s end) gob_enc_item.

Definition genv_pinned : gob_env := {|
  ge_wfuncs := gobw_funcs_pinned; ge_rfuncs := gobr_funcs_pinned;
  ge_enc_methods := gob_enc_methods; ge_dec_methods := gob_dec_methods;
  ge_sw_enc := sw_gobEncodeItem; ge_sw_enc_default := sw_gobEncodeItem_default;
  ge_sw_dec := sw_gobDecodeItem; ge_sw_dec_default := sw_gobDecodeItem_default;
  ge_sw_typer := sw_GetItemByType; ge_sw_typer_default := sw_GetItemByType_default;
  ge_layout := layout_of; ge_layout_endpoints := layout_endpoints;
  ge_leaf_w := gobw_leaf; ge_leaf_r := gobr_leaf; ge_leaf_layouts := gob_leaf_layouts; ge_sniff := gob_sniff_pinned;
  ge_codecs_w := gobw_codecs; ge_codecs_r := gobr_codecs; ge_enc_item := gob_enc_item_pinned; ge_typer_presets := gob_typer_presets;
  ge_endpoints_codec := false |}.
