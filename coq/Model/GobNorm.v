(* C03: the unset/empty normal form the round trip is stated up to, and the domain [wf_gob] of the
   theorem.  Definitions only.

   Normal form: nil, typed nil, the nil IRI ("" or "-"), an empty list and a struct with no set property
   are all the unset item; an empty language-value list is unset; zero numbers, false, the zero instant
   are unset; structs come back in pointer form, lists and IRIs in value form; properties in struct
   order.  Nothing else is identified: instants keep seconds, nanoseconds and zone offset. *)
From AP.Model Require Import Prelude Vocab Bytes Layout Pred Dispatch GobTables Gob.

Section Norm.
Variable L : kind -> list fdecl.        (* struct layouts *)
Variable LE : list fdecl.               (* layout of Endpoints *)

Definition norm_nlv (c : nlv) : nlv := match c with Some (x :: r) => c | _ => None end.

(* properties in struct order, unset ones dropped *)
Definition reorder (ds : list fdecl) (nfs : list (fid * option fval)) : list (fid * fval) :=
  flat_map (fun d => match fget (fd_fid d) nfs with Some (Some v) => [(fd_fid d, v)] | _ => [] end) ds.

Definition reorder_items (ds : list fdecl) (ne : list (fid * item)) : list (fid * item) :=
  flat_map (fun d => match fget (fd_fid d) ne with
                     | Some INil | None => []
                     | Some i => [(fd_fid d, i)]
                     end) ds.

Fixpoint norm_item (i : item) : item :=
  match i with
  | INil | ITNil _ => INil
  | IIri _ s => if iri_nilish s then INil else IIri false s
  | IIris _ None => INil
  | IIris _ (Some []) => INil
  | IIris _ (Some l) => IIris false (Some l)
  | IItems _ None => INil
  | IItems _ (Some l) =>
      match l with
      | [] => INil
      | _ => IItems false (Some ((fix go (l : list item) : list item :=
                                    match l with [] => [] | x :: r => norm_item x :: go r end) l))
      end
  | IObj _ k fs =>
      match reorder (L k) ((fix go (fs : list (fid * fval)) : list (fid * option fval) :=
                              match fs with [] => [] | (f, v) :: r => (f, norm_fval v) :: go r end) fs) with
      | [] => INil
      | fs' => IObj true k fs'
      end
  end
with norm_fval (v : fval) : option fval :=
  match v with
  | FItem i => match norm_item i with INil => None | i' => Some (FItem i') end
  | FItems None => None
  | FItems (Some l) =>
      match l with
      | [] => None
      | _ => Some (FItems (Some ((fix go (l : list item) : list item :=
                                    match l with [] => [] | x :: r => norm_item x :: go r end) l)))
      end
  | FNlv c => match norm_nlv c with None => None | c' => Some (FNlv c') end
  | FStr [] => None
  | FStr _ => Some v
  | FTime t => if vtime_is_zero t then None else Some v
  | FDur d => if (d =? 0)%Z then None else Some v
  | FUint n => if (n =? 0)%N then None else Some v
  | FInt z => if (z =? 0)%Z then None else Some v
  | FBool b => if b then Some v else None
  | FFloat m => if (m =? 0)%Z then None else Some v
  | FSource mt c => match mt, norm_nlv c with [], None => None | _, c' => Some (FSource mt c') end
  | FEndpoints None => None
  | FEndpoints (Some e) =>
      match reorder_items LE ((fix go (e : list (fid * item)) : list (fid * item) :=
                                 match e with [] => [] | (f, x) :: r => (f, norm_item x) :: go r end) e) with
      | [] => None
      | e' => Some (FEndpoints (Some e'))
      end
  | FPubKey [] [] [] => None
  | FPubKey _ _ _ => Some v
  end.

Definition norm_pairs (fs : list (fid * fval)) : list (fid * option fval) :=
  (fix go (fs : list (fid * fval)) : list (fid * option fval) :=
     match fs with [] => [] | (f, v) :: r => (f, norm_fval v) :: go r end) fs.
Definition norm_fields (k : kind) (fs : list (fid * fval)) : list (fid * fval) := reorder (L k) (norm_pairs fs).
(* the normal form of property [f] of a struct: None = unset *)
Definition onorm (fs : list (fid * fval)) (f : fid) : option fval :=
  match getf f fs with Some v => norm_fval v | None => None end.

End Norm.

(* ------------------------------------------------------------------ domain of the theorem *)
Section Wf.
Variable E : gob_env.

(* the value held by a field fits the Go type of the field *)
Definition shape_ok (t : gotype) (v : fval) : bool :=
  match t, v with
  | TItem, FItem _ | TItems, FItems _ | TNlv, FNlv _ | TString, FStr _ | TTime, FTime _ | TDur, FDur _
  | TUint, FUint _ | TInt64, FInt _ | TBool, FBool _ | TFloat, FFloat _ | TSource, FSource _ _
  | TEndpoints, FEndpoints _ => true
  | TPubKey, FPubKey _ owner _ => match owner with [] => true | _ => negb (iri_nilish owner) end
  | _, _ => false
  end.

Fixpoint wf_gob (i : item) : bool :=
  match i with
  | INil | ITNil _ | IIri _ _ | IIris _ _ => true
  | IItems _ None => true
  | IItems _ (Some l) => (fix go (l : list item) : bool := match l with [] => true | x :: r => wf_gob x && go r end) l
  | IObj _ k fs =>
      (* the type name selects this struct (the wire carries no other discriminator) *)
      type_selects E k (get_str F_Type fs) &&
      (fix go (fs : list (fid * fval)) : bool :=
         match fs with
         | [] => true
         | (f, v) :: r => match ftype E k f with Some t => shape_ok t v | None => true end && wf_gob_fval v && go r
         end) fs
  end
with wf_gob_fval (v : fval) : bool :=
  match v with
  | FItem i => wf_gob i
  | FItems None => true
  | FItems (Some l) => (fix go (l : list item) : bool := match l with [] => true | x :: r => wf_gob x && go r end) l
  | FEndpoints None => true
  | FEndpoints (Some e) =>
      (fix go (e : list (fid * item)) : bool := match e with [] => true | (_, x) :: r => wf_gob x && go r end) e
  | _ => true
  end.

End Wf.

(* the round trip on one value, as a boolean (witnesses, examples, case files) *)
Definition roundtrip_ok (E : gob_env) (x : item) : bool :=
  match gdec E (genc E x) with
  | Ok y => item_eqb (norm_item (ge_layout E) (ge_layout_endpoints E) y) (norm_item (ge_layout E) (ge_layout_endpoints E) x)
  | _ => false
  end.
