(* Entry types of the generated gob property tables (Gen/GobW.v, Gen/GobR.v).  Definitions only.
   One entry per top-level statement of a map<T>Properties / unmap<T>Properties function, in source
   order; see translator/gobtables.go for the statement shapes. *)
From AP.Model Require Import Prelude Vocab.

(* guards are translated structurally, never interpreted by the translator *)
Inductive gguard :=
| GNeNil                          (* x.F != nil *)
| GLenGt0                         (* len(x.F) > 0 *)
| GNotZeroTime                    (* !x.F.IsZero() *)
| GGt0                            (* x.F > 0 *)
| GNe0                            (* x.F != 0 *)
| GIsTrue                         (* x.F *)
| GTrue                           (* no guard *)
| GHasData                        (* hasData: something was written before *)
| GSumLenGt0 (subs : list bytes)  (* len(x.F.A)+len(x.F.B)+... > 0 *)
| GOther (src : bytes).           (* any other condition, kept as text *)

Inductive gwentry :=
| GW (f : fid) (key codec : bytes) (gf : fid) (g : gguard) (flag : bool) (pos : bytes)
      (* if <g on x.gf> { mm[key] = codec(x.f); [hasData = true when flag] } *)
| GWFlag (gf : fid) (g : gguard) (pos : bytes)          (* if <g on x.gf> { hasData = true } *)
| GWDeleg (on fn pos : bytes)                           (* OnX(x, func(p) { hasData, err = fn(mm, p) }) / fn(mm, x) *)
| GWUnrecognised (src pos : bytes).

Inductive grentry :=
| GR (f : fid) (key codec pos : bytes)                  (* if raw, ok := mm[key]; ok { x.f = codec(raw) } *)
| GRDeleg (on fn pos : bytes)
| GRUnrecognised (src pos : bytes).

(* gobDecodeItem tries the shapes a byte string can have in source order (Gen/GobR.gob_sniff): one
   entry per top-level statement group of its body *)
Inductive gsniff :=
| GSTry (fn pos : bytes)
      (* v := make(..); if err := fn(&v, data); err == nil { return v, .. } *)
| GSMap (fn tkey : bytes) (always : bool) (pos : bytes)
      (* mm, err := fn(data); if err == nil { isObject = true [always]; typ from mm[tkey] };
         if isObject { it, err := ItemTyperFunc(typ); ...; switch it.GetType() {..}; return it, err } *)
| GSFail (pos : bytes)                                  (* return nil, errors.New(..) *)
| GSUnrecognised (src pos : bytes).
