(* Entry types of the generated gob property tables (Gen/GobW.v, Gen/GobR.v).  Definitions only.
   One entry per top-level statement of a map<T>Properties / unmap<T>Properties function, in source
   order; see translator/gobtables.go for the statement shapes. *)
From AP.Model Require Import Prelude Vocab.

(* guards are translated structurally, never interpreted by the translator *)
Inductive gguard :=
| GNeNil                          (* x.F != nil *)
| GLenGt0                         (* len(x.F) > 0 *)
| GNotZeroTime                    (* !x.F.IsZero() *)
| GGt0                            (* x.F > 0 *)
| GNe0                            (* x.F != 0 *)
| GIsTrue                         (* x.F *)
| GTrue                           (* no guard *)
| GHasData                        (* hasData: something was written before *)
| GSumLenGt0 (subs : list bytes)  (* len(x.F.A)+len(x.F.B)+... > 0 *)
| GOther (src : bytes).           (* any other condition, kept as text *)

Inductive gwentry :=
| GW (f : fid) (key codec : bytes) (gf : fid) (g : gguard) (flag : bool) (pos : bytes)
      (* if <g on x.gf> { mm[key] = codec(x.f); [hasData = true when flag] } *)
| GWFlag (gf : fid) (g : gguard) (pos : bytes)          (* if <g on x.gf> { hasData = true } *)
| GWDeleg (on fn pos : bytes)                           (* OnX(x, func(p) { hasData, err = fn(mm, p) }) / fn(mm, x) *)
| GWUnrecognised (src pos : bytes).

Inductive grentry :=
| GR (f : fid) (key codec pos : bytes)                  (* if raw, ok := mm[key]; ok { x.f = codec(raw) } *)
| GRDeleg (on fn pos : bytes)
| GRUnrecognised (src pos : bytes).

(* gobDecodeItem tries the shapes a byte string can have in source order (Gen/GobR.gob_sniff): one
   entry per top-level statement group of its body *)
Inductive gsniff :=
| GSTry (fn pos : bytes)
      (* v := make(..); if err := fn(&v, data); err == nil { return v, .. } *)
| GSMap (fn tkey : bytes) (always : bool) (pos : bytes)
      (* mm, err := fn(data); if err == nil { isObject = true [always]; typ from mm[tkey] };
         if isObject { it, err := ItemTyperFunc(typ); ...; switch it.GetType() {..}; return it, err } *)
| GSFail (pos : bytes)                                  (* return nil, errors.New(..) *)
| GSUnrecognised (src pos : bytes).

(* ------------------------------------------------------------------ one-call leaf codecs (builder b43)
   The GobEncode / GobDecode methods of the leaf types (IRI, ActivityVocabularyType, MimeType, LangRef,
   Content, NaturalLanguageValues, LangRefValue, IRIs) and the one-call helpers of encoding_gob.go /
   decoding_gob.go (gobEncodeInt64 .., gobEncodeStringLikeType, gobDecodeInt64 .., gobDecodeDuration,
   gobDecodeNaturalLanguageValues, gobDecodeEndpoints), statement by statement, in source order
   (Gen/GobW.gobw_codecs, Gen/GobR.gobr_codecs).  A statement of any other shape is an Unrecognised entry. *)
Inductive glw :=
| LwRetEmptyIfLen0 (sels : list bytes) (pos : bytes)
      (* if len(x) == 0 { return []byte{}, nil }            sels = [""]
         if len(x.A) == 0 && len(x.B) == 0 { return .. }     sels = ["A"; "B"] *)
| LwRetRaw (pos : bytes)                         (* return []byte(x), nil *)
| LwBuffer (pos : bytes)                         (* b := bytes.Buffer{}  |  b := new(bytes.Buffer) *)
| LwEncoder (pos : bytes)                        (* gg := gob.NewEncoder(&b)  |  gob.NewEncoder(b) for a pointer *)
| LwMkKvs (k v : bytes) (pos : bytes)
      (* mm := make([]kv, len(x)); for i, l := range x { mm[i] = kv{K: []byte(l.<k>), V: l.<v>} } *)
| LwMkKv (k v : bytes) (pos : bytes)             (* mm := kv{K: []byte(x.<k>), V: []byte(x.<v>)} *)
| LwMkByteList (pos : bytes)
      (* bb := make([][]byte, 0); for _, e := range x { bb = append(bb, []byte(e)) } *)
| LwEncode (via src : bytes) (pos : bytes)
      (* if err := gg.Encode(S); err != nil { return nil, err }                       via = "Encode"
         if err := gobEncodeStringLikeType(gg, S); err != nil { return nil, err }     via = the helper's name
         src: "local" (the value built before), "recv" (x, or []byte(x)) *)
| LwRetBuffer (pos : bytes)                      (* return b.Bytes(), nil *)
| LwHelperEncode (pos : bytes)                   (* if err := g.Encode(s); err != nil { return err }   (the helper itself) *)
| LwHelperRetNil (pos : bytes)                   (* return nil *)
| LwUnrecognised (src pos : bytes).

Inductive glr :=
| LrRetNilIfEmpty (pos : bytes)                  (* if len(data) == 0 { return nil } *)
| LrStoreRaw (pos : bytes)                       (* *x = T(data) *)
| LrDeclare (how ty : bytes) (pos : bytes)
      (* a local of Go type T: var L T ("var") | L := make(T, 0) ("make0") | L := T{} ("lit") | L := new(T) ("new", ty = "*T") *)
| LrDecoder (pos : bytes)                        (* g := gob.NewDecoder(bytes.NewReader(data)) *)
| LrDecodeLocal (pos : bytes)
      (* if err := gob.NewDecoder(bytes.NewReader(data)).Decode(&L); err != nil { return err }
         err = gob.NewDecoder(bytes.NewReader(data)).Decode(&L); if err != nil { return err }   (two statements) *)
| LrTryDecodeRecv (pos : bytes)
      (* err := gob.NewDecoder(bytes.NewReader(data)).Decode(x); if err == nil { return nil }   (two statements) *)
| LrStoreLocal (pos : bytes)                     (* *x = T(L)  |  *x = L *)
| LrAppendKvs (ref val : bytes) (pos : bytes)
      (* for _, m := range L { *x = append( *x, LangRefValue{Ref: LangRef(m.<ref>), Value: m.<val>}) } *)
| LrStoreKv (field part : bytes) (pos : bytes)   (* x.<field> = T(L.<part>)  |  x.<field> = L.<part> *)
| LrAppendStrs (pos : bytes)                     (* for _, b := range L { *x = append( *x, IRI(b)) } *)
| LrRetNil (pos : bytes)                         (* return nil *)
| LrRetDecodeParam (ty : bytes) (pos : bytes)     (* return g.Decode(p), p *T     (helper: decode into the pointer parameter) *)
| LrDecodeLocalErr (pos : bytes)                 (* err := gob.NewDecoder(bytes.NewReader(data)).Decode(&L)   (helper) *)
| LrMethodDecode (callee : bytes) (pos : bytes)  (* err := L.GobDecode(data)     (helper: the method of the local's type) *)
| LrRetLocalErr (pos : bytes)                    (* return L, err                (helper) *)
| LrUnrecognised (src pos : bytes).

(* gobEncodeItem, statement group by statement group (Gen/GobW.gob_enc_item) *)
Inductive genc_stmt :=
| GENilEmpty (pos : bytes)                       (* if IsNil(it) { return []byte{}, nil } *)
| GEIriBlock (byvalue byptr fallback : bool) (pos : bytes)
      (* if IsIRI(it) { [if i, ok := it.(IRI); ok { return []byte(i), nil }]      byvalue
                        [if i, ok := it.( *IRI); ok { return []byte( *i), nil }]   byptr
                        [return []byte{}, nil] }                                  fallback *)
| GEBuffer (pos : bytes)                         (* b := bytes.Buffer{}; var err error *)
| GEOn (pred on callee : bytes) (pos : bytes)
      (* if <pred>(it) { err = <on>(it, func(p *T) error { bytes, err := <callee>; b.Write(bytes); return err }) } *)
| GESwitch (pred : bytes) (pos : bytes)
      (* if <pred>(it) { switch it.GetType() { .. } }      the cases are Gen/Switches.sw_gobEncodeItem *)
| GEReturn (pos : bytes)                         (* return b.Bytes(), err *)
| GEUnrecognised (src pos : bytes).

(* what ItemTyperFunc = GetItemByType creates for a case of its switch (Gen/GobR.gob_typer_presets):
   the fields the expression of the case sets, with what *)
Inductive gpreset :=
| GPType (pos : bytes)                           (* Type: typ *)
| GPNlvNew (f : fid) (pos : bytes)               (* o.F = NaturalLanguageValuesNew() *)
| GPTypeDefault (list_name : bytes) (names : list bytes) (dflt : bytes) (pos : bytes)
      (* if !(L.Contains(typ)) { typ = D }: a name outside the list L (its elements: names) is replaced by D *)
| GPUnrecognised (src pos : bytes).

(* ------------------------------------------------------------------ the wrappers around the codecs (builder b50)
   The functions that stand between the property tables and the one-call codecs, statement by statement, in source
   order (Gen/GobR.gobr_wrappers, Gen/GobW.gobw_wrappers; translator/gobwrap.go):
     decoding_gob.go  tryDecodeItems, tryDecodeIRIs, tryDecodeIRI, gobDecodeItems, gobDecodeObjectAsMap
     encoding_gob.go  gobEncodeItems, gobEncodeIRIs, gobEncodeItemOrLink
   A statement of any other shape is an Unrecognised entry.  The interpreters are in Model/GobWrap.v. *)
Inductive gwr :=
| WrDeclare (how ty : bytes) (pos : bytes)
      (* a local L of Go type T: L := make(T, 0) ("make0") | L := make(T) ("make") *)
| WrDecoder (pos : bytes)                        (* g := gob.NewDecoder(bytes.NewReader(data)) *)
| WrDecodeLocal (pos : bytes)
      (* if err := g.Decode(&L); err != nil { return err }        (one result)
         if err := g.Decode(&L); err != nil { return nil, err }   (two results) *)
| WrEachDecode (callee how : bytes) (pos : bytes)
      (* for _, it := range L { ob, err := <callee>(it); if err != nil { return err }; STORE }
         STORE = *x = append( *x, ob)              how = "append"
                 x.Append(ob) | _ = x.Append(ob)   how = "Append"   (the method, which skips a member already there) *)
| WrRetNil (pos : bytes)                         (* return nil *)
| WrRetRecvDecode (callee : bytes) (pos : bytes)
      (* return x.GobDecode(data), x the pointer parameter; callee = "<type of the pointee>.GobDecode" (go/types) *)
| WrCallInto (callee : bytes) (pos : bytes)      (* if err := <callee>(&L, data); err != nil { return nil, err } *)
| WrRetLocal (pos : bytes)                       (* return L, nil *)
| WrUnrecognised (src pos : bytes).

Inductive gww :=
| WwBuffer (pos : bytes)                         (* b := bytes.Buffer{} *)
| WwDeclare (ty : bytes) (pos : bytes)           (* tt := make(T, 0) *)
| WwEachEncode (over callee : bytes) (pos : bytes)
      (* for _, it := range <col | col.Collection()> { single, err := <callee>(it); if err != nil { return nil, err };
                                                        tt = append(tt, single) }        over = "" | "Collection" *)
| WwEncode (src : bytes) (pos : bytes)
      (* err := gob.NewEncoder(&b).Encode(S)     src = "local" (tt) | "param" (col) | the text of any other S *)
| WwRetBufferErr (pos : bytes)                   (* return b.Bytes(), err *)
| WwIfItemRet (callee : bytes) (pos : bytes)     (* if ob, ok := it.(Item); ok { return <callee>(ob) } *)
| WwOn (on callee : bytes) (pos : bytes)
      (* err := <on>(it, func(l *T) error { bytes, err := l.M(); b.Write(bytes); return err })     callee = "T.M" *)
| WwUnrecognised (src pos : bytes).

(* ------------------------------------------------------------------ the frames of the struct methods (builder b55)
   The bodies of (T) GobEncode / ( *T) GobDecode of the 14 vocabulary struct types, statement by statement, in source
   order (Gen/GobW.gobw_frames, Gen/GobR.gobr_frames; translator/gobframes.go).  What a statement says beyond its
   shape is carried by the entry; a statement of any other shape is an Unrecognised entry.  The interpreters are in
   Model/GobFrame.v. *)
Inductive gfw :=
| FwMakeMap (pos : bytes)                        (* mm := make(map[string][]byte) *)
| FwCallMap (fn arg : bytes) (pos : bytes)
      (* hasData, err := <fn>(mm, A)     arg = "recv" (A is the receiver) | "&recv" (its address) | the text of any other A *)
| FwErrRet (pos : bytes)                         (* if err != nil { return nil, err } *)
| FwNoDataRet (neg : bool) (what : bytes) (pos : bytes)
      (* if !hasData { return W, nil }   neg = true;   if hasData { return W, nil }   neg = false
         what = "empty" (W is []byte{}) | "nil" | the text of any other W *)
| FwBuffer (pos : bytes)                         (* bb := bytes.Buffer{} *)
| FwEncoder (pos : bytes)                        (* g := gob.NewEncoder(&bb) *)
| FwEncodeMap (pos : bytes)                      (* if err := g.Encode(mm); err != nil { return nil, err } *)
| FwRetBuffer (pos : bytes)                      (* return bb.Bytes(), nil *)
| FwUnrecognised (src pos : bytes).

Inductive gfr :=
| FrRetNilIfEmpty (cmp : bytes) (pos : bytes)    (* if len(data) <cmp> 0 { return nil }     cmp = "==" in the source as it is *)
| FrDecodeAsMap (callee : bytes) (pos : bytes)   (* mm, err := <callee>(data) *)
| FrErrRet (pos : bytes)                         (* if err != nil { return err } *)
| FrRetUnmap (fn arg : bytes) (pos : bytes)      (* return <fn>(mm, A)     arg as for FwCallMap *)
| FrUnrecognised (src pos : bytes).
