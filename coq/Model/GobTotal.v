(* C04, gob side: the decoding entry points of the gob codec over the abstract wire of Model/Gob.v, and
   the decidable condition on the regenerated tables under which none of them can panic.

   Input alphabet.  encoding/gob itself is OUTSIDE the model: a byte string enters the model as the [wire]
   it is for encoding/gob (which of the typed decodes `[][]byte`, opaque GobDecoder value,
   `map[string][]byte`, `[]kv`, `[]byte`, int64, uint, float64, bool succeeds on it, and on what; raw bytes
   otherwise), every byte string nested in a list or a map again as a wire.  So "for every map and every
   byte string in it" is "for every [wire]"; that encoding/gob returns an error rather than panicking,
   and in time proportional to its input, on arbitrary bytes is trusted (and exercised natively).
   What IS modelled and proved total: everything the library does with the decoded shapes - the sniffing
   order of gobDecodeItem, the type-name dispatch, every unmap<T>Properties statement (generated tables),
   the leaf structs, the recursion into nested byte strings.

   Definitions only. *)
From AP.Model Require Import Prelude Vocab Bytes Layout Pred Dispatch GobTables Gob.

(* the one panic site of the decoder model: Endpoints.GobDecode called through a nil *Endpoints field
   (`x.Endpoints.GobDecode(raw)` instead of `x.Endpoints, err = gobDecodeEndpoints(raw)`) *)
Definition rentry_safe (E : gob_env) (e : grentry) : bool :=
  match e with
  | GR _ _ cn _ => match rcodec_of cn with Some CrEndpointsMethod => negb (ge_endpoints_codec E) | _ => true end
  | _ => true
  end.

(* no read statement of any unmap function is such a call *)
Definition gob_dec_safe (E : gob_env) : bool :=
  forallb (fun r => forallb (rentry_safe E) (snd r)) (ge_rfuncs E).

(* diagnostics *)
Definition gob_dec_unsafe_entries (E : gob_env) : list (bytes * grentry) :=
  flat_map (fun r => flat_map (fun e => if rentry_safe E e then [] else [(fst (fst r), e)]) (snd r)) (ge_rfuncs E).

(* the gob / binary decoding entry points (UnmarshalBinary is GobDecode for every type: C03_binary_aliases) *)
Inductive gob_ep :=
| GEItem                    (* GobDecode(data) = gobDecodeItem *)
| GEItems                   (* gobDecodeItems *)
| GEKind (k : kind)         (* ( *T).GobDecode for the 14 struct types, into a zero T *)
| GEIri | GEType            (* ( *IRI).GobDecode, ( *ActivityVocabularyType).GobDecode *)
| GEIris                    (* ( *IRIs).GobDecode *)
| GEMime | GELangRef | GEContent   (* a gob []byte, or nothing *)
| GENlv                     (* ( *NaturalLanguageValues).GobDecode into a nil list *)
| GESource | GEPubKey | GEEndpoints
| GELrv.                    (* ( *LangRefValue).GobDecode into a zero value: one kv struct, or nothing *)

Definition all_gob_eps : list gob_ep :=
  [GEItem; GEItems] ++ map GEKind all_kinds ++ [GEIri; GEType; GEIris; GEMime; GELangRef; GEContent; GENlv; GESource; GEPubKey; GEEndpoints; GELrv].

Inductive gob_val :=
| GVItem (i : item) | GVItems (l : list item) | GVFields (fs : list (fid * fval)) | GVVal (v : fval)
| GVIris (l : list bytes) | GVStr (s : bytes) | GVLeaf (v : lval).

Definition run_gob (E : gob_env) (ep : gob_ep) (w : wire) : outcome gob_val :=
  match ep with
  | GEItem => omap GVItem (gdec E w)
  | GEItems => omap GVItems (gdec_items E w)
  | GEKind k => omap GVFields (gdec_k E k w)
  | GEIri => omap (fun v => GVStr (lv_str v)) (lr_method E n_iri_dec (LvStr []) w)
  | GEType => omap (fun v => GVStr (lv_str v)) (lr_method E n_type_dec (LvStr []) w)
  | GEIris => omap (fun v => GVIris (lv_strs v)) (dec_iris_t E w (LvStrs []))
  | GEMime => omap (fun v => GVStr (lv_str v)) (lr_method E n_mime_dec (LvStr []) w)
  | GELangRef => omap (fun v => GVStr (lv_str v)) (lr_method E n_langref_dec (LvStr []) w)
  | GEContent => omap (fun v => GVStr (lv_str v)) (lr_method E n_content_dec (LvStr []) w)
  | GENlv => omap (fun v => GVVal (FNlv (lv_nlv v))) (lr_method E n_nlv_dec (LvNlv None) w)
  | GESource => omap GVVal (rdec_source E (gdec E) None w)
  | GEPubKey => omap GVVal (rdec_pubkey E (gdec E) None w)
  | GEEndpoints => omap GVVal (rdec_endpoints_method E (gdec E) w)
  | GELrv => omap GVLeaf (lr_method E n_lrv_dec (LvKv [] []) w)
  end.

(* a value or an error: no panic, no fuel exhaustion *)
Definition returns {A} (o : outcome A) : Prop := match o with Ok _ | Err => True | Panic _ | OutOfFuel => False end.
Definition returnsb {A} (o : outcome A) : bool := match o with Ok _ | Err => true | Panic _ | OutOfFuel => false end.

(* outcome classes, for the correspondence with the real code *)
Inductive oclass := OcValue | OcError | OcPanic | OcFuel.
Definition oclass_of {A} (o : outcome A) : oclass :=
  match o with Ok _ => OcValue | Err => OcError | Panic _ => OcPanic | OutOfFuel => OcFuel end.
Definition oclass_eqb (a b : oclass) : bool :=
  match a, b with OcValue, OcValue | OcError, OcError | OcPanic, OcPanic | OcFuel, OcFuel => true | _, _ => false end.
