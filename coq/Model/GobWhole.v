(* C03, whole values: the decidable condition on the regenerated tables under which the whole-value round
   trip is a theorem (Proofs/GobRtP.v), beyond [gob_tables_consistent] of Model/GobCheck.v:
     - the leaf structs Source / PublicKey / Endpoints (statements of T.GobEncode and ( *T).GobDecode,
       generated as Gen/GobW.gobw_leaf and Gen/GobR.gobr_leaf) pass the same per-field check as the 14
       struct kinds, one level down, and their methods have the frame the model gives them;
     - gobDecodeItem tries the shapes in an order (Gen/GobR.gob_sniff) in which no output of the encoder
       is taken for another shape (the sniffing condition);
     - the Endpoints codec is in place; the one-call leaf codecs (codecs_ok), the statement groups of gobEncodeItem
       (enc_item_ok, with its case for an IRI held by pointer) and what GetItemByType creates (presets_ok) are the
       generated ones the proofs are made for.
   Definitions only. *)
From AP.Model Require Import Prelude Vocab Bytes Layout Pred Dispatch GobTables Gob GobCheck.

(* ------------------------------------------------------------------ leaf structs *)
Definition is_item_codec (c : wcodec) : bool := match c with CwItem | CwItemOrLink => true | _ => false end.
Definition is_map_wcodec (c : wcodec) : bool := match c with CwSource | CwEndpoints | CwPubKey => true | _ => false end.

(* encoders that fit a Go type one level down: no nested property map; an IRI-typed field (a string) may
   be passed to gobEncodeItem *)
Definition fits0 (c : wcodec) (t : gotype) : bool :=
  negb (is_map_wcodec c) && (wcodec_fits c t || (is_item_codec c && gotype_eqb t TString)).

(* inverse pairs one level down *)
Definition pair_ok0 (t : gotype) (cw : wcodec) (cr : rcodec) : bool :=
  match t, cw, cr with
  | TString, (CwItem | CwItemOrLink), (CrIri | CrType | CrString) => true
  | (TSource | TEndpoints | TPubKey), _, _ => false
  | _, _, _ => pair_ok false t cw cr
  end.

Definition frame_w : list bytes :=
  [B "decl"; B "entries"; B "nodata-empty"; B "buffer"; B "encoder"; B "encode-mm"; B "return-bytes"].
Definition frame_r1 : list bytes := [B "empty-nil"; B "decode-as-map"; B "err-return"; B "entries"; B "return-nil"].
Definition frame_r2 : list bytes := [B "empty-nil"; B "make-mm"; B "decoder"; B "decode-mm"; B "entries"; B "return-nil"].

Definition bytes_list_eqb (a b : list bytes) : bool := list_eqb bytes_eqb a b.

Definition has_field (L : list fdecl) (f : fid) (t : gotype) : bool :=
  existsb (fun d => fid_beq (fd_fid d) f && gotype_eqb (fd_type d) t) L.

(* ------------------------------------------------------------------ one-call leaf codecs (builder b43)
   The generated statement lists of the leaf GobEncode / GobDecode methods and of the one-call helpers are
   compared, positions aside, with the statement lists the round-trip proof is made for.  Under this
   condition the interpreters of Model/Gob.v compute the closed forms (Proofs/GobCodecP.v). *)
Definition blist_eqb (a b : list bytes) : bool := list_eqb bytes_eqb a b.

Definition glw_same (a b : glw) : bool :=
  match a, b with
  | LwRetEmptyIfLen0 s _, LwRetEmptyIfLen0 s' _ => blist_eqb s s'
  | LwRetRaw _, LwRetRaw _ | LwBuffer _, LwBuffer _ | LwEncoder _, LwEncoder _ => true
  | LwMkKvs k v _, LwMkKvs k' v' _ | LwMkKv k v _, LwMkKv k' v' _ => bytes_eqb k k' && bytes_eqb v v'
  | LwMkByteList _, LwMkByteList _ => true
  | LwEncode via src _, LwEncode via' src' _ => bytes_eqb via via' && bytes_eqb src src'
  | LwRetBuffer _, LwRetBuffer _ | LwHelperEncode _, LwHelperEncode _ | LwHelperRetNil _, LwHelperRetNil _ => true
  | _, _ => false
  end.

Definition glr_same (a b : glr) : bool :=
  match a, b with
  | LrRetNilIfEmpty _, LrRetNilIfEmpty _ | LrStoreRaw _, LrStoreRaw _ | LrDecoder _, LrDecoder _ => true
  | LrDeclare h t _, LrDeclare h' t' _ => bytes_eqb h h' && bytes_eqb t t'
  | LrDecodeLocal _, LrDecodeLocal _ | LrTryDecodeRecv _, LrTryDecodeRecv _ | LrStoreLocal _, LrStoreLocal _ => true
  | LrAppendKvs r v _, LrAppendKvs r' v' _ | LrStoreKv r v _, LrStoreKv r' v' _ => bytes_eqb r r' && bytes_eqb v v'
  | LrAppendStrs _, LrAppendStrs _ | LrRetNil _, LrRetNil _ => true
  | LrRetDecodeParam t _, LrRetDecodeParam t' _ => bytes_eqb t t'
  | LrDecodeLocalErr _, LrDecodeLocalErr _ | LrRetLocalErr _, LrRetLocalErr _ => true
  | LrMethodDecode c _, LrMethodDecode c' _ => bytes_eqb c c'
  | _, _ => false
  end.

Fixpoint all2 {A} (f : A -> A -> bool) (a b : list A) : bool :=
  match a, b with [] , [] => true | x :: a', y :: b' => f x y && all2 f a' b' | _, _ => false end.

(* the statement lists the proofs are made for (positions empty) *)
Definition cw_raw : list glw := [LwRetRaw []].
Definition cw_bytes : list glw :=
  [LwRetEmptyIfLen0 [[]] []; LwBuffer []; LwEncoder []; LwEncode n_strlike_enc n_recv []; LwRetBuffer []].
Definition cw_nlv : list glw :=
  [LwRetEmptyIfLen0 [[]] []; LwBuffer []; LwEncoder []; LwMkKvs n_ref n_value []; LwEncode n_encode n_local []; LwRetBuffer []].
Definition cw_lrv : list glw :=
  [LwRetEmptyIfLen0 [n_value; n_ref] []; LwBuffer []; LwEncoder []; LwMkKv n_ref n_value []; LwEncode n_encode n_local []; LwRetBuffer []].
Definition cw_iris : list glw :=
  [LwRetEmptyIfLen0 [[]] []; LwBuffer []; LwEncoder []; LwMkByteList []; LwEncode n_encode n_local []; LwRetBuffer []].
Definition cw_scalar : list glw := [LwBuffer []; LwEncoder []; LwEncode n_encode n_recv []; LwRetBuffer []].
Definition cw_strlike : list glw := [LwHelperEncode []; LwHelperRetNil []].

Definition canon_w : list (bytes * list glw) :=
  [ (n_iri_enc, cw_raw); (n_type_enc, cw_raw); (n_mime_enc, cw_bytes); (n_langref_enc, cw_bytes); (n_content_enc, cw_bytes);
    (n_nlv_enc, cw_nlv); (n_lrv_enc, cw_lrv); (n_iris_enc, cw_iris);
    (n_int64_enc, cw_scalar); (n_uint_enc, cw_scalar); (n_float_enc, cw_scalar); (n_bool_enc, cw_scalar);
    (n_strlike_enc, cw_strlike) ].

Definition how_var : bytes := B "var".
Definition how_lit : bytes := B "lit".
Definition how_new : bytes := B "new".
Definition cr_raw : list glr := [LrStoreRaw []; LrRetNil []].
Definition cr_bytes (how : bytes) : list glr :=
  [LrRetNilIfEmpty []; LrDeclare how ty_bytes []; LrDecodeLocal []; LrStoreLocal []; LrRetNil []].
Definition cr_nlv : list glr :=
  [LrRetNilIfEmpty []; LrDeclare how_make0 ty_kvs []; LrDecodeLocal []; LrAppendKvs n_K n_V []; LrRetNil []].
Definition cr_lrv : list glr :=
  [LrRetNilIfEmpty []; LrDeclare how_lit ty_kv []; LrDecodeLocal []; LrStoreKv n_ref n_K []; LrStoreKv n_value n_V []; LrRetNil []].
Definition cr_iris : list glr :=
  [LrRetNilIfEmpty []; LrTryDecodeRecv []; LrDeclare how_make0 ty_bytelist []; LrDecodeLocal []; LrAppendStrs []; LrRetNil []].
Definition cr_scalar (ty : bytes) : list glr := [LrDecoder []; LrRetDecodeParam ty []].
Definition cr_duration : list glr := [LrDeclare how_var ty_duration []; LrDecodeLocalErr []; LrRetLocalErr []].
Definition cr_nlv_fn : list glr := [LrDeclare how_make0 ty_nlv []; LrMethodDecode n_nlv_dec []; LrRetLocalErr []].
Definition cr_endpoints_fn : list glr :=
  [LrDeclare how_new (B "*Endpoints") []; LrMethodDecode (B "*Endpoints.GobDecode") []; LrRetLocalErr []].

Definition canon_r : list (bytes * list glr) :=
  [ (n_iri_dec, cr_raw); (n_type_dec, cr_raw); (n_mime_dec, cr_bytes how_var); (n_langref_dec, cr_bytes how_var);
    (n_content_dec, cr_bytes how_make0); (n_nlv_dec, cr_nlv); (n_lrv_dec, cr_lrv); (n_iris_dec, cr_iris);
    (n_int64_fn, cr_scalar ty_int64); (n_uint_fn, cr_scalar ty_uint); (n_float_fn, cr_scalar ty_float64);
    (n_bool_fn, cr_scalar ty_bool); (n_dur_fn, cr_duration); (n_nlv_fn, cr_nlv_fn); (n_endpoints_fn, cr_endpoints_fn) ].

Definition codec_w_ok (E : gob_env) (p : bytes * list glw) : bool := all2 glw_same (codec_w E (fst p)) (snd p).
Definition codec_r_ok (E : gob_env) (p : bytes * list glr) : bool := all2 glr_same (codec_r E (fst p)) (snd p).
Definition codecs_ok (E : gob_env) : bool := forallb (codec_w_ok E) canon_w && forallb (codec_r_ok E) canon_r.

(* diagnostics: the codecs whose statements are not the expected ones *)
Definition bad_codecs (E : gob_env) : list bytes :=
  map fst (filter (fun p => negb (codec_w_ok E p)) canon_w) ++ map fst (filter (fun p => negb (codec_r_ok E p)) canon_r).

(* ---- gobEncodeItem: its statement groups are the ones the proofs are made for *)
Definition genc_same (a b : genc_stmt) : bool :=
  match a, b with
  | GENilEmpty _, GENilEmpty _ | GEBuffer _, GEBuffer _ | GEReturn _, GEReturn _ => true
  | GEIriBlock v p f _, GEIriBlock v' p' f' _ => Bool.eqb v v' && Bool.eqb p p' && Bool.eqb f f'
  | GEOn pr on c _, GEOn pr' on' c' _ => bytes_eqb pr pr' && bytes_eqb on on' && bytes_eqb c c'
  | GESwitch pr _, GESwitch pr' _ => bytes_eqb pr pr'
  | _, _ => false
  end.

Definition canon_enc_item : list genc_stmt :=
  [ GENilEmpty []; GEIriBlock true true true []; GEBuffer [];
    GEOn (B "IsIRIs") (B "OnIRIs") (B "gobEncodeIRIs") [];
    GEOn (B "IsItemCollection") (B "OnItemCollection") (B "gobEncodeItems") [];
    GEOn (B "IsLink") (B "OnLink") (B "Link.GobEncode") [];
    GESwitch (B "IsObject") []; GEReturn [] ].

Definition enc_item_ok (E : gob_env) : bool := all2 genc_same (ge_enc_item E) canon_enc_item.

(* ---- what GetItemByType creates: every tag of its switch and its default have an entry, every statement of the
        expression / constructor behind it is recognised *)
Definition preset_recognised (p : gpreset) : bool := match p with GPUnrecognised _ _ => false | _ => true end.
Definition tag_presets_ok (E : gob_env) (tag : bytes) : bool :=
  bytes_eqb tag (B "fallthrough") ||
  match aget tag (ge_typer_presets E) with Some ps => forallb preset_recognised ps | None => false end.
Definition presets_ok (E : gob_env) : bool :=
  forallb (fun c => tag_presets_ok E (snd c)) (ge_sw_typer E) && tag_presets_ok E (ge_sw_typer_default E).

Section Whole.
Variable E : gob_env.

(* a string field passed to gobEncodeItem loses the nil IRI "-": only the fields listed in [allowed]
   (whose values the domain restricts) may be written that way *)
Definition str_item_ok (L : list fdecl) (allowed : list fid) (W : list gwentry) : bool :=
  forallb (fun e => match e with
                    | GW f _ cn _ _ _ _ =>
                        match wcodec_of cn with
                        | Some c => if is_item_codec c then negb (has_field L f TString) || existsb (fid_beq f) allowed else true
                        | None => true
                        end
                    | _ => true
                    end) W.

Definition leaf_frames_ok (n : bytes) : bool :=
  match aget n (ge_leaf_w E), aget n (ge_leaf_r E) with
  | Some (_, fw), Some (_, fr) => bytes_list_eqb fw frame_w && (bytes_list_eqb fr frame_r1 || bytes_list_eqb fr frame_r2)
  | _, _ => false
  end.

Definition leaf_ok (n : bytes) (allowed : list fid) : bool :=
  leaf_frames_ok n &&
  struct_ok fits0 pair_ok0 (leaf_layout E n) (leaf_w E n) (leaf_r E n) &&
  str_item_ok (leaf_layout E n) allowed (leaf_w E n).

Definition source_layout_ok : bool :=
  has_field (leaf_layout E n_source) F_MediaType TString && has_field (leaf_layout E n_source) F_Content TNlv.
Definition pubkey_layout_ok : bool :=
  has_field (leaf_layout E n_pubkey) F_ID TString && has_field (leaf_layout E n_pubkey) F_Owner TString &&
  has_field (leaf_layout E n_pubkey) F_PublicKeyPem TString.
(* the layout the normal form uses for Endpoints (Gen/Layout.v) names fields the leaf check covers, all items *)
Definition endpoints_layouts_ok : bool :=
  forallb (fun d => has_field (leaf_layout E n_endpoints) (fd_fid d) TItem) (ge_layout_endpoints E) &&
  forallb (fun d => gotype_eqb (fd_type d) TItem) (leaf_layout E n_endpoints) &&
  nodup_fids (map fd_fid (ge_layout_endpoints E)).

Definition leaves_ok : bool :=
  leaf_ok n_source [] && source_layout_ok &&
  leaf_ok n_pubkey [F_Owner] && pubkey_layout_ok &&
  leaf_ok n_endpoints [] && endpoints_layouts_ok.

(* diagnostics: which leaf struct fails which field *)
Definition leaf_bad_fields : list (bytes * fid) :=
  flat_map (fun n => flat_map (fun d => if field_ok_gen fits0 pair_ok0 (leaf_w E n) (leaf_r E n) d then [] else [(n, fd_fid d)])
                              (leaf_layout E n)) [n_source; n_pubkey; n_endpoints].


(* ------------------------------------------------------------------ the sniffing condition *)
Inductive sniff_kind_t := SkItems | SkIris | SkMap (tkey : bytes) (always : bool) | SkIri | SkFail.

Definition sniff_kind (s : gsniff) : option sniff_kind_t :=
  match s with
  | GSTry fn _ =>
      if bytes_eqb fn fn_try_items then Some SkItems
      else if bytes_eqb fn fn_try_iris then Some SkIris
      else if bytes_eqb fn fn_try_iri then Some SkIri
      else None
  | GSMap fn tkey always _ => if bytes_eqb fn fn_as_map then Some (SkMap tkey always) else None
  | GSFail _ => Some SkFail
  | GSUnrecognised _ _ => None
  end.

(* the five shapes gobEncodeItem writes: no bytes, raw bytes (an IRI), an item list, an IRI list (the opaque
   value followed by the list), a property map *)
Inductive wclass := WcEmpty | WcRaw | WcList | WcIris | WcMap.
Definition all_wclasses : list wclass := [WcEmpty; WcRaw; WcList; WcIris; WcMap].

(* the attempt fails on every wire of the class, so the next one is tried *)
Definition sniff_passes (k : sniff_kind_t) (c : wclass) : bool :=
  match k, c with
  | SkItems, (WcEmpty | WcRaw | WcIris | WcMap) => true
  | SkIris, (WcRaw | WcMap) => true
  | SkMap _ _, (WcEmpty | WcRaw | WcList | WcIris) => true
  | _, _ => false
  end.

(* the attempt decides, and it is the branch that reads the shape as what was written *)
Definition sniff_right (k : sniff_kind_t) (c : wclass) : bool :=
  match k, c with
  | SkIris, (WcEmpty | WcIris) => true
  | SkIri, (WcEmpty | WcRaw) => true
  | SkItems, WcList => true
  | SkMap tkey always, WcMap => always && bytes_eqb tkey (B "type")
  | _, _ => false
  end.

Fixpoint sniff_first_ok (c : wclass) (l : list gsniff) : bool :=
  match l with
  | [] => false
  | s :: r =>
      match sniff_kind s with
      | None => false
      | Some k => if sniff_passes k c then sniff_first_ok c r else sniff_right k c
      end
  end.

Definition sniff_ok (l : list gsniff) : bool := forallb (fun c => sniff_first_ok c l) all_wclasses.

(* every struct has the Type field gobDecodeItem dispatches on *)
Definition type_fields_ok : bool := forallb (fun k => in_layout E k F_Type) all_kinds.

(* ------------------------------------------------------------------ the whole condition *)
Definition gob_whole_ok : bool :=
  gob_tables_consistent E && leaves_ok && sniff_ok (ge_sniff E) && type_fields_ok &&
  ge_endpoints_codec E && codecs_ok E && enc_item_ok E && presets_ok E.

End Whole.
