(* C03, whole values: the decidable condition on the regenerated tables under which the whole-value round
   trip is a theorem (Proofs/GobRtP.v), beyond [gob_tables_consistent] of Model/GobCheck.v:
     - the leaf structs Source / PublicKey / Endpoints (statements of T.GobEncode and ( *T).GobDecode,
       generated as Gen/GobW.gobw_leaf and Gen/GobR.gobr_leaf) pass the same per-field check as the 14
       struct kinds, one level down, and their methods have the frame the model gives them;
     - gobDecodeItem tries the shapes in an order (Gen/GobR.gob_sniff) in which no output of the encoder
       is taken for another shape (the sniffing condition);
     - the two hand-modelled repairs are in place (IRI by pointer, Endpoints codec).
   Definitions only. *)
From AP.Model Require Import Prelude Vocab Bytes Layout Pred Dispatch GobTables Gob GobCheck.

(* ------------------------------------------------------------------ leaf structs *)
Definition is_item_codec (c : wcodec) : bool := match c with CwItem | CwItemOrLink => true | _ => false end.
Definition is_map_wcodec (c : wcodec) : bool := match c with CwSource | CwEndpoints | CwPubKey => true | _ => false end.

(* encoders that fit a Go type one level down: no nested property map; an IRI-typed field (a string) may
   be passed to gobEncodeItem *)
Definition fits0 (c : wcodec) (t : gotype) : bool :=
  negb (is_map_wcodec c) && (wcodec_fits c t || (is_item_codec c && gotype_eqb t TString)).

(* inverse pairs one level down *)
Definition pair_ok0 (t : gotype) (cw : wcodec) (cr : rcodec) : bool :=
  match t, cw, cr with
  | TString, (CwItem | CwItemOrLink), (CrIri | CrType | CrString) => true
  | (TSource | TEndpoints | TPubKey), _, _ => false
  | _, _, _ => pair_ok false t cw cr
  end.

Definition frame_w : list bytes :=
  [B "decl"; B "entries"; B "nodata-empty"; B "buffer"; B "encoder"; B "encode-mm"; B "return-bytes"].
Definition frame_r1 : list bytes := [B "empty-nil"; B "decode-as-map"; B "err-return"; B "entries"; B "return-nil"].
Definition frame_r2 : list bytes := [B "empty-nil"; B "make-mm"; B "decoder"; B "decode-mm"; B "entries"; B "return-nil"].

Definition bytes_list_eqb (a b : list bytes) : bool := list_eqb bytes_eqb a b.

Definition has_field (L : list fdecl) (f : fid) (t : gotype) : bool :=
  existsb (fun d => fid_beq (fd_fid d) f && gotype_eqb (fd_type d) t) L.

Section Whole.
Variable E : gob_env.

(* a string field passed to gobEncodeItem loses the nil IRI "-": only the fields listed in [allowed]
   (whose values the domain restricts) may be written that way *)
Definition str_item_ok (L : list fdecl) (allowed : list fid) (W : list gwentry) : bool :=
  forallb (fun e => match e with
                    | GW f _ cn _ _ _ _ =>
                        match wcodec_of cn with
                        | Some c => if is_item_codec c then negb (has_field L f TString) || existsb (fid_beq f) allowed else true
                        | None => true
                        end
                    | _ => true
                    end) W.

Definition leaf_frames_ok (n : bytes) : bool :=
  match aget n (ge_leaf_w E), aget n (ge_leaf_r E) with
  | Some (_, fw), Some (_, fr) => bytes_list_eqb fw frame_w && (bytes_list_eqb fr frame_r1 || bytes_list_eqb fr frame_r2)
  | _, _ => false
  end.

Definition leaf_ok (n : bytes) (allowed : list fid) : bool :=
  leaf_frames_ok n &&
  struct_ok fits0 pair_ok0 (leaf_layout E n) (leaf_w E n) (leaf_r E n) &&
  str_item_ok (leaf_layout E n) allowed (leaf_w E n).

Definition source_layout_ok : bool :=
  has_field (leaf_layout E n_source) F_MediaType TString && has_field (leaf_layout E n_source) F_Content TNlv.
Definition pubkey_layout_ok : bool :=
  has_field (leaf_layout E n_pubkey) F_ID TString && has_field (leaf_layout E n_pubkey) F_Owner TString &&
  has_field (leaf_layout E n_pubkey) F_PublicKeyPem TString.
(* the layout the normal form uses for Endpoints (Gen/Layout.v) names fields the leaf check covers, all items *)
Definition endpoints_layouts_ok : bool :=
  forallb (fun d => has_field (leaf_layout E n_endpoints) (fd_fid d) TItem) (ge_layout_endpoints E) &&
  forallb (fun d => gotype_eqb (fd_type d) TItem) (leaf_layout E n_endpoints) &&
  nodup_fids (map fd_fid (ge_layout_endpoints E)).

Definition leaves_ok : bool :=
  leaf_ok n_source [] && source_layout_ok &&
  leaf_ok n_pubkey [F_Owner] && pubkey_layout_ok &&
  leaf_ok n_endpoints [] && endpoints_layouts_ok.

(* diagnostics: which leaf struct fails which field *)
Definition leaf_bad_fields : list (bytes * fid) :=
  flat_map (fun n => flat_map (fun d => if field_ok_gen fits0 pair_ok0 (leaf_w E n) (leaf_r E n) d then [] else [(n, fd_fid d)])
                              (leaf_layout E n)) [n_source; n_pubkey; n_endpoints].

(* ------------------------------------------------------------------ the sniffing condition *)
Inductive sniff_kind_t := SkItems | SkIris | SkMap (tkey : bytes) (always : bool) | SkIri | SkFail.

Definition sniff_kind (s : gsniff) : option sniff_kind_t :=
  match s with
  | GSTry fn _ =>
      if bytes_eqb fn fn_try_items then Some SkItems
      else if bytes_eqb fn fn_try_iris then Some SkIris
      else if bytes_eqb fn fn_try_iri then Some SkIri
      else None
  | GSMap fn tkey always _ => if bytes_eqb fn fn_as_map then Some (SkMap tkey always) else None
  | GSFail _ => Some SkFail
  | GSUnrecognised _ _ => None
  end.

(* the five shapes gobEncodeItem writes: no bytes, raw bytes (an IRI), an item list, an IRI list (the opaque
   value followed by the list), a property map *)
Inductive wclass := WcEmpty | WcRaw | WcList | WcIris | WcMap.
Definition all_wclasses : list wclass := [WcEmpty; WcRaw; WcList; WcIris; WcMap].

(* the attempt fails on every wire of the class, so the next one is tried *)
Definition sniff_passes (k : sniff_kind_t) (c : wclass) : bool :=
  match k, c with
  | SkItems, (WcEmpty | WcRaw | WcIris | WcMap) => true
  | SkIris, (WcRaw | WcMap) => true
  | SkMap _ _, (WcEmpty | WcRaw | WcList | WcIris) => true
  | _, _ => false
  end.

(* the attempt decides, and it is the branch that reads the shape as what was written *)
Definition sniff_right (k : sniff_kind_t) (c : wclass) : bool :=
  match k, c with
  | SkIris, (WcEmpty | WcIris) => true
  | SkIri, (WcEmpty | WcRaw) => true
  | SkItems, WcList => true
  | SkMap tkey always, WcMap => always && bytes_eqb tkey (B "type")
  | _, _ => false
  end.

Fixpoint sniff_first_ok (c : wclass) (l : list gsniff) : bool :=
  match l with
  | [] => false
  | s :: r =>
      match sniff_kind s with
      | None => false
      | Some k => if sniff_passes k c then sniff_first_ok c r else sniff_right k c
      end
  end.

Definition sniff_ok (l : list gsniff) : bool := forallb (fun c => sniff_first_ok c l) all_wclasses.

(* every struct has the Type field gobDecodeItem dispatches on *)
Definition type_fields_ok : bool := forallb (fun k => in_layout E k F_Type) all_kinds.

(* ------------------------------------------------------------------ the whole condition *)
Definition gob_whole_ok : bool :=
  gob_tables_consistent E && leaves_ok && sniff_ok (ge_sniff E) && type_fields_ok &&
  ge_ptr_iri E && ge_endpoints_codec E.

End Whole.
