(* C03 (builder b50): the wrappers around the gob codecs, interpreted from their generated statement lists.

   Model/Gob.v gives these functions of decoding_gob.go / encoding_gob.go a hand-written meaning:
       tryDecodeItems, gobDecodeItems      dec_items rec w = obind (gd_list w) (omapM rec)
       tryDecodeIRIs, tryDecodeIRI         the two non-list branches of sniff_try (dec_iris_t / lr_method n_iri_dec)
       gobDecodeObjectAsMap                gd_map
       gobEncodeItems, gobEncodeIRIs       callee_result, the CwItems rows of wenc0, genc_items
       gobEncodeItemOrLink                 the CwItemOrLink rows of wenc0 (same as CwItem)
   Here the same functions are RUN from the statement lists the translator regenerates from the source on every
   run (Gen/GobR.gobr_wrappers, Gen/GobW.gobw_wrappers; entry types gwr / gww of Model/GobTables.v):
   [wr_run] / [ww_run] give every statement list a meaning, whatever it says - in particular a loop that stores
   through the de-duplicating method ItemCollection.Append (how = "Append") is run with Model/Coll.ic_append, so
   that the changed table computes something else than the hand model, not nothing.  Proofs/GobWrapP.v proves the
   interpreters equal to the hand-written definitions for every table set satisfying the decidable condition
   [wrappers_ok] below; Props/C03.v evaluates the condition (and the diagnosis [wrappers_first_bad]) on the tables
   of the run.  Definitions only. *)
From AP.Model Require Import Prelude Vocab Bytes Layout Pred Dispatch IriEq Equal Coll GobTables Gob GobCheck GobWhole.

(* ------------------------------------------------------------------ reading *)
Inductive wlocal :=
| WlWires (l : list wire)                        (* a [][]byte *)
| WlMap (m : list (bytes * wire))                (* a map[string][]byte *)
| WlItems (l : list item)                        (* an ItemCollection *)
| WlNone.

Definition ty_map : bytes := B "map[string][]byte".
Definition ty_items : bytes := B "ItemCollection".
Definition how_make : bytes := B "make".
Definition how_append : bytes := B "append".
Definition how_Append : bytes := B "Append".
Definition n_dec_item : bytes := B "gobDecodeItem".
Definition n_enc_item : bytes := B "gobEncodeItem".
Definition fn_dec_items : bytes := B "gobDecodeItems".
Definition fn_enc_items : bytes := B "gobEncodeItems".
Definition fn_enc_iris : bytes := B "gobEncodeIRIs".
Definition fn_enc_item_or_link : bytes := B "gobEncodeItemOrLink".

(* the freshly made local *)
Definition wl_fresh (how ty : bytes) : wlocal :=
  if bytes_eqb how how_make0 && bytes_eqb ty ty_bytelist then WlWires []
  else if bytes_eqb how how_make0 && bytes_eqb ty ty_items then WlItems []
  else if bytes_eqb how how_make && bytes_eqb ty ty_map then WlMap []
  else WlNone.

(* what a wrapper hands back: the new pointee of its pointer parameter, or the value it returns *)
Inductive wr_out :=
| RoItems (l : list item)
| RoLeaf (v : lval)
| RoMap (m : list (bytes * wire)).

Record wr_st := mk_wr_st { wr_loc : wlocal; wr_dec : bool; wr_items : list item }.

(* how a decoded member is stored: the builtin append, or the method Append, which skips a member that
   ItemCollection.Contains already finds (Model/Coll.v, property C13) *)
Definition store_how (how : bytes) : option (list item -> item -> list item) :=
  if bytes_eqb how how_append then Some (fun acc ob => acc ++ [ob])
  else if bytes_eqb how how_Append then Some (fun acc ob => ic_append acc [ob])
  else None.

Definition ocast {A B} (o : outcome A) : outcome B :=
  match o with Ok _ | Err => Err | Panic p => Panic p | OutOfFuel => OutOfFuel end.

Section WrapRead.
Variable rec : wire -> outcome item.                           (* gobDecodeItem on a nested byte string *)
Variable meth : bytes -> lval -> outcome lval.                 (* x.GobDecode(data) on the pointee x points to *)
Variable call : bytes -> list item -> outcome (list item).     (* callee(&L, data) for an item list L *)
Variable recv : lval.                                          (* the pointee, when it is a leaf value *)
Variable w : wire.                                             (* data *)

(* for _, it := range L { ob, err := gobDecodeItem(it); if err != nil { return err }; STORE } *)
Fixpoint each_decode (store : list item -> item -> list item) (l : list wire) (acc : list item) : outcome (list item) :=
  match l with
  | [] => Ok acc
  | x :: r =>
      match rec x with
      | Ok ob => each_decode store r (store acc ob)
      | Err => Err
      | Panic p => Panic p
      | OutOfFuel => OutOfFuel
      end
  end.

Definition wr_step (st : wr_st) (s : gwr) : wr_st + outcome wr_out :=
  match s with
  | WrDeclare how ty _ => inl (mk_wr_st (wl_fresh how ty) (wr_dec st) (wr_items st))
  | WrDecoder _ => inl (mk_wr_st (wr_loc st) true (wr_items st))
  | WrDecodeLocal _ =>
      if wr_dec st then
        match wr_loc st with
        | WlWires _ => match gd_list w with
                       | Ok l => inl (mk_wr_st (WlWires l) (wr_dec st) (wr_items st))
                       | o => inr (ocast o)
                       end
        | WlMap _ => match gd_map w with
                     | Ok m => inl (mk_wr_st (WlMap m) (wr_dec st) (wr_items st))
                     | o => inr (ocast o)
                     end
        | _ => inr Err
        end
      else inr Err
  | WrEachDecode callee how _ =>
      if bytes_eqb callee n_dec_item then
        match wr_loc st, store_how how with
        | WlWires l, Some store =>
            match each_decode store l (wr_items st) with
            | Ok its => inl (mk_wr_st (wr_loc st) (wr_dec st) its)
            | o => inr (ocast o)
            end
        | _, _ => inr Err
        end
      else inr Err
  | WrRetNil _ => inr (Ok (RoItems (wr_items st)))
  | WrRetRecvDecode callee _ => inr (omap RoLeaf (meth callee recv))
  | WrCallInto callee _ =>
      match wr_loc st with
      | WlItems l => match call callee l with
                     | Ok l' => inl (mk_wr_st (WlItems l') (wr_dec st) (wr_items st))
                     | o => inr (ocast o)
                     end
      | _ => inr Err
      end
  | WrRetLocal _ =>
      inr (match wr_loc st with WlItems l => Ok (RoItems l) | WlMap m => Ok (RoMap m) | _ => Err end)
  | WrUnrecognised _ _ => inr Err
  end.

Fixpoint wr_run (tbl : list gwr) (st : wr_st) : outcome wr_out :=
  match tbl with
  | [] => Err
  | s :: r => match wr_step st s with inl st' => wr_run r st' | inr res => res end
  end.
End WrapRead.

Definition wr_st0 (cur : list item) : wr_st := mk_wr_st WlNone false cur.

Definition out_items (o : outcome wr_out) : outcome (list item) :=
  match o with Ok (RoItems l) => Ok l | Ok _ | Err => Err | Panic p => Panic p | OutOfFuel => OutOfFuel end.
Definition out_leaf (o : outcome wr_out) : outcome lval :=
  match o with Ok (RoLeaf v) => Ok v | Ok _ | Err => Err | Panic p => Panic p | OutOfFuel => OutOfFuel end.
Definition out_map (o : outcome wr_out) : outcome (list (bytes * wire)) :=
  match o with Ok (RoMap m) => Ok m | Ok _ | Err => Err | Panic p => Panic p | OutOfFuel => OutOfFuel end.

Definition no_call : bytes -> list item -> outcome (list item) := fun _ _ => Err.
Definition no_rec : wire -> outcome item := fun _ => Err.

Section ReadTables.
Variable WR : list (bytes * list gwr).          (* Gen/GobR.gobr_wrappers *)
Variable E : gob_env.

Definition wr_table (n : bytes) : list gwr :=
  match aget n WR with Some t => t | None => [WrUnrecognised (B "no such wrapper") n] end.

(* tryDecodeItems(&items, data): the new contents of items (cur = what it held) *)
Definition wr_try_items (rec : wire -> outcome item) (cur : list item) (w : wire) : outcome (list item) :=
  out_items (wr_run rec no_meth no_call (LvStr []) w (wr_table fn_try_items) (wr_st0 cur)).

(* x.GobDecode(data) for a pointer x to a leaf value: IRIs.GobDecode decodes into itself (dec_iris_t), every other
   method is the one-call codec of that name *)
Definition leaf_method (w : wire) (callee : bytes) (v : lval) : outcome lval :=
  if bytes_eqb callee n_iris_dec then dec_iris_t E w v else lr_method E callee v w.

(* tryDecodeIRIs(&iris, data), tryDecodeIRI(&iri, data): the new pointee *)
Definition wr_try_leaf (fn : bytes) (recv : lval) (w : wire) : outcome lval :=
  out_leaf (wr_run no_rec (leaf_method w) no_call recv w (wr_table fn) (wr_st0 [])).

(* gobDecodeItems(data) *)
Definition wr_decode_items (rec : wire -> outcome item) (w : wire) : outcome (list item) :=
  out_items (wr_run rec no_meth
                    (fun callee l => if bytes_eqb callee fn_try_items then wr_try_items rec l w else Err)
                    (LvStr []) w (wr_table fn_dec_items) (wr_st0 [])).

(* gobDecodeObjectAsMap(data) *)
Definition wr_as_map (w : wire) : outcome (list (bytes * wire)) :=
  out_map (wr_run no_rec no_meth no_call (LvStr []) w (wr_table fn_as_map) (wr_st0 [])).

(* one attempt of gobDecodeItem, `v := <fresh>; if err := fn(&v, data); err == nil { return v, nil }`, with the
   callee run from its table (compare Gob.sniff_try) *)
Definition sniff_try_t (rec : wire -> outcome item) (fn : bytes) (w : wire) : option (outcome item) :=
  if bytes_eqb fn fn_try_items then
    match wr_try_items rec [] w with
    | Ok l => Some (Ok (IItems false (Some l)))
    | Err => None
    | Panic p => Some (Panic p)
    | OutOfFuel => Some OutOfFuel
    end
  else if bytes_eqb fn fn_try_iris then
    match wr_try_leaf fn_try_iris (LvStrs []) w with Ok v => Some (Ok (IIris false (Some (lv_strs v)))) | _ => None end
  else if bytes_eqb fn fn_try_iri then
    match wr_try_leaf fn_try_iri (LvStr []) w with Ok v => Some (Ok (IIri false (lv_str v))) | _ => None end
  else Some Err.
End ReadTables.

(* ------------------------------------------------------------------ writing *)
(* the parameter of a write wrapper, with its item parts already encoded *)
Inductive ww_val :=
| WvItems (ws : list wire)          (* an ItemCollection; ws = what gobEncodeItem returns for each member, in order *)
| WvIris (l : list bytes)           (* an IRIs value *)
| WvItem (w : wire).                (* a LinkOrIRI that is an Item; w = what gobEncodeItem returns for it *)

Record ww_st := mk_ww_st { ww_buf : bool; ww_loc : option (list wire); ww_out : option wire }.
Definition ww_st0 : ww_st := mk_ww_st false None None.
Definition ww_stuck : wire := WRaw gob_garbage.
Definition src_local : bytes := B "local".
Definition src_param : bytes := B "param".
Definition over_collection : bytes := B "Collection".

Section WrapWrite.
Variable enc_iris : list bytes -> wire.          (* IRIs.GobEncode, called by gob.Encode of a GobEncoder *)
Variable x : ww_val.

Definition ww_step (st : ww_st) (s : gww) : ww_st + wire :=
  match s with
  | WwBuffer _ => inl (mk_ww_st true (ww_loc st) (ww_out st))
  | WwDeclare ty _ => if bytes_eqb ty ty_bytelist then inl (mk_ww_st (ww_buf st) (Some []) (ww_out st)) else inr ww_stuck
  | WwEachEncode over callee _ =>
      (* ItemCollection.Collection() is the list itself *)
      if bytes_eqb callee n_enc_item && (bytes_eqb over [] || bytes_eqb over over_collection) then
        match x, ww_loc st with
        | WvItems ws, Some l => inl (mk_ww_st (ww_buf st) (Some (l ++ ws)) (ww_out st))
        | _, _ => inr ww_stuck
        end
      else inr ww_stuck
  | WwEncode src _ =>
      if ww_buf st then
        match ww_out st with
        | Some _ => inr ww_stuck
        | None =>
            if bytes_eqb src src_local then
              match ww_loc st with
              | Some l => inl (mk_ww_st (ww_buf st) (ww_loc st) (Some (WList l)))
              | None => inr ww_stuck
              end
            else if bytes_eqb src src_param then
              match x with
              | WvIris l => inl (mk_ww_st (ww_buf st) (ww_loc st) (Some (WOpaque (enc_iris l))))
              | _ => inr ww_stuck
              end
            else inr ww_stuck
        end
      else inr ww_stuck
  | WwRetBufferErr _ => if ww_buf st then inr (match ww_out st with Some o => o | None => WEmpty end) else inr ww_stuck
  | WwIfItemRet callee _ =>
      match x with
      | WvItem o => inr (if bytes_eqb callee n_enc_item then o else ww_stuck)
      | _ => inl st
      end
  | WwOn _ _ _ => inr ww_stuck       (* a LinkOrIRI that is not an Item: no such value in the model *)
  | WwUnrecognised _ _ => inr ww_stuck
  end.

Fixpoint ww_run (tbl : list gww) (st : ww_st) : wire :=
  match tbl with
  | [] => ww_stuck
  | s :: r => match ww_step st s with inl st' => ww_run r st' | inr o => o end
  end.
End WrapWrite.

Section WriteTables.
Variable WW : list (bytes * list gww).          (* Gen/GobW.gobw_wrappers *)

Definition ww_table (n : bytes) : list gww :=
  match aget n WW with Some t => t | None => [WwUnrecognised (B "no such wrapper") n] end.

Definition no_enc_iris : list bytes -> wire := fun _ => ww_stuck.

(* gobEncodeItems(col), the members already encoded *)
Definition ww_encode_items (ws : list wire) : wire := ww_run no_enc_iris (WvItems ws) (ww_table fn_enc_items) ww_st0.
(* gobEncodeIRIs(col) *)
Definition ww_encode_iris (enc_iris : list bytes -> wire) (l : list bytes) : wire :=
  ww_run enc_iris (WvIris l) (ww_table fn_enc_iris) ww_st0.
(* gobEncodeItemOrLink(it), it an Item that gobEncodeItem writes as o *)
Definition ww_item_or_link (o : wire) : wire := ww_run no_enc_iris (WvItem o) (ww_table fn_enc_item_or_link) ww_st0.
End WriteTables.

(* ------------------------------------------------------------------ the table condition
   The generated statement lists are compared, positions aside, with the lists the proofs are made for (as for the
   one-call codecs, Model/GobWhole.codecs_ok). *)
Definition gwr_same (a b : gwr) : bool :=
  match a, b with
  | WrDeclare h t _, WrDeclare h' t' _ => bytes_eqb h h' && bytes_eqb t t'
  | WrDecoder _, WrDecoder _ | WrDecodeLocal _, WrDecodeLocal _ | WrRetNil _, WrRetNil _ | WrRetLocal _, WrRetLocal _ => true
  | WrEachDecode c h _, WrEachDecode c' h' _ => bytes_eqb c c' && bytes_eqb h h'
  | WrRetRecvDecode c _, WrRetRecvDecode c' _ | WrCallInto c _, WrCallInto c' _ => bytes_eqb c c'
  | _, _ => false
  end.

Definition gww_same (a b : gww) : bool :=
  match a, b with
  | WwBuffer _, WwBuffer _ | WwRetBufferErr _, WwRetBufferErr _ => true
  | WwDeclare t _, WwDeclare t' _ => bytes_eqb t t'
  | WwEachEncode o c _, WwEachEncode o' c' _ | WwOn o c _, WwOn o' c' _ => bytes_eqb o o' && bytes_eqb c c'
  | WwEncode s _, WwEncode s' _ => bytes_eqb s s'
  | WwIfItemRet c _, WwIfItemRet c' _ => bytes_eqb c c'
  | _, _ => false
  end.

Definition cr_try_items : list gwr :=
  [WrDeclare how_make0 ty_bytelist []; WrDecoder []; WrDecodeLocal []; WrEachDecode n_dec_item how_append []; WrRetNil []].
Definition cr_try_iris : list gwr := [WrRetRecvDecode n_iris_dec []].
Definition cr_try_iri : list gwr := [WrRetRecvDecode n_iri_dec []].
Definition cr_dec_items : list gwr := [WrDeclare how_make0 ty_items []; WrCallInto fn_try_items []; WrRetLocal []].
Definition cr_as_map : list gwr := [WrDeclare how_make ty_map []; WrDecoder []; WrDecodeLocal []; WrRetLocal []].

Definition canon_wr : list (bytes * list gwr) :=
  [ (fn_try_items, cr_try_items); (fn_try_iris, cr_try_iris); (fn_try_iri, cr_try_iri);
    (fn_dec_items, cr_dec_items); (fn_as_map, cr_as_map) ].

Definition cw_enc_items : list gww :=
  [WwBuffer []; WwDeclare ty_bytelist []; WwEachEncode over_collection n_enc_item []; WwEncode src_local []; WwRetBufferErr []].
Definition cw_enc_iris : list gww := [WwBuffer []; WwEncode src_param []; WwRetBufferErr []].
Definition cw_enc_item_or_link : list gww :=
  [WwIfItemRet n_enc_item []; WwBuffer []; WwOn (B "OnLink") (B "Link.GobEncode") []; WwRetBufferErr []].

Definition canon_ww : list (bytes * list gww) :=
  [ (fn_enc_items, cw_enc_items); (fn_enc_iris, cw_enc_iris); (fn_enc_item_or_link, cw_enc_item_or_link) ].

Definition wr_ok (WR : list (bytes * list gwr)) (p : bytes * list gwr) : bool := all2 gwr_same (wr_table WR (fst p)) (snd p).
Definition ww_ok (WW : list (bytes * list gww)) (p : bytes * list gww) : bool := all2 gww_same (ww_table WW (fst p)) (snd p).

Definition wrappers_r_ok (WR : list (bytes * list gwr)) : bool := forallb (wr_ok WR) canon_wr.
Definition wrappers_w_ok (WW : list (bytes * list gww)) : bool := forallb (ww_ok WW) canon_ww.
Definition wrappers_ok (WR : list (bytes * list gwr)) (WW : list (bytes * list gww)) : bool :=
  wrappers_r_ok WR && wrappers_w_ok WW.

(* diagnosis: the first wrapper whose statements are not the expected ones, with the index (from 0) of its first
   differing statement (= the length of the shorter list when one is a prefix of the other) *)
Fixpoint first_diff {A} (same : A -> A -> bool) (a b : list A) : option nat :=
  match a, b with
  | [], [] => None
  | x :: a', y :: b' => if same x y then option_map S (first_diff same a' b') else Some 0
  | _, _ => Some 0
  end.

Fixpoint first_some {A B} (f : A -> option B) (l : list A) : option B :=
  match l with [] => None | x :: r => match f x with Some y => Some y | None => first_some f r end end.

Definition wrappers_first_bad (WR : list (bytes * list gwr)) (WW : list (bytes * list gww)) : option (bytes * nat) :=
  match first_some (fun p => option_map (fun i => (fst p, i)) (first_diff gwr_same (wr_table WR (fst p)) (snd p))) canon_wr with
  | Some d => Some d
  | None => first_some (fun p => option_map (fun i => (fst p, i)) (first_diff gww_same (ww_table WW (fst p)) (snd p))) canon_ww
  end.

(* ------------------------------------------------------------------ tables edited the way realistic source changes edit them *)
(* tryDecodeItems storing through the method: `_ = items.Append(ob)` instead of `*items = append( *items, ob)` *)
Definition wr_edit_append (WR : list (bytes * list gwr)) : list (bytes * list gwr) :=
  map (fun p => (fst p, map (fun s => match s with
                                      | WrEachDecode c _ pos => WrEachDecode c how_Append pos
                                      | _ => s
                                      end) (snd p))) WR.

(* gobEncodeUint narrowing its argument: `gg.Encode(uint32(i))` instead of `gg.Encode(i)` *)
Definition set_codecs_w (E : gob_env) (cw : list (bytes * list glw)) : gob_env :=
  {| ge_wfuncs := ge_wfuncs E; ge_rfuncs := ge_rfuncs E; ge_enc_methods := ge_enc_methods E; ge_dec_methods := ge_dec_methods E;
     ge_sw_enc := ge_sw_enc E; ge_sw_enc_default := ge_sw_enc_default E; ge_sw_dec := ge_sw_dec E;
     ge_sw_dec_default := ge_sw_dec_default E; ge_sw_typer := ge_sw_typer E; ge_sw_typer_default := ge_sw_typer_default E;
     ge_layout := ge_layout E; ge_layout_endpoints := ge_layout_endpoints E;
     ge_leaf_w := ge_leaf_w E; ge_leaf_r := ge_leaf_r E; ge_leaf_layouts := ge_leaf_layouts E; ge_sniff := ge_sniff E;
     ge_codecs_w := cw; ge_codecs_r := ge_codecs_r E; ge_enc_item := ge_enc_item E;
     ge_typer_presets := ge_typer_presets E;
     ge_endpoints_codec := ge_endpoints_codec E |}.
Definition src_uint32 : bytes := B "uint32(recv)".
Definition env_edit_uint32 (E : gob_env) : gob_env :=
  set_codecs_w E (map (fun p => if bytes_eqb (fst p) n_uint_enc
                                then (fst p, map (fun s => match s with
                                                           | LwEncode via _ pos => LwEncode via src_uint32 pos
                                                           | _ => s
                                                           end) (snd p))
                                else p) (ge_codecs_w E)).
