(* The ids ItemsEqual looks at (builder b56).  IRI.Equals is applied, at any depth of the two arguments, to: the
   link of an item (the string of an IRI, the id of an object), the id of an object or link, the IRI-typed
   properties of a link that Link.Equals compares (rel, href), and the members of an IRI list.  [ids_in dom x] says
   that all of them satisfy [dom].  An unset id reads as the empty string, so a useful [dom] holds of it:
   [plain_or_empty] = C14's plain domain iri_dom plus the empty string.
   Used to state that two models of IRI.Equals that agree on such ids give one ItemsEqual (C09) and one run of the
   containers (C13).  Definitions only. *)
From AP.Model Require Import Prelude Vocab Pred Url IriEq IriNf.

Definition is_id_field (f : fid) : bool := match f with F_ID | F_Rel | F_Href => true | _ => false end.

Fixpoint ids_in (dom : bytes -> bool) (i : item) : bool :=
  match i with
  | INil | ITNil _ => true
  | IIri _ s => dom s
  | IIris _ None => true
  | IIris _ (Some l) => forallb dom l
  | IItems _ None => true
  | IItems _ (Some l) =>
      (fix go (l : list item) : bool := match l with [] => true | x :: r => ids_in dom x && go r end) l
  | IObj _ _ fs =>
      (fix go (fs : list (fid * fval)) : bool :=
         match fs with [] => true | (f, v) :: r => fval_ids_in dom f v && go r end) fs
  end
with fval_ids_in (dom : bytes -> bool) (f : fid) (v : fval) : bool :=
  match v with
  | FItem i => ids_in dom i
  | FItems (Some l) =>
      (fix go (l : list item) : bool := match l with [] => true | x :: r => ids_in dom x && go r end) l
  | FStr s => if is_id_field f then dom s else true
  | _ => true
  end.

Definition fields_in (dom : bytes -> bool) (fs : list (fid * fval)) : bool :=
  forallb (fun fv => fval_ids_in dom (fst fv) (snd fv)) fs.

Definition is_empty (s : bytes) : bool := match s with [] => true | _ => false end.
Definition plain_or_empty (s : bytes) : bool := iri_dom s || is_empty s.
