(* Interleave: threads as deterministic step machines over one shared memory, schedules, traces.
   Definitions only (lemmas: Proofs/InterleaveP.v).  Generic in the types of locations, values and
   thread-local states; a thread is identified by a natural number, so "any number of threads". *)
From AP.Model Require Import Prelude.

Section Interleave.
Variables (L V St : Type).
Variable L_eq_dec : forall a b : L, {a = b} + {a <> b}.

(* what a thread does next, as a function of its local state only; a read continues with the value found *)
Inductive action :=
| ARead (l : L) (k : V -> St)
| AWrite (l : L) (v : V) (k : St)
| ADone.

Variable next : nat -> St -> action.

Record config := mkconfig { locals : nat -> St; memory : L -> V }.

Inductive access := Acc (t : nat) (is_write : bool) (l : L).

Definition upd_local (ls : nat -> St) (t : nat) (s : St) : nat -> St :=
  fun t' => if Nat.eqb t' t then s else ls t'.
Definition upd_mem (m : L -> V) (l : L) (v : V) : L -> V :=
  fun l' => if L_eq_dec l' l then v else m l'.

(* one step of thread t *)
Definition gstep (t : nat) (c : config) : config * list access :=
  match next t (locals c t) with
  | ARead l k => (mkconfig (upd_local (locals c) t (k (memory c l))) (memory c), [Acc t false l])
  | AWrite l v k => (mkconfig (upd_local (locals c) t k) (upd_mem (memory c) l v), [Acc t true l])
  | ADone => (c, [])
  end.

(* a schedule is the list of thread ids in the order they are given a step *)
Fixpoint run (sched : list nat) (c : config) : config * list access :=
  match sched with
  | [] => (c, [])
  | t :: r => let '(c1, tr1) := gstep t c in let '(c2, tr2) := run r c1 in (c2, tr1 ++ tr2)
  end.

(* thread t running alone for n steps *)
Definition alone (t n : nat) (c : config) : config := fst (run (repeat t n) c).

Definition steps_of (t : nat) (sched : list nat) : nat := count_occ Nat.eq_dec sched t.

(* two accesses conflict when they touch the same location from different threads and one is a write *)
Definition conflict (a b : access) : Prop :=
  match a, b with
  | Acc t1 w1 l1, Acc t2 w2 l2 => l1 = l2 /\ t1 <> t2 /\ (w1 = true \/ w2 = true)
  end.
Definition race_free (tr : list access) : Prop :=
  forall a b, In a tr -> In b tr -> ~ conflict a b.

(* ownership: None = shared (read by anyone, written by no one), Some t = private to t *)
Variable owner : L -> option nat.

Definition action_ok (t : nat) (a : action) : Prop :=
  match a with
  | ARead l _ => owner l = None \/ owner l = Some t
  | AWrite l _ _ => owner l = Some t
  | ADone => True
  end.

(* the hypothesis of the non-interference theorem speaks about SEQUENTIAL runs only: at every point of
   thread t's run alone from c0, its next action reads shared or own locations / writes own locations *)
Definition footprint_private (c0 : config) : Prop :=
  forall t n, action_ok t (next t (locals (alone t n c0) t)).

End Interleave.

(* ---- small concrete machines used as examples in Props/C12.v (locations, values, states: nat) *)

(* thread t: state 0 reads location 0 and moves to state v+2; state v+2 writes v to its own location t+1 and
   moves to state 1; state 1 is final *)
Definition ex_next (t : nat) (s : nat) : action nat nat nat :=
  match s with
  | 0 => ARead nat nat nat 0 (fun v => S (S v))
  | 1 => ADone nat nat nat
  | S (S v) => AWrite nat nat nat (S t) v 1
  end.
Definition ex_owner (l : nat) : option nat := match l with 0 => None | S t => Some t end.
Definition ex_c0 : config nat nat nat := mkconfig nat nat nat (fun _ => 0) (fun l => match l with 0 => 7 | _ => 0 end).

(* like ex_next, but thread 0 writes the SHARED location 0 *)
Definition bad_next (t : nat) (s : nat) : action nat nat nat :=
  match t, s with
  | 0, 0 => AWrite nat nat nat 0 99 1
  | _, _ => ex_next t s
  end.
