(* iri.go: stripFragment stripScheme irisEqual IRI.Equals IRIs.Contains, parametric in the URL library
   (Section) and instantiated with the grammar model of Model/Url.v. *)
From AP.Model Require Import Prelude Bytes Url.

(* stripFragment: cut at the first '#' unless it is at offset 0 *)
Definition strip_fragment (u : bytes) : bytes :=
  match index [hash] u with
  | Some (S n) => firstn (S n) u
  | _ => u
  end.

(* stripScheme: drop everything before the first "://" *)
Definition strip_scheme (u : bytes) : bytes :=
  match index (B "://") u with
  | Some n => skipn n u
  | None => u
  end.

(* multiset of values compared as "same length and every value of the first occurs equally often
   in both" -- the repaired comparison; see values_eq_pinned for the loop of the pinned tree *)
Definition count_occ_b (v : bytes) (l : list bytes) : nat := length (filter (bytes_eqb v) l).
Definition values_eq (a b : list bytes) : bool :=
  Nat.eqb (length a) (length b) && forallb (fun v => Nat.eqb (count_occ_b v a) (count_occ_b v b)) a.
(* pinned tree: every value of the first list occurs somewhere in the second *)
Definition values_eq_pinned (a b : list bytes) : bool :=
  Nat.eqb (length a) (length b) && forallb (fun v => existsb (bytes_eqb v) b) a.

Section IriEq.
  Variable classify : bytes -> url_class.
  Variable clean : bytes -> bytes.
  Variable qvalues : bytes -> list (bytes * list bytes).
  Variable veq : list bytes -> list bytes -> bool.

  Definition queries_equal (q1 q2 : bytes) : bool :=
    let m1 := qvalues q1 in
    let m2 := qvalues q2 in
    Nat.eqb (length m1) (length m2) &&
    forallb (fun kv => match lookup_values (fst kv) m2 with
                       | Some vs2 => veq (snd kv) vs2
                       | None => false
                       end) m1.

  (* cleanURLPath: the empty path of an absolute URL is the root path *)
  Definition clean_url_path (p : bytes) : bytes :=
    clean (match p with [] => [slash] | _ => p end).
  Definition paths_equal (p1 p2 : bytes) : bool :=
    fold_eqb (clean_url_path p1) (clean_url_path p2).
  (* the comparison of the pinned tree (kept for the refutation witness) *)
  Definition paths_equal_pinned (p1 p2 : bytes) : bool :=
    (bytes_eqb p1 [slash] && bytes_eqb p2 []) || (bytes_eqb p1 [] && bytes_eqb p2 [slash])
    || fold_eqb (clean p1) (clean p2).
  Variable peq : bytes -> bytes -> bool.

  (* irisEqual; None = an argument is outside the modelled grammar *)
  Definition iris_equal (i1 i2 : bytes) (check_scheme : bool) : option bool :=
    match classify i1, classify i2 with
    | UUnmodelled, _ | _, UUnmodelled => None
    | UValid u, UValid w =>
        Some ((if check_scheme then fold_eqb (u_scheme u) (u_scheme w) else true)
              && fold_eqb (u_host u) (u_host w)
              && peq (u_path u) (u_path w)
              && queries_equal (u_query u) (u_query w))
    | _, _ => Some (fold_eqb i1 i2)
    end.

  (* IRI.Equals *)
  Definition iri_equals (i w : bytes) (check_scheme : bool) : option bool :=
    let is := strip_fragment i in
    let ws := strip_fragment w in
    let is := if check_scheme then is else strip_scheme is in
    let ws := if check_scheme then ws else strip_scheme ws in
    if fold_eqb is ws then Some true else iris_equal i w check_scheme.
End IriEq.

(* the concrete instance used by every other model *)
Definition iri_equals_m (i w : bytes) (cs : bool) : option bool :=
  iri_equals url_classify query_values values_eq (paths_equal path_clean) i w cs.
Definition iri_equals_pinned (i w : bytes) (cs : bool) : option bool :=
  iri_equals url_classify query_values values_eq_pinned (paths_equal_pinned path_clean) i w cs.

(* total version: unmodelled pairs count as unequal (callers restrict to the grammar) *)
Definition iri_eqb (i w : bytes) (cs : bool) : bool :=
  match iri_equals_m i w cs with Some b => b | None => false end.

(* IRIs.Contains(r): r.GetLink().Equals(iri, false) for some member *)
Definition iris_contains (l : list bytes) (x : bytes) : bool :=
  match l with [] => false | _ => existsb (fun iri => iri_eqb x iri false) l end.
