(* iri.go IRI.Equals / irisEqual over the wide models of the libraries: the folding comparison as Model/Fold.v
   (Unicode simple folding over the decoded runes), net/url as Model/UrlU.v (all byte strings: bytes >= 0x80 and
   percent-escapes in host, path, query and fragment, userinfo, IP literals).  The code of Model/IriEq.v with the fold
   function as a parameter ([iri_equals_f fold_eqb] IS [iri_equals], Proofs/IriGenUP.iri_equals_f_plain),
   instantiated with [sfold_eqb] (iri.go equalFold: an invalid UTF-8 byte is equal to itself only), [url_classify_u],
   [query_values_u].  PINNED TREE: the comparisons were strings.EqualFold ([ufold_eqb]: every invalid byte is U+FFFD):
   [iri_equals_u_pinned].  Then the domain of C14 on the wide grammar and the normal form whose kernel IRI.Equals is
   there.  Definitions only. *)
From AP.Model Require Import Prelude Bytes Url IriEq IriNf Vocab Pred CollIri Utf8 Fold UrlU.

Section IriEqF.
  Variable feq : bytes -> bytes -> bool.                 (* strings.EqualFold *)
  Variable classify : bytes -> url_class.
  Variable qvalues : bytes -> list (bytes * list bytes).
  Variable veq : list bytes -> list bytes -> bool.
  Variable peq : bytes -> bytes -> bool.

  (* irisEqual *)
  Definition iris_equal_f (i1 i2 : bytes) (check_scheme : bool) : option bool :=
    match classify i1, classify i2 with
    | UUnmodelled, _ | _, UUnmodelled => None
    | UValid u, UValid w =>
        Some ((if check_scheme then feq (u_scheme u) (u_scheme w) else true)
              && feq (u_host u) (u_host w)
              && peq (u_path u) (u_path w)
              && queries_equal qvalues veq (u_query u) (u_query w))
    | _, _ => Some (feq i1 i2)
    end.

  (* IRI.Equals *)
  Definition iri_equals_f (i w : bytes) (check_scheme : bool) : option bool :=
    let is := strip_fragment i in
    let ws := strip_fragment w in
    let is := if check_scheme then is else strip_scheme is in
    let ws := if check_scheme then ws else strip_scheme ws in
    if feq is ws then Some true else iris_equal_f i w check_scheme.
End IriEqF.

(* strings.EqualFold(cleanURLPath(p1), cleanURLPath(p2)) *)
Definition paths_equal_f (feq : bytes -> bytes -> bool) (p1 p2 : bytes) : bool :=
  feq (clean_url_path path_clean p1) (clean_url_path path_clean p2).

(* the wide instance *)
Definition iri_equals_u (i w : bytes) (cs : bool) : option bool :=
  iri_equals_f sfold_eqb url_classify_u query_values_u values_eq (paths_equal_f sfold_eqb) i w cs.
Definition iri_equ (i w : bytes) (cs : bool) : bool :=
  match iri_equals_u i w cs with Some b => b | None => false end.

(* the pinned tree: strings.EqualFold at the five places *)
Definition iri_equals_u_pinned (i w : bytes) (cs : bool) : option bool :=
  iri_equals_f ufold_eqb url_classify_u query_values_u values_eq (paths_equal_f ufold_eqb) i w cs.
Definition iri_equ_pinned (i w : bytes) (cs : bool) : bool :=
  match iri_equals_u_pinned i w cs with Some b => b | None => false end.

(* IRIs.Contains over it *)
Definition iris_contains_u (l : list bytes) (x : bytes) : bool :=
  match l with [] => false | _ => existsb (fun iri => iri_equ x iri false) l end.

(* ---------------------------------------------------------------- "query strings in one letter case" *)
(* The fast path of IRI.Equals folds the WHOLE string, the URL comparison decodes the query (url.ParseQuery: "+",
   "%XX") and compares keys and values exactly.  The two hex digits of an escape fold to the same byte, so what
   has to be in one letter case is the query string with its escapes' hex digits put aside: [esc_lower] lower-cases
   the hex digits of every well-formed escape and nothing else; the class "lower" asks that the result holds no
   upper-case ASCII letter and no byte >= 0x80 (a raw non-ASCII rune may have a case partner, e.g. é / É). *)
Fixpoint esc_lower (s : bytes) : bytes :=
  match s with
  | c :: ((h :: l :: r') as r) =>
      if Byte.eqb c pct && is_hex h && is_hex l then c :: lower_byte h :: lower_byte l :: esc_lower r'
      else c :: esc_lower r
  | c :: r => c :: esc_lower r
  | [] => []
  end.
Fixpoint esc_upper (s : bytes) : bytes :=
  match s with
  | c :: ((h :: l :: r') as r) =>
      if Byte.eqb c pct && is_hex h && is_hex l then c :: upper_byte h :: upper_byte l :: esc_upper r'
      else c :: esc_upper r
  | c :: r => c :: esc_upper r
  | [] => []
  end.
Definition q_lower_class (q : bytes) : bool := forallb is_ascii q && no_upper (esc_lower q).
Definition q_upper_class (q : bytes) : bool := forallb is_ascii q && no_lower (esc_upper q).

(* ---------------------------------------------------------------- the domain and the normal form *)
(* an IRI is in the domain when url.Parse gives it a scheme and a host (ANY byte string that does: valid UTF-8 or
   not, with or without userinfo, IP literals included) and its query string is in the one-case class *)
Definition iri_dom_u_with (qok : bytes -> bool) (s : bytes) : bool :=
  match url_classify_u s with
  | UValid u => qok (u_query u)
  | _ => false
  end.
Definition iri_dom_u : bytes -> bool := iri_dom_u_with q_lower_class.
Definition iri_dom_u_upper : bytes -> bool := iri_dom_u_with q_upper_class.
(* the domain the theorems had before the repair: valid UTF-8 on top *)
Definition iri_dom_u_pinned (s : bytes) : bool := utf8_valid s && iri_dom_u s.

(* scheme (when asked), host with port, cleaned path - each as its canonical list under equalFold (runes folded, an
   invalid byte kept as itself) - and the sorted list of DECODED (key, value) pairs; userinfo is not in it *)
Definition nform_u := (list N * list N * list N * list (bytes * bytes))%type.
Definition nf_url_u (cs : bool) (u : url) : nform_u :=
  (if cs then scanon (u_scheme u) else [],
   scanon (u_host u),
   scanon (clean_url_path path_clean (u_path u)),
   sort_pairs (query_pairs_u (u_query u))).
Definition nf_u (cs : bool) (s : bytes) : option nform_u :=
  match url_classify_u s with
  | UValid u => Some (nf_url_u cs u)
  | _ => None
  end.
Definition nform_u_eqb (x y : nform_u) : bool :=
  let '(s1, h1, p1, q1) := x in
  let '(s2, h2, p2, q2) := y in
  nlist_eqb s1 s2 && nlist_eqb h1 h2 && nlist_eqb p1 p2 && pairs_eqb q1 q2.
Definition nf_u_eqb (x y : option nform_u) : bool :=
  match x, y with
  | Some a, Some b => nform_u_eqb a b
  | _, _ => false
  end.
