(* The domain of C14 as a boolean predicate, and the normal form whose kernel IRI.Equals is on that domain.
   Definitions only; the theorems are in Proofs/LowerP.v (case-homomorphism of the URL grammar model),
   Proofs/SortP.v (the sorted list of query pairs is a canonical form of the multiset), Proofs/IriGenP.v (generic
   in the URL parser), Proofs/IriNfP.v (this parser) and Proofs/IriXP.v (the parser with percent-escapes in the
   path of Model/CollIri.v; definitions in Model/IriNfX.v).

   Property text: "On absolute URLs ... query strings in one letter case: case of queries is outside the domain".
   An IRI is in the domain when it is an absolute URL of the grammar of Model/Url.v (url_classify answers
   UValid: scheme, "://", non-empty host[:port], path, query, fragment over the stated alphabets) and its
   query string is in one letter case.  [no_upper] is the reading fixed in DESIGN Appendix A (all queries
   lower-case); [no_lower] is the other one-case class (all queries upper-case).  The two classes must not be
   mixed: "http://h/?X=1", "http://h/?x=1", "http://h/./?x=1" is a non-transitive triple
   (IriNfP.mixed_case_not_transitive), the first pair being equal by the string fast path only. *)
From AP.Model Require Import Prelude Bytes Url IriEq.

Definition upper_byte (b : byte) : byte :=
  let n := Byte.to_N b in
  if (97 <=? n)%N && (n <=? 122)%N then byte_of_N_total (n - 32)%N else b.

Definition no_upper (s : bytes) : bool := forallb (fun b => Byte.eqb (lower_byte b) b) s.
Definition no_lower (s : bytes) : bool := forallb (fun b => Byte.eqb (upper_byte b) b) s.

(* the domain, parametric in the URL parser (Url.url_classify here; CollIri.url_classify_x, which adds
   percent-escapes in the path, in Model/IriNfX.v) and in the one-case class of query strings *)
Definition iri_dom_gen (classify : bytes -> url_class) (qok : bytes -> bool) (s : bytes) : bool :=
  match classify s with
  | UValid u => qok (u_query u)
  | _ => false
  end.
Definition iri_dom_with (qok : bytes -> bool) : bytes -> bool := iri_dom_gen url_classify qok.
Definition iri_dom : bytes -> bool := iri_dom_with no_upper.
Definition iri_dom_upper : bytes -> bool := iri_dom_with no_lower.

(* ---- a total order on byte strings and on (key, value) pairs; insertion sort ---- *)
Fixpoint bytes_leb (a b : bytes) : bool :=
  match a, b with
  | [], _ => true
  | _ :: _, [] => false
  | x :: a', y :: b' =>
      if (byteN x <? byteN y)%N then true
      else if (byteN x =? byteN y)%N then bytes_leb a' b' else false
  end.

Definition pair_leb (p q : bytes * bytes) : bool :=
  if bytes_eqb (fst p) (fst q) then bytes_leb (snd p) (snd q) else bytes_leb (fst p) (fst q).

Fixpoint insert_pair (p : bytes * bytes) (l : list (bytes * bytes)) : list (bytes * bytes) :=
  match l with
  | [] => [p]
  | q :: r => if pair_leb p q then p :: l else q :: insert_pair p r
  end.
Definition sort_pairs (l : list (bytes * bytes)) : list (bytes * bytes) := fold_right insert_pair [] l.

(* ---- the normal form: scheme only when the caller asks, host with port, cleaned path - all lower-cased -
   and the sorted list of (key, value) query pairs; the fragment takes no part ---- *)
Definition nform := (bytes * bytes * bytes * list (bytes * bytes))%type.

Definition nf_url (cs : bool) (u : url) : nform :=
  (if cs then lower (u_scheme u) else [],
   lower (u_host u),
   lower (clean_url_path path_clean (u_path u)),
   sort_pairs (query_pairs (u_query u))).

Definition nf_gen (classify : bytes -> url_class) (cs : bool) (s : bytes) : option nform :=
  match classify s with
  | UValid u => Some (nf_url cs u)
  | _ => None
  end.
Definition nf : bool -> bytes -> option nform := nf_gen url_classify.

(* IRI.Equals over an arbitrary URL parser, total version (an IRI outside the parser's grammar equals nothing
   unless the string fast path says so); iri_eqb_gen url_classify is IriEq.iri_eqb *)
Definition iri_eqb_gen (classify : bytes -> url_class) (i w : bytes) (cs : bool) : bool :=
  match iri_equals classify query_values values_eq (paths_equal path_clean) i w cs with Some b => b | None => false end.

Fixpoint pairs_eqb (a b : list (bytes * bytes)) : bool :=
  match a, b with
  | [], [] => true
  | p :: a', q :: b' => bytes_eqb (fst p) (fst q) && bytes_eqb (snd p) (snd q) && pairs_eqb a' b'
  | _, _ => false
  end.

Definition nform_eqb (x y : nform) : bool :=
  let '(s1, h1, p1, q1) := x in
  let '(s2, h2, p2, q2) := y in
  bytes_eqb s1 s2 && bytes_eqb h1 h2 && bytes_eqb p1 p2 && pairs_eqb q1 q2.

(* structural equality of normal forms; an IRI outside the grammar has no normal form and equals nothing *)
Definition nf_eqb (x y : option nform) : bool :=
  match x, y with
  | Some a, Some b => nform_eqb a b
  | _, _ => false
  end.

(* the property's clause of C09: the ids differ in host (with port), cleaned path or the multiset of query
   parameters - letter case of host and path ignored, scheme and fragment not looked at *)
Definition ids_differ_hpq (a b : bytes) : bool :=
  match nf false a, nf false b with
  | Some x, Some y => negb (nform_eqb x y)
  | _, _ => false
  end.

(* the grid of the C14 harness: every concatenation scheme "://" host path query fragment of the component
   lists (query and fragment components carry their "?" / "#"); grid_in_dom is evaluated on the component
   lists of harness/c14.go on every run (Cases_C14_grid) and on their transcription in Props/C14.v *)
Definition grid_of (schemes hosts paths queries frags : list bytes) : list bytes :=
  flat_map (fun s => flat_map (fun h => flat_map (fun p => flat_map (fun q => map (fun f =>
    s ++ B "://" ++ h ++ p ++ q ++ f) frags) queries) paths) hosts) schemes.
Definition grid_in_dom (schemes hosts paths queries frags : list bytes) : bool :=
  forallb iri_dom (grid_of schemes hosts paths queries frags).
