(* The domain and normal form of C14 over the URL parser of Model/CollIri.v (url_classify_x: the grammar of
   Model/Url.v plus percent-escapes "%XX" in the path that decode to ASCII; url.Parse decodes them into
   URL.Path).  CollIri.iri_equals_x / iri_eqx is IRI.Equals over that parser (compared with the real IRI.Equals
   by Cases_C15_eq and Cases_C14_esc, with url.Parse by Cases_C15_lib).  Definitions only. *)
From AP.Model Require Import Prelude Bytes Url IriEq IriNf CollIri.

Definition iri_dom_x : bytes -> bool := iri_dom_gen url_classify_x no_upper.
Definition iri_dom_x_upper : bytes -> bool := iri_dom_gen url_classify_x no_lower.
Definition nf_x : bool -> bytes -> option nform := nf_gen url_classify_x.
