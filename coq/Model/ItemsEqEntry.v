(* One entry of Gen/ItemsEqT.v (Model/ItemsEqTab.v, builder b32) reused by another property: the diagnosis of that
   entry alone - None when the table holds the function with the modelled body; otherwise the function's name and the
   first top-level statement at which the bodies part (position, generated, modelled). *)
From AP.Model Require Import Prelude ItemsEqTab.

Definition entry_first_bad (tbl : list gofn) (m : gofn)
  : option (bytes * option (nat * option stmt * option stmt)) :=
  if fn_matches tbl m then None
  else Some (gf_name m, match fn_named tbl (gf_name m) with
                        | Some f => first_diff_stmt 0 (unblk (gf_body f)) (unblk (gf_body m))
                        | None => None
                        end).
