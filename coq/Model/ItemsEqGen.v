(* The ItemsEqual dispatch / helper tables and the comparison-callee table as regenerated from the source on this run. *)
From AP.Model Require Import Prelude Vocab Equal EqualsTab EqualsGen ItemsEqTab.
Require AP.Gen.ItemsEqT.

Definition gen_itemseq_fns : list gofn := AP.Gen.ItemsEqT.itemseq_fns.
Definition gen_cmp_callees : list cmp_callee := AP.Gen.ItemsEqT.cmp_callees.

(* ItemsEqual as the source says now: dispatch, helpers and the nine struct Equals methods all from generated tables *)
Definition items_equal_gen : nat -> item -> item -> outcome bool := items_equal_t gen_itemseq_fns gen_equals_table.

(* ---- what a source change does to the tables (used by the examples of Props/C09.v) ---- *)
Definition replace_body (name : bytes) (f : stmt -> stmt) (tbl : list gofn) : list gofn :=
  map (fun g => if bytes_eqb (gf_name g) name then mkgofn (gf_name g) (gf_recv g) (gf_params g) (f (gf_body g)) else g) tbl.

(* the n-th top-level statement of a body removed *)
Fixpoint drop_nth (n : nat) (s : stmt) : stmt :=
  match s, n with
  | SSeq _ b, O => b
  | SSeq a b, S m => SSeq a (drop_nth m b)
  | other, _ => other
  end.

(* itemsNeedSwapping without `if ObjectTypes.Contains(t2) { return !ObjectTypes.Contains(t1) }` *)
Definition fns_swap_reduced : list gofn := replace_body n_swap (drop_nth 3) gen_itemseq_fns.

(* ItemCollection.Equals comparing the lengths only: the loop over the members removed from the closure *)
Definition drop_loop (s : stmt) : stmt :=
  match s with
  | SOn w a p body => SOn w a p (drop_nth 2 body)   (* 0: the length test, 1: used := make(...), 2: the loop *)
  | other => other
  end.
Fixpoint map_nth (n : nat) (f : stmt -> stmt) (s : stmt) : stmt :=
  match s, n with
  | SSeq a b, O => SSeq (f a) b
  | SSeq a b, S m => SSeq a (map_nth m f b)
  | other, _ => other
  end.
Definition fns_lengths_only : list gofn := replace_body n_ic_equals (map_nth 5 drop_loop) gen_itemseq_fns.

(* values for the examples *)
Definition ie_id (s : string) : bytes := B "https://example.com/" ++ B s.
Definition ie_obj (k : kind) (ty id : string) (extra : list (fid * fval)) : item :=
  IObj true k ([(F_ID, FStr (ie_id id)); (F_Type, FStr (B ty))] ++ extra).

(* ItemsEqual without its `else if IsLink(it)` branch *)
Fixpoint strip_link (s : stmt) : stmt :=
  match s with
  | SIf (BPred PIsLink _) _ _ => SSkip
  | SIf c t e => SIf c (strip_link t) (strip_link e)
  | SSeq a b => SSeq (strip_link a) (strip_link b)
  | other => other
  end.
Definition fns_without_link_branch : list gofn := replace_body n_items_equal strip_link gen_itemseq_fns.

Definition ie_link : item := IObj true KLink [(F_ID, FStr (ie_id "l")); (F_Type, FStr (B "Link")); (F_Href, FStr (ie_id "bob"))].
Definition ie_ab : item := IItems false (Some [IIri false (ie_id "a"); IIri false (ie_id "b")]).
Definition ie_ac : item := IItems false (Some [IIri false (ie_id "a"); IIri false (ie_id "c")]).
