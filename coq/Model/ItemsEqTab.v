(* ItemsEqual's own dispatch and the helper comparisons it rests on, as TABLES.

   Gen/ItemsEqT.v (regenerated from the source on every run by translator/itemseq.go) holds the bodies of
       itemsNeedSwapping, ItemsEqual                       (item.go)
       ItemCollection.Contains, ItemCollection.Equals      (item_collection.go)
       IRIs.Contains                                       (iri.go)
       NaturalLanguageValues.Equals                        (natural_language_values.go)
   statement by statement and expression by expression, in the small imperative language defined here (a Go
   statement or expression outside the language is an explicit SUnrec / BUnrec entry carrying its source text
   and position - never dropped), and for every guarded comparison block of the nine struct Equals methods the
   callee its comparison resolves to (go/types): [cmp_callees].

   This file: the language, its interpreter ([exec] / [run_fn]: what a table MEANS, whatever it says - early
   returns, the captured variable `result`, closures handed to On<Type>, range loops with break), the call
   environments that close the six functions over each other ([sem_swap] ... [sem_items_equal]), the
   statement sequences the hand-written model of Model/Equal.v was written after ([model_fns]) and the
   decidable table condition [itemseq_table_ok]; the compositional reading of one comparison block through
   the callee it names ([raw_block_sem]) and its condition [cmp_callees_ok].  Definitions only.
   Proofs/ItemsEqTabP.v proves, for every table satisfying the condition and all arguments,
       interpreter = hand-written model. *)
From AP.Model Require Import Prelude Bytes Vocab Pred IriEq Nlv Layout Equal TabEq EqualsTab Dispatch.
From AP.Gen Require Import TypeLists.

(* ------------------------------------------------------------------ the language (what the translator emits) *)
Definition var := bytes.                     (* Go identifiers, as written *)

Inductive ipred := PIsNil | PIsIRI | PIsIRIs | PIsItemCollection | PIsObject | PIsLink.   (* package-level predicates *)

Inductive texp :=                            (* expressions of type ActivityVocabularyType *)
| TOf (v : var)                              (* v.GetType() *)
| TVar (v : var)                             (* a local holding a type name *)
| TConst (s : bytes).                        (* a typed string constant, by its value *)

Inductive sexp :=                            (* expressions of type IRI *)
| SLinkOf (v : var)                          (* v.GetLink() *)
| SIriVar (v : var).                         (* a variable of type IRI *)

Inductive nexp :=
| NLen (v : var)                             (* len(v) *)
| NCount (v : var)                           (* v.Count() *)
| NLit (n : nat).

Inductive onview := VItemColl | VStruct (k : kind).     (* the T of On<T>(x, func(p *T) error {...}) *)

Inductive bexp :=
| BConst (b : bool)
| BVar (v : var)                             (* a bool local: result, found *)
| BNot (e : bexp)
| BAnd (e f : bexp)                          (* e && f, short-circuit *)
| BOr (e f : bexp)                           (* e || f, short-circuit *)
| BPred (p : ipred) (v : var)                (* IsNil(v), IsIRI(v), ... *)
| BIsCollectionM (v : var)                   (* v.IsCollection(), the interface method *)
| BTypeIn (l : bytes) (t : texp)             (* <l>.Contains(t): l names a type list of Gen/TypeLists.v *)
| BTypeEq (t u : texp)                       (* t == u; != is emitted as BNot *)
| BNumEq (n m : nexp)                        (* n == m; != is emitted as BNot *)
| BIriEquals (a b : sexp) (cs : bool)        (* a.Equals(b, cs), resolved to the method of IRI *)
| BCall (f : bytes) (args : list var)        (* f(args): a package-level function *)
| BMethod (m : bytes) (recv : var) (args : list var)   (* recv.M(args); m = "<static receiver type>.<M>" (go/types) *)
| BIdx (v j : var)                           (* v[j]: v a []bool local, j the index variable of a range loop *)
| BUnrec (src pos : bytes).

Inductive stmt :=
| SSkip
| SSeq (a b : stmt)
| SReturn (e : bexp)                         (* return e *)
| SReturnNil                                 (* return nil (inside a closure) *)
| SIf (c : bexp) (t e : stmt)                (* if c { t } else { e }; else-if chains nest in e *)
| SDeclBool (v : var) (e : bexp)             (* v := e *)
| SSetBool (v : var) (e : bexp)              (* v = e *)
| SDeclType (v : var) (t : texp)             (* v := t (also the init of `if v := t; c {`) *)
| SFor (v coll : var) (body : stmt)          (* for _, v := range coll { body } *)
| SForIdx (j v coll : var) (body : stmt)     (* for j, v := range coll { body } *)
| SDeclBools (v : var) (n : nexp)            (* v := make([]bool, n) *)
| SSetIdx (v j : var) (e : bexp)             (* v[j] = e *)
| SBreak
| SOn (w : onview) (arg param : var) (body : stmt)   (* _ = On<w>(arg, func(param *w) error { body }) *)
| SUnrec (src pos : bytes).

Record gofn := mkgofn { gf_name : bytes; gf_recv : option var; gf_params : list var; gf_body : stmt }.

(* a block *)
Definition blk (l : list stmt) : stmt := fold_right SSeq SSkip l.

(* ------------------------------------------------------------------ values and state *)
Inductive dval :=
| VItem (i : item)                           (* anything that is an Item (an ItemCollection / IRIs value too) *)
| VNl (l : nl)                               (* NaturalLanguageValues *)
| VLrv (e : lrv)                             (* LangRefValue *)
| VBools (l : list bool)                     (* a []bool made by make *)
| VNat (n : nat).                            (* the index variable of a range loop *)

Record dstate := mkst { st_vals : list (var * dval); st_types : list (var * bytes); st_bools : list (var * bool) }.

Fixpoint vget {A} (k : var) (m : list (var * A)) : option A :=
  match m with
  | [] => None
  | (k', v) :: r => if bytes_eqb k k' then Some v else vget k r
  end.
Fixpoint vset {A} (k : var) (v : A) (m : list (var * A)) : list (var * A) :=
  match m with
  | [] => [(k, v)]
  | (k', v') :: r => if bytes_eqb k k' then (k, v) :: r else (k', v') :: vset k v r
  end.

Definition bind (k : var) (d : dval) (s : dstate) : dstate := mkst (vset k d (st_vals s)) (st_types s) (st_bools s).
Definition set_type (k : var) (t : bytes) (s : dstate) : dstate := mkst (st_vals s) (vset k t (st_types s)) (st_bools s).
Definition set_bool (k : var) (b : bool) (s : dstate) : dstate := mkst (st_vals s) (st_types s) (vset k b (st_bools s)).

Inductive signal :=
| SgNormal (s : dstate)
| SgRet (b : bool)                           (* the function returned b *)
| SgRetNil (s : dstate)                          (* the closure returned nil *)
| SgBreak (s : dstate).

(* what calls mean: package-level functions and methods by name; None = a callee the environment does not know *)
Record callenv := mkenv {
  ce_func : bytes -> list dval -> option (outcome bool);
  ce_method : bytes -> dval -> list dval -> option (outcome bool) }.

Definition lst {A} (o : option (list A)) : list A := match o with Some l => l | None => [] end.

(* the type lists of Gen/TypeLists.v by their Go names *)
Definition type_list (n : bytes) : option (list bytes) :=
  match find (fun p => bytes_eqb (fst p) n) type_lists with Some p => Some (snd p) | None => None end.

(* ------------------------------------------------------------------ expressions *)
Definition item_of (s : dstate) (v : var) : outcome item :=
  match vget v (st_vals s) with Some (VItem i) => Ok i | _ => Err end.

Definition ev_pred (p : ipred) (i : item) : bool :=
  match p with
  | PIsNil => is_nil i | PIsIRI => is_iri i | PIsIRIs => is_iris i
  | PIsItemCollection => is_item_collection i | PIsObject => is_object i | PIsLink => is_link i
  end.

Definition ev_texp (s : dstate) (t : texp) : outcome bytes :=
  match t with
  | TOf v => obind (item_of s v) get_type
  | TVar v => match vget v (st_types s) with Some x => Ok x | None => Err end
  | TConst c => Ok c
  end.

Definition ev_sexp (s : dstate) (e : sexp) : outcome bytes :=
  match e with
  | SLinkOf v => obind (item_of s v) get_link
  | SIriVar v => obind (item_of s v) (fun i => match i with IIri _ x => Ok x | _ => Err end)
  end.

Definition list_len (d : dval) : outcome nat :=
  match d with
  | VItem (IItems _ lo) => Ok (length (lst lo))
  | VItem (IIris _ lo) => Ok (length (lst lo))
  | VNl l => Ok (length l)
  | _ => Err
  end.

Definition ev_nexp (s : dstate) (n : nexp) : outcome nat :=
  match n with
  | NLen v | NCount v => match vget v (st_vals s) with Some d => list_len d | None => Err end
  | NLit k => Ok k
  end.

Fixpoint vals_of (s : dstate) (vs : list var) : option (list dval) :=
  match vs with
  | [] => Some []
  | v :: r => match vget v (st_vals s), vals_of s r with
              | Some d, Some ds => Some (d :: ds)
              | _, _ => None
              end
  end.

(* x.IsCollection(): a method call on a nil interface / through a nil pointer panics *)
Definition is_collection_call (i : item) : outcome bool :=
  match i with
  | INil => Panic NilDeref
  | ITNil _ => Panic ValueMethodOnNilPtr
  | _ => Ok (is_collection_m i)
  end.

(* for _, x := range l { step }: break ends the loop, a return ends the function *)
Fixpoint for_loop (step : dval -> dstate -> outcome signal) (l : list dval) (s : dstate) : outcome signal :=
  match l with
  | [] => Ok (SgNormal s)
  | x :: r =>
      obind (step x s)
            (fun g => match g with
                      | SgNormal s' => for_loop step r s'
                      | SgBreak s' => Ok (SgNormal s')
                      | other => Ok other
                      end)
  end.

(* for j, x := range l { step }: the same with the position *)
Fixpoint for_loop_idx (step : nat -> dval -> dstate -> outcome signal) (k : nat) (l : list dval) (s : dstate) : outcome signal :=
  match l with
  | [] => Ok (SgNormal s)
  | x :: r =>
      obind (step k x s)
            (fun g => match g with
                      | SgNormal s' => for_loop_idx step (S k) r s'
                      | SgBreak s' => Ok (SgNormal s')
                      | other => Ok other
                      end)
  end.

(* l[k] = b; None = index out of range *)
Fixpoint set_nth (l : list bool) (k : nat) (b : bool) : option (list bool) :=
  match l, k with
  | [], _ => None
  | _ :: t, O => Some (b :: t)
  | x :: t, S k' => option_map (cons x) (set_nth t k' b)
  end.

(* generic in the IRI comparison [ideq a b cs] = a.Equals(b, cs), like module EqG of Model/Equal.v (builder b47); the
   names without prefix after the module are the instance with iri_eqb, as abbreviations *)
Module ItG.
Section IdRel.
  Variable ideq : bytes -> bytes -> bool -> bool.

Section Exec.
  Variable E : callenv.

  Fixpoint ev_b (s : dstate) (e : bexp) : outcome bool :=
    match e with
    | BConst b => Ok b
    | BVar v => match vget v (st_bools s) with Some b => Ok b | None => Err end
    | BNot e => obind (ev_b s e) (fun b => Ok (negb b))
    | BAnd e f => obind (ev_b s e) (fun b => if b then ev_b s f else Ok false)
    | BOr e f => obind (ev_b s e) (fun b => if b then Ok true else ev_b s f)
    | BPred p v => obind (item_of s v) (fun i => Ok (ev_pred p i))
    | BIsCollectionM v => obind (item_of s v) is_collection_call
    | BTypeIn l t =>
        match type_list l with
        | Some tl => obind (ev_texp s t) (fun x => Ok (tl_contains tl x))
        | None => Err
        end
    | BTypeEq t u => obind (ev_texp s t) (fun x => obind (ev_texp s u) (fun y => Ok (bytes_eqb x y)))
    | BNumEq n m => obind (ev_nexp s n) (fun x => obind (ev_nexp s m) (fun y => Ok (Nat.eqb x y)))
    | BIriEquals a b cs => obind (ev_sexp s a) (fun x => obind (ev_sexp s b) (fun y => Ok (ideq x y cs)))
    | BCall f args =>
        match vals_of s args with
        | Some ds => match ce_func E f ds with Some o => o | None => Err end
        | None => Err
        end
    | BMethod m r args =>
        match vget r (st_vals s), vals_of s args with
        | Some d, Some ds => match ce_method E m d ds with Some o => o | None => Err end
        | _, _ => Err
        end
    | BIdx v j =>
        match vget v (st_vals s), vget j (st_vals s) with
        | Some (VBools l), Some (VNat k) =>
            match nth_error l k with Some b => Ok b | None => Panic IndexOutOfRange end
        | _, _ => Err
        end
    | BUnrec _ _ => Err
    end.

  (* the elements a range loop visits *)
  Definition range_of (d : dval) : option (list dval) :=
    match d with
    | VItem (IItems _ lo) => Some (map VItem (lst lo))
    | VItem (IIris _ lo) => Some (map (fun x => VItem (IIri false x)) (lst lo))
    | VNl l => Some (map VLrv l)
    | _ => None
    end.

  (* On<T>(x, fn): fn runs on the T view of x; a failed conversion is an error that these callers drop.
     The On<struct> helpers are modelled on struct values only (on a list they would iterate over its members,
     and nil-like values take yet another path): anything else is outside the modelled domain. *)
  Inductive viewres := VwRun (d : dval) | VwSkip | VwOutside.
  Definition view_of (w : onview) (i : item) : viewres :=
    match w with
    | VItemColl =>
        match to_item_collection i with
        | Some l => VwRun (VItem (IItems true (Some l)))
        | None => VwSkip
        end
    | VStruct k =>
        match i with
        | IObj _ k' fs => if cast_ok k k' then VwRun (VItem (IObj true k fs)) else VwSkip
        | _ => VwOutside
        end
    end.

  Fixpoint exec (c : stmt) (s : dstate) : outcome signal :=
    match c with
    | SSkip => Ok (SgNormal s)
    | SSeq a b => obind (exec a s) (fun g => match g with SgNormal s' => exec b s' | other => Ok other end)
    | SReturn e => obind (ev_b s e) (fun b => Ok (SgRet b))
    | SReturnNil => Ok (SgRetNil s)
    | SIf c t e => obind (ev_b s c) (fun b => if b then exec t s else exec e s)
    | SDeclBool v e => obind (ev_b s e) (fun b => Ok (SgNormal (set_bool v b s)))
    | SSetBool v e =>
        match vget v (st_bools s) with
        | Some _ => obind (ev_b s e) (fun b => Ok (SgNormal (set_bool v b s)))
        | None => Err                          (* assignment to an undeclared variable *)
        end
    | SDeclType v t => obind (ev_texp s t) (fun x => Ok (SgNormal (set_type v x s)))
    | SFor v coll body =>
        match vget coll (st_vals s) with
        | Some d =>
            match range_of d with
            | Some l => for_loop (fun x s' => exec body (bind v x s')) l s
            | None => Err
            end
        | None => Err
        end
    | SForIdx j v coll body =>
        match vget coll (st_vals s) with
        | Some d =>
            match range_of d with
            | Some l => for_loop_idx (fun k x s' => exec body (bind v x (bind j (VNat k) s'))) 0 l s
            | None => Err
            end
        | None => Err
        end
    | SDeclBools v n => obind (ev_nexp s n) (fun k => Ok (SgNormal (bind v (VBools (repeat false k)) s)))
    | SSetIdx v j e =>
        match vget v (st_vals s), vget j (st_vals s) with
        | Some (VBools l), Some (VNat k) =>
            obind (ev_b s e) (fun b => match set_nth l k b with
                                       | Some l' => Ok (SgNormal (bind v (VBools l') s))
                                       | None => Panic IndexOutOfRange
                                       end)
        | _, _ => Err
        end
    | SBreak => Ok (SgBreak s)
    | SOn w arg param body =>
        obind (item_of s arg) (fun i =>
        match view_of w i with
        | VwOutside => Err
        | VwSkip => Ok (SgNormal s)
        | VwRun d =>
            obind (exec body (bind param d s))
                  (fun g => match g with
                            | SgNormal s' | SgRetNil s' => Ok (SgNormal s')
                            | _ => Err            (* a closure returning error cannot return a bool or break out *)
                            end)
        end)
    | SUnrec _ _ => Err
    end.

  Fixpoint bind_all (ps : list var) (ds : list dval) (s : dstate) : option dstate :=
    match ps, ds with
    | [], [] => Some s
    | p :: ps', d :: ds' => bind_all ps' ds' (bind p d s)
    | _, _ => None
    end.

  Definition st0 : dstate := mkst [] [] [].

  (* a call: falling off the end of a function that returns bool is not Go *)
  Definition run_fn (f : gofn) (recv : option dval) (args : list dval) : outcome bool :=
    match (match gf_recv f, recv with
           | Some r, Some d => bind_all (gf_params f) args (bind r d st0)
           | None, None => bind_all (gf_params f) args st0
           | _, _ => None
           end) with
    | None => Err
    | Some s => obind (exec (gf_body f) s) (fun g => match g with SgRet b => Ok b | _ => Err end)
    end.
End Exec.

(* ------------------------------------------------------------------ the six functions closed over each other *)
Definition fn_named (tbl : list gofn) (n : bytes) : option gofn := find (fun f => bytes_eqb (gf_name f) n) tbl.

Definition n_swap := B "itemsNeedSwapping".
Definition n_items_equal := B "ItemsEqual".
Definition n_ic_contains := B "ItemCollection.Contains".
Definition n_ic_equals := B "ItemCollection.Equals".
Definition n_iris_contains := B "IRIs.Contains".
Definition n_nlv_equals := B "NaturalLanguageValues.Equals".
Definition n_lrv_equals := B "LangRefValue.Equals".

Definition env_none : callenv := mkenv (fun _ _ => None) (fun _ _ _ => None).

Definition run_named (E : callenv) (tbl : list gofn) (n : bytes) (recv : option dval) (args : list dval) : outcome bool :=
  match fn_named tbl n with Some f => run_fn E f recv args | None => Err end.

(* "<Type>.Equals" for the struct types: Some k *)
Definition struct_equals_name (m : bytes) : option kind :=
  match cut_byte x2e m with
  | (tn, Some mn) => if bytes_eqb mn (B "Equals") then kind_named tn else None
  | _ => None
  end.

Section Sem.
  Variable tbl : list gofn.
  Variable rec : item -> item -> outcome bool.                          (* ItemsEqual, one level down *)
  Variable eqm : kind -> fields -> item -> option (outcome bool).      (* <struct type>.Equals *)

  (* itemsNeedSwapping calls nothing of the package but predicates and type lists *)
  Definition sem_swap (a b : item) : outcome bool := run_named env_none tbl n_swap None [VItem a; VItem b].

  Definition func_rec (n : bytes) (ds : list dval) : option (outcome bool) :=
    if bytes_eqb n n_items_equal
    then match ds with [VItem a; VItem b] => Some (rec a b) | _ => None end
    else None.
  Definition env_rec : callenv := mkenv func_rec (fun _ _ _ => None).

  (* ItemCollection.Contains: value receiver, so a pointer is dereferenced at the call *)
  Definition sem_contains (lo : option (list item)) (r : item) : outcome bool :=
    run_named env_rec tbl n_ic_contains (Some (VItem (IItems false lo))) [VItem r].

  Definition meth_contains (n : bytes) (d : dval) (ds : list dval) : option (outcome bool) :=
    if bytes_eqb n n_ic_contains
    then match d, ds with VItem (IItems _ lo), [VItem r] => Some (sem_contains lo r) | _, _ => None end
    else None.
  Definition env_contains : callenv := mkenv func_rec meth_contains.

  Definition sem_iceq (lo : option (list item)) (w : item) : outcome bool :=
    run_named env_contains tbl n_ic_equals (Some (VItem (IItems false lo))) [VItem w].

  Definition func_top (n : bytes) (ds : list dval) : option (outcome bool) :=
    if bytes_eqb n n_swap
    then match ds with [VItem a; VItem b] => Some (sem_swap a b) | _ => None end
    else func_rec n ds.
  Definition meth_top (n : bytes) (d : dval) (ds : list dval) : option (outcome bool) :=
    if bytes_eqb n n_ic_equals
    then match d, ds with VItem (IItems _ lo), [VItem w] => Some (sem_iceq lo w) | _, _ => None end
    else match struct_equals_name n, d, ds with
         | Some k, VItem (IObj _ k' fs), [VItem w] => if kind_beq k k' then eqm k fs w else None
         | _, _, _ => None
         end.
  Definition env_top : callenv := mkenv func_top meth_top.

  (* ItemsEqual(it, w) as the table says *)
  Definition sem_items_equal (it w : item) : outcome bool :=
    run_named env_top tbl n_items_equal None [VItem it; VItem w].
End Sem.

(* IRIs.Contains(r) *)
Definition sem_iris_contains (tbl : list gofn) (lo : option (list bytes)) (r : item) : outcome bool :=
  run_named env_none tbl n_iris_contains (Some (VItem (IIris false lo))) [VItem r].

(* NaturalLanguageValues.Equals; LangRefValue.Equals is a leaf (lrv_eqb of Model/Nlv.v) *)
Definition meth_lrv (n : bytes) (d : dval) (ds : list dval) : option (outcome bool) :=
  if bytes_eqb n n_lrv_equals
  then match d, ds with VLrv a, [VLrv b] => Some (Ok (lrv_eqb a b)) | _, _ => None end
  else None.
Definition sem_nlv_equals (tbl : list gofn) (n w : nl) : outcome bool :=
  run_named (mkenv (fun _ _ => None) meth_lrv) tbl n_nlv_equals (Some (VNl n)) [VNl w].

(* the whole of ItemsEqual from generated tables only: dispatch and helpers from [tbl], the nine struct Equals
   methods from [eqtbl] (Model/EqualsTab.v), closed with fuel like items_equal_c *)
Fixpoint items_equal_t (tbl : list gofn) (eqtbl : list eqfn) (fuel : nat) (it w : item) : outcome bool :=
  match fuel with
  | O => OutOfFuel
  | S n => sem_items_equal tbl (items_equal_t tbl eqtbl n) (EtG.equals_method_t ideq eqtbl (items_equal_t tbl eqtbl n)) it w
  end.

End IdRel.
End ItG.
Notation ev_b := (ItG.ev_b iri_eqb).
Notation range_of := ItG.range_of.
Notation viewres := ItG.viewres.
Notation VwRun := ItG.VwRun.
Notation VwSkip := ItG.VwSkip.
Notation VwOutside := ItG.VwOutside.
Notation view_of := ItG.view_of.
Notation exec := (ItG.exec iri_eqb).
Notation bind_all := ItG.bind_all.
Notation st0 := ItG.st0.
Notation run_fn := (ItG.run_fn iri_eqb).
Notation fn_named := ItG.fn_named.
Notation n_swap := ItG.n_swap.
Notation n_items_equal := ItG.n_items_equal.
Notation n_ic_contains := ItG.n_ic_contains.
Notation n_ic_equals := ItG.n_ic_equals.
Notation n_iris_contains := ItG.n_iris_contains.
Notation n_nlv_equals := ItG.n_nlv_equals.
Notation n_lrv_equals := ItG.n_lrv_equals.
Notation env_none := ItG.env_none.
Notation run_named := (ItG.run_named iri_eqb).
Notation struct_equals_name := ItG.struct_equals_name.
Notation sem_swap := (ItG.sem_swap iri_eqb).
Notation func_rec := ItG.func_rec.
Notation env_rec := ItG.env_rec.
Notation sem_contains := (ItG.sem_contains iri_eqb).
Notation meth_contains := (ItG.meth_contains iri_eqb).
Notation env_contains := (ItG.env_contains iri_eqb).
Notation sem_iceq := (ItG.sem_iceq iri_eqb).
Notation func_top := (ItG.func_top iri_eqb).
Notation meth_top := (ItG.meth_top iri_eqb).
Notation env_top := (ItG.env_top iri_eqb).
Notation sem_items_equal := (ItG.sem_items_equal iri_eqb).
Notation sem_iris_contains := (ItG.sem_iris_contains iri_eqb).
Notation meth_lrv := ItG.meth_lrv.
Notation sem_nlv_equals := (ItG.sem_nlv_equals iri_eqb).
Notation items_equal_t := (ItG.items_equal_t iri_eqb).
(* ------------------------------------------------------------------ the model's side of the condition *)
(* the statement sequences the functions of Model/Equal.v (needs_swap, items_equal_body with object_branch,
   contains_m, itemcoll_equals with all_matched / find_unused), Model/IriEq.v (iris_contains) and Model/Nlv.v (nl_equals) were
   written after.  Proofs/ItemsEqTabP.v proves that, interpreted, they ARE those functions. *)
Definition v_it := B "it".
Definition v_with := B "with".
Definition v_result := B "result".

Definition on_equals (w : onview) (arg param : var) (m : bytes) (x : var) : stmt :=
  SOn w arg param (blk [SSetBool v_result (BMethod m param [x]); SReturnNil]).

Definition m_swap : gofn := mkgofn n_swap None [B "i1"; B "i2"] (blk [
  SIf (BAnd (BPred PIsIRI (B "i1")) (BNot (BPred PIsIRI (B "i2")))) (blk [SReturn (BConst true)]) SSkip;
  SDeclType (B "t1") (TOf (B "i1"));
  SDeclType (B "t2") (TOf (B "i2"));
  SIf (BTypeIn (B "ObjectTypes") (TVar (B "t2")))
      (blk [SReturn (BNot (BTypeIn (B "ObjectTypes") (TVar (B "t1"))))]) SSkip;
  SReturn (BConst false)]).

(* the closures of the object branch also record that a comparison ran *)
Definition v_compared := B "compared".
Definition on_equals_c (w : onview) (arg param : var) (m : bytes) (x : var) : stmt :=
  SOn w arg param (blk [SSetBool v_result (BMethod m param [x]); SSetBool v_compared (BConst true); SReturnNil]).

Definition m_items_equal : gofn := mkgofn n_items_equal None [v_it; v_with] (blk [
  SIf (BOr (BPred PIsNil v_it) (BPred PIsNil v_with))
      (blk [SReturn (BAnd (BPred PIsNil v_with) (BPred PIsNil v_it))]) SSkip;
  SIf (BCall n_swap [v_it; v_with]) (blk [SReturn (BCall n_items_equal [v_with; v_it])]) SSkip;
  SDeclBool v_result (BConst false);
  SIf (BOr (BPred PIsIRI v_with) (BPred PIsIRI v_it))
    (blk [SSetBool v_result (BIriEquals (SLinkOf v_it) (SLinkOf v_with) false)])
  (SIf (BPred PIsItemCollection v_it)
    (blk [SIf (BNot (BPred PIsItemCollection v_with)) (blk [SReturn (BConst false)]) SSkip;
          on_equals VItemColl v_it (B "c") n_ic_equals v_with])
  (SIf (BPred PIsObject v_it)
    (blk [SDeclBool v_compared (BConst false);
          SIf (BTypeIn (B "ActivityTypes") (TOf v_with))
            (blk [on_equals_c (VStruct KActivity) v_it (B "i") (B "Activity.Equals") v_with])
          (SIf (BTypeIn (B "ActorTypes") (TOf v_with))
            (blk [on_equals_c (VStruct KActor) v_it (B "i") (B "Actor.Equals") v_with])
          (SIf (BIsCollectionM v_it)
            (blk [SIf (BTypeEq (TOf v_it) (TConst (B "Collection")))
                      (blk [on_equals_c (VStruct KCollection) v_it (B "c") (B "Collection.Equals") v_with]) SSkip;
                  SIf (BTypeEq (TOf v_it) (TConst (B "OrderedCollection")))
                      (blk [on_equals_c (VStruct KOrdered) v_it (B "c") (B "OrderedCollection.Equals") v_with]) SSkip;
                  SIf (BTypeEq (TOf v_it) (TConst (B "CollectionPage")))
                      (blk [on_equals_c (VStruct KCollectionPage) v_it (B "c") (B "CollectionPage.Equals") v_with]) SSkip;
                  SIf (BTypeEq (TOf v_it) (TConst (B "OrderedCollectionPage")))
                      (blk [on_equals_c (VStruct KOrderedPage) v_it (B "c") (B "OrderedCollectionPage.Equals") v_with]) SSkip])
            SSkip));
          SIf (BNot (BVar v_compared))
              (blk [on_equals (VStruct KObject) v_it (B "i") (B "Object.Equals") v_with]) SSkip])
  (SIf (BPred PIsLink v_it)
    (blk [on_equals (VStruct KLink) v_it (B "l") (B "Link.Equals") v_with])
    SSkip)));
  SReturn (BVar v_result)]).

Definition m_ic_contains : gofn := mkgofn n_ic_contains (Some (B "i")) [B "r"] (blk [
  SIf (BNumEq (NLen (B "i")) (NLit 0)) (blk [SReturn (BConst false)]) SSkip;
  SFor v_it (B "i") (blk [
    SIf (BCall n_items_equal [v_it; B "r"]) (blk [SReturn (BConst true)]) SSkip]);
  SReturn (BConst false)]).

Definition m_ic_equals : gofn := mkgofn n_ic_equals (Some (B "i")) [v_with] (blk [
  SIf (BPred PIsNil v_with)
      (blk [SReturn (BOr (BPred PIsNil (B "i")) (BNumEq (NLen (B "i")) (NLit 0)))]) SSkip;
  SIf (BNot (BIsCollectionM v_with)) (blk [SReturn (BConst false)]) SSkip;
  SDeclType (B "typ") (TOf v_with);
  SIf (BAnd (BNot (BTypeEq (TVar (B "typ")) (TConst (B "ItemCollection"))))
            (BNot (BTypeEq (TVar (B "typ")) (TConst (B "IRICollection")))))
      (blk [SReturn (BConst false)]) SSkip;
  SDeclBool v_result (BConst true);
  SOn VItemColl v_with (B "w") (blk [
    SIf (BNot (BNumEq (NCount (B "w")) (NCount (B "i"))))
        (blk [SSetBool v_result (BConst false); SReturnNil]) SSkip;
    SDeclBools (B "used") (NLen (B "w"));
    SFor v_it (B "i") (blk [
      SDeclBool (B "found") (BConst false);
      SForIdx (B "j") (B "wit") (B "w") (blk [
        SIf (BAnd (BNot (BIdx (B "used") (B "j"))) (BCall n_items_equal [B "wit"; v_it]))
            (blk [SSetIdx (B "used") (B "j") (BConst true); SSetBool (B "found") (BConst true); SBreak]) SSkip]);
      SIf (BNot (BVar (B "found"))) (blk [SSetBool v_result (BConst false); SReturnNil]) SSkip]);
    SReturnNil]);
  SReturn (BVar v_result)]).

(* the body before the fix "ItemCollection.Equals only asked whether every member is contained in the other list":
   the table condition refuses it (C09_itemseq_table_rejects_contains_loop) *)
Definition m_ic_equals_contains_pinned : gofn := mkgofn n_ic_equals (Some (B "i")) [v_with] (blk [
  SIf (BPred PIsNil v_with)
      (blk [SReturn (BOr (BPred PIsNil (B "i")) (BNumEq (NLen (B "i")) (NLit 0)))]) SSkip;
  SIf (BNot (BIsCollectionM v_with)) (blk [SReturn (BConst false)]) SSkip;
  SDeclType (B "typ") (TOf v_with);
  SIf (BAnd (BNot (BTypeEq (TVar (B "typ")) (TConst (B "ItemCollection"))))
            (BNot (BTypeEq (TVar (B "typ")) (TConst (B "IRICollection")))))
      (blk [SReturn (BConst false)]) SSkip;
  SDeclBool v_result (BConst true);
  SOn VItemColl v_with (B "w") (blk [
    SIf (BNot (BNumEq (NCount (B "w")) (NCount (B "i"))))
        (blk [SSetBool v_result (BConst false); SReturnNil]) SSkip;
    SFor v_it (B "i") (blk [
      SIf (BNot (BMethod n_ic_contains (B "w") [v_it]))
          (blk [SSetBool v_result (BConst false); SReturnNil]) SSkip]);
    SReturnNil]);
  SReturn (BVar v_result)]).

Definition m_iris_contains : gofn := mkgofn n_iris_contains (Some (B "i")) [B "r"] (blk [
  SIf (BOr (BNumEq (NLen (B "i")) (NLit 0)) (BPred PIsNil (B "r"))) (blk [SReturn (BConst false)]) SSkip;
  SFor (B "iri") (B "i") (blk [
    SIf (BIriEquals (SLinkOf (B "r")) (SIriVar (B "iri")) false) (blk [SReturn (BConst true)]) SSkip]);
  SReturn (BConst false)]).

Definition m_nlv_equals : gofn := mkgofn n_nlv_equals (Some (B "n")) [v_with] (blk [
  SIf (BNot (BNumEq (NCount (B "n")) (NCount v_with))) (blk [SReturn (BConst false)]) SSkip;
  SFor (B "wv") v_with (blk [
    SDeclBool (B "found") (BConst false);
    SFor (B "nv") (B "n") (blk [
      SIf (BMethod n_lrv_equals (B "nv") [B "wv"]) (blk [SSetBool (B "found") (BConst true); SBreak]) SSkip]);
    SIf (BNot (BVar (B "found"))) (blk [SReturn (BConst false)]) SSkip]);
  SReturn (BConst true)]).

Definition model_fns : list gofn := Eval vm_compute in
  [m_swap; m_items_equal; m_ic_contains; m_ic_equals; m_iris_contains; m_nlv_equals].

(* ------------------------------------------------------------------ decidable equality of function bodies *)
Definition ipred_beq (a b : ipred) : bool :=
  match a, b with
  | PIsNil, PIsNil | PIsIRI, PIsIRI | PIsIRIs, PIsIRIs | PIsItemCollection, PIsItemCollection
  | PIsObject, PIsObject | PIsLink, PIsLink => true
  | _, _ => false
  end.
Definition texp_beq (a b : texp) : bool :=
  match a, b with
  | TOf x, TOf y | TVar x, TVar y | TConst x, TConst y => bytes_eqb x y
  | _, _ => false
  end.
Definition sexp_beq (a b : sexp) : bool :=
  match a, b with
  | SLinkOf x, SLinkOf y | SIriVar x, SIriVar y => bytes_eqb x y
  | _, _ => false
  end.
Definition nexp_beq (a b : nexp) : bool :=
  match a, b with
  | NLen x, NLen y | NCount x, NCount y => bytes_eqb x y
  | NLit x, NLit y => Nat.eqb x y
  | _, _ => false
  end.
Definition view_beq (a b : onview) : bool :=
  match a, b with
  | VItemColl, VItemColl => true
  | VStruct x, VStruct y => kind_beq x y
  | _, _ => false
  end.
Fixpoint bexp_beq (a b : bexp) : bool :=
  match a, b with
  | BConst x, BConst y => Bool.eqb x y
  | BVar x, BVar y => bytes_eqb x y
  | BNot x, BNot y => bexp_beq x y
  | BAnd x1 x2, BAnd y1 y2 | BOr x1 x2, BOr y1 y2 => bexp_beq x1 y1 && bexp_beq x2 y2
  | BPred p x, BPred q y => ipred_beq p q && bytes_eqb x y
  | BIsCollectionM x, BIsCollectionM y => bytes_eqb x y
  | BTypeIn l t, BTypeIn l' t' => bytes_eqb l l' && texp_beq t t'
  | BTypeEq t u, BTypeEq t' u' => texp_beq t t' && texp_beq u u'
  | BNumEq n m, BNumEq n' m' => nexp_beq n n' && nexp_beq m m'
  | BIriEquals x y c, BIriEquals x' y' c' => sexp_beq x x' && sexp_beq y y' && Bool.eqb c c'
  | BCall f xs, BCall g ys => bytes_eqb f g && lbeq bytes_eqb xs ys
  | BMethod m r xs, BMethod m' r' ys => bytes_eqb m m' && bytes_eqb r r' && lbeq bytes_eqb xs ys
  | BIdx v j, BIdx v' j' => bytes_eqb v v' && bytes_eqb j j'
  | BUnrec s p, BUnrec s' p' => bytes_eqb s s' && bytes_eqb p p'
  | _, _ => false
  end.
Fixpoint stmt_beq (a b : stmt) : bool :=
  match a, b with
  | SSkip, SSkip | SReturnNil, SReturnNil | SBreak, SBreak => true
  | SSeq x1 x2, SSeq y1 y2 => stmt_beq x1 y1 && stmt_beq x2 y2
  | SReturn x, SReturn y => bexp_beq x y
  | SIf c t e, SIf c' t' e' => bexp_beq c c' && stmt_beq t t' && stmt_beq e e'
  | SDeclBool v e, SDeclBool v' e' | SSetBool v e, SSetBool v' e' => bytes_eqb v v' && bexp_beq e e'
  | SDeclType v t, SDeclType v' t' => bytes_eqb v v' && texp_beq t t'
  | SFor v c x, SFor v' c' y => bytes_eqb v v' && bytes_eqb c c' && stmt_beq x y
  | SForIdx j v c x, SForIdx j' v' c' y => bytes_eqb j j' && bytes_eqb v v' && bytes_eqb c c' && stmt_beq x y
  | SDeclBools v n, SDeclBools v' n' => bytes_eqb v v' && nexp_beq n n'
  | SSetIdx v j e, SSetIdx v' j' e' => bytes_eqb v v' && bytes_eqb j j' && bexp_beq e e'
  | SOn w a p x, SOn w' a' p' y => view_beq w w' && bytes_eqb a a' && bytes_eqb p p' && stmt_beq x y
  | SUnrec s p, SUnrec s' p' => bytes_eqb s s' && bytes_eqb p p'
  | _, _ => false
  end.
Definition ovar_beq (a b : option var) : bool :=
  match a, b with Some x, Some y => bytes_eqb x y | None, None => true | _, _ => false end.
Definition gofn_beq (a b : gofn) : bool :=
  bytes_eqb (gf_name a) (gf_name b) && ovar_beq (gf_recv a) (gf_recv b)
  && lbeq bytes_eqb (gf_params a) (gf_params b) && stmt_beq (gf_body a) (gf_body b).

(* the table condition: each of the six functions is there, once, with the body the model was written after *)
Fixpoint nodup_bytes (l : list bytes) : bool :=
  match l with [] => true | x :: r => negb (existsb (bytes_eqb x) r) && nodup_bytes r end.

Definition fn_matches (tbl : list gofn) (m : gofn) : bool :=
  match fn_named tbl (gf_name m) with Some f => gofn_beq f m | None => false end.
Definition itemseq_table_ok (tbl : list gofn) : bool :=
  forallb (fn_matches tbl) model_fns && nodup_bytes (map gf_name tbl).

(* diagnosis: the first function that differs, with the top-level statement at which the bodies part
   (position, generated, modelled); None for the statement part = the header differs or the function is missing *)
Fixpoint unblk (s : stmt) : list stmt :=
  match s with SSeq a b => a :: unblk b | SSkip => [] | other => [other] end.
Fixpoint first_diff_stmt (n : nat) (a b : list stmt) : option (nat * option stmt * option stmt) :=
  match a, b with
  | [], [] => None
  | x :: a', y :: b' => if stmt_beq x y then first_diff_stmt (S n) a' b' else Some (n, Some x, Some y)
  | x :: _, [] => Some (n, Some x, None)
  | [], y :: _ => Some (n, None, Some y)
  end.
Definition first_bad_fn (tbl : list gofn) : option (bytes * option (nat * option stmt * option stmt)) :=
  match find (fun m => negb (fn_matches tbl m)) model_fns with
  | None => None
  | Some m =>
      Some (gf_name m, match fn_named tbl (gf_name m) with
                       | Some f => first_diff_stmt 0 (unblk (gf_body f)) (unblk (gf_body m))
                       | None => None
                       end)
  end.

(* ------------------------------------------------------------------ one comparison block, read through its callee *)
(* per guarded comparison block of a struct Equals method: the struct type, the block as Gen/EqualsT.v has it, and
   what go/types resolves the guard's and the comparison's call to ("" = no call: an operator or len) *)
Record cmp_callee := mkcc { cc_self : kind; cc_raw : rawcmp; cc_guard_callee : bytes; cc_callee : bytes }.

Definition c_items_equal := B "ItemsEqual".
Definition c_nlv_equals := B "NaturalLanguageValues.Equals".
Definition c_ic_equals := B "ItemCollection.Equals".
Definition c_iri_equals := B "IRI.Equals".
Definition c_time_equal := B "time.Time.Equal".
Definition c_is_nil := B "IsNil".
Definition c_time_is_zero := B "time.Time.IsZero".

(* a list-typed property read through a struct view: Items and OrderedItems share one offset (view_items) *)
Definition read_items (f : fid) (fs : fields) : option (list item) :=
  match f with F_Items | F_OrderedItems => view_items fs | _ => get_items f fs end.

(* the guard `if <G on w.F> {`: None = a guard / callee / type combination without a reading *)
Definition guard_sem (g : wguard) (gc : bytes) (t : gotype) (f : fid) (wfs : fields) : option bool :=
  match g, t with
  | WLenGt0, TNlv => if bytes_eqb gc [] then Some (negb (Nat.eqb (length (nl_of (get_nlv f wfs))) 0)) else None
  | WLenGt0, TString => if bytes_eqb gc [] then Some (negb (Nat.eqb (length (get_str f wfs)) 0)) else None
  | WNeNil, TNlv => if bytes_eqb gc [] then Some (match get_nlv f wfs with Some _ => true | None => false end) else None
  | WNeNil, TItem => if bytes_eqb gc [] then Some (match get_item f wfs with INil => false | _ => true end) else None
  | WNeNil, TItems => if bytes_eqb gc [] then Some (match read_items f wfs with Some _ => true | None => false end) else None
  | WNotIsNil, TItem => if bytes_eqb gc c_is_nil then Some (negb (is_nil (get_item f wfs))) else None
  | WNotIsZero, TTime => if bytes_eqb gc c_time_is_zero then Some (negb (vtime_is_zero (get_time f wfs))) else None
  | WNe0, TDur => if bytes_eqb gc [] then Some (negb (get_dur f wfs =? 0)%Z) else None
  | WGt0, TUint => if bytes_eqb gc [] then Some (0 <? get_uint f wfs)%N else None
  | _, _ => None
  end.

(* a property as the Item handed to ItemsEqual / ItemCollection.Equals *)
Definition as_item (t : gotype) (f : fid) (fs : fields) : option item :=
  match t with
  | TItem => Some (get_item f fs)
  | TItems => Some (IItems false (read_items f fs))
  | _ => None
  end.

(* the comparison `if !<C> { result = false; return nil }`: the value of C, the callee's model applied to the
   two properties in the order the shape says *)
Module ItB.
Section Block.
  Variable ideq : bytes -> bytes -> bool -> bool.
  Variable rec : item -> item -> outcome bool.

  Definition comp_sem (c : wcomp) (cal : bytes) (t : gotype) (fo fw : fid) (ofs wfs : fields) : option (outcome bool) :=
    match c with
    | KItemsEqual =>                                   (* ItemsEqual(o.G, w.F) *)
        if bytes_eqb cal c_items_equal
        then match as_item t fo ofs, as_item t fw wfs with
             | Some a, Some b => Some (rec a b)
             | _, _ => None
             end
        else None
    | KWEqualsO =>                                     (* w.F.Equals(o.G) *)
        if bytes_eqb cal c_nlv_equals
        then match t with TNlv => Some (Ok (nl_equals (nl_of (get_nlv fw wfs)) (nl_of (get_nlv fo ofs)))) | _ => None end
        else None
    | KOEqualsW =>                                     (* o.G.Equals(w.F) *)
        if bytes_eqb cal c_nlv_equals
        then match t with TNlv => Some (Ok (nl_equals (nl_of (get_nlv fo ofs)) (nl_of (get_nlv fw wfs)))) | _ => None end
        else if bytes_eqb cal c_ic_equals
        then match t with
             | TItems => Some (itemcoll_equals cfg_fixed rec (lst (read_items fo ofs)) (IItems false (read_items fw wfs)))
             | _ => None
             end
        else None
    | KOEqualsWNoScheme =>                             (* o.G.Equals(w.F, false) *)
        if bytes_eqb cal c_iri_equals
        then match t with TString => Some (Ok (ideq (get_str fo ofs) (get_str fw wfs) false)) | _ => None end
        else None
    | KWTimeEqualO =>                                  (* w.F.Equal(o.G) *)
        if bytes_eqb cal c_time_equal
        then match t with TTime => Some (Ok (time_equal (get_time fw wfs) (get_time fo ofs))) | _ => None end
        else None
    | KNe =>                                           (* !(w.F != o.G) on a basic type *)
        if bytes_eqb cal []
        then match t with
             | TDur => Some (Ok (get_dur fw wfs =? get_dur fo ofs)%Z)
             | TUint => Some (Ok (get_uint fw wfs =? get_uint fo ofs)%N)
             | TString => Some (Ok (bytes_eqb (get_str fw wfs) (get_str fo ofs)))
             | _ => None
             end
        else None
    | KUrlLinks =>                                     (* IsNil(o.G) -> false; w.F.GetLink().Equals(o.G.GetLink(), false) *)
        if bytes_eqb cal c_iri_equals
        then match t with
             | TItem => Some (if is_nil (get_item fo ofs) then Ok false
                              else Ok (ideq (lnk (get_item fw wfs)) (lnk (get_item fo ofs)) false))
             | _ => None
             end
        else None
    end.

  (* the block: skipped (true) when the guard does not hold *)
  Definition raw_block_sem (gc cal : bytes) (r : rawcmp) (ofs wfs : fields) : option (outcome bool) :=
    match guard_sem (rw_guard r) gc (rw_type r) (rw_gfield r) wfs with
    | None => None
    | Some false => Some (Ok true)
    | Some true => comp_sem (rw_comp r) cal (rw_type r) (rw_ofield r) (rw_wfield r) ofs wfs
    end.
End Block.
End ItB.
Notation comp_sem := (ItB.comp_sem iri_eqb).
Notation raw_block_sem := (ItB.raw_block_sem iri_eqb).

(* what the model expects a shape on a type to call *)
Definition expected_guard_callee (g : wguard) : bytes :=
  match g with WNotIsNil => c_is_nil | WNotIsZero => c_time_is_zero | _ => [] end.
Definition expected_callee (c : wcomp) (t : gotype) : option bytes :=
  match c, t with
  | KItemsEqual, (TItem | TItems) => Some c_items_equal
  | (KWEqualsO | KOEqualsW), TNlv => Some c_nlv_equals
  | KOEqualsW, TItems => Some c_ic_equals
  | KOEqualsWNoScheme, TString => Some c_iri_equals
  | KWTimeEqualO, TTime => Some c_time_equal
  | KNe, (TDur | TUint | TString) => Some []
  | KUrlLinks, TItem => Some c_iri_equals
  | _, _ => None
  end.

Definition obytes_eqb (a : option bytes) (b : bytes) : bool :=
  match a with Some x => bytes_eqb x b | None => false end.
Definition cc_entry_ok (e : cmp_callee) : bool :=
  bytes_eqb (cc_guard_callee e) (expected_guard_callee (rw_guard (cc_raw e)))
  && obytes_eqb (expected_callee (rw_comp (cc_raw e)) (rw_type (cc_raw e))) (cc_callee e).

(* the comparison blocks of the Equals tables, method by method, in source order *)
Definition blocks_of_fn (fn : eqfn) : list (kind * rawcmp) :=
  flat_map (fun s => match s with
                     | TView _ steps => flat_map (fun e => match e with ECmp r => [(ef_kind fn, r)] | _ => [] end) steps
                     | _ => []
                     end) (ef_body fn).
Definition blocks_of (eqtbl : list eqfn) : list (kind * rawcmp) := flat_map blocks_of_fn eqtbl.

Scheme Equality for wguard.
Scheme Equality for wcomp.
Definition rawcmp_beq (a b : rawcmp) : bool :=
  wguard_beq (rw_guard a) (rw_guard b) && fid_beq (rw_gfield a) (rw_gfield b) && wcomp_beq (rw_comp a) (rw_comp b)
  && fid_beq (rw_ofield a) (rw_ofield b) && fid_beq (rw_wfield a) (rw_wfield b) && gotype_eqb (rw_type a) (rw_type b).

(* the callee table covers exactly the blocks of the Equals tables, and every entry names the callee whose model
   cmp_one applies *)
Fixpoint lbeq2 {A B} (e : A -> B -> bool) (a : list A) (b : list B) : bool :=
  match a, b with
  | [], [] => true
  | x :: a', y :: b' => e x y && lbeq2 e a' b'
  | _, _ => false
  end.
Definition cmp_callees_ok (eqtbl : list eqfn) (cc : list cmp_callee) : bool :=
  lbeq2 (fun (a : kind * rawcmp) (e : cmp_callee) => kind_beq (fst a) (cc_self e) && rawcmp_beq (snd a) (cc_raw e))
       (blocks_of eqtbl) cc
  && forallb cc_entry_ok cc.
Definition first_bad_callee (cc : list cmp_callee) : option cmp_callee := find (fun e => negb (cc_entry_ok e)) cc.
