(* JSON as the encoder writes it: a tree whose leaves hold the exact bytes written for them
   (strings with their quotes and escapes, numbers, true/false), and its compact printer.
   The printer is the definition of "these bytes are the JSON text of this tree". *)
From AP.Model Require Import Prelude Bytes.

Inductive rjson :=
| RRaw (b : bytes)                       (* a scalar written verbatim *)
| RArr (l : list rjson)
| RObj (m : list (bytes * rjson)).       (* member names are written unescaped between quotes *)

Definition dquote : byte := x22.
Definition comma : bytes := [x2c].

Fixpoint rprint (j : rjson) : bytes :=
  match j with
  | RRaw b => b
  | RArr l =>
      x5b :: join_with comma ((fix go (l : list rjson) : list bytes :=
                                 match l with [] => [] | x :: r => rprint x :: go r end) l) ++ [x5d]
  | RObj m =>
      x7b :: join_with comma ((fix go (m : list (bytes * rjson)) : list bytes :=
                                 match m with
                                 | [] => []
                                 | (k, v) :: r => (dquote :: k ++ [dquote; x3a] ++ rprint v) :: go r
                                 end) m) ++ [x7d]
  end.

(* decoded JSON, as fastjson presents it to the loaders: strings are unescaped contents, numbers keep
   their text *)
Inductive json :=
| JNull | JBool (b : bool) | JNum (repr : bytes) | JStr (s : bytes)
| JArr (l : list json) | JObj (m : list (bytes * json)).

(* fastjson Object.Get: the first member with that name *)
Fixpoint jget (m : list (bytes * json)) (k : bytes) : option json :=
  match m with
  | [] => None
  | (k', v) :: r => if bytes_eqb k k' then Some v else jget r k
  end.
