(* Decidable conditions on the generated JSON write/read tables, with diagnostics. *)
From AP.Model Require Import Prelude Bytes Vocab Layout JsonTables Dispatch JsonEnc.

Record wflat := mkwf { wf_term : bytes; wf_writer : bytes; wf_path : list fid; wf_via : bytes; wf_guards : list wguard }.

Section Check.
  Variable jw_tables : list (bytes * bool * list wstmt).
  Variable layout_of : kind -> list fdecl.

  (* all property entries of a table, delegations followed; None when something is unrecognised *)
  Fixpoint flatten_w (depth : nat) (name : bytes) : option (list wflat) :=
    match depth with
    | O => None
    | S d =>
        match jw_table jw_tables name with
        | None => None
        | Some (_, stmts) =>
            (fix go (l : list wstmt) : option (list wflat) :=
               match l with
               | [] => Some []
               | WProp t w p v g AccOther _ :: _ => None
               | WProp t w p v g _ _ :: r =>
                   match go r with Some rs => Some (mkwf t w p v g :: rs) | None => None end
               | WDelegate _ [] _ _ :: r => go r
               | WDelegate _ fn AccOther _ :: _ => None
               | WDelegate _ fn _ _ :: r =>
                   match flatten_w d fn, go r with
                   | Some a, Some b => Some (a ++ b)
                   | _, _ => None
                   end
               | WUnrecognised _ _ :: _ => None
               end) stmts
        end
    end.

  Definition entries_of (k : kind) : option (list wflat) := flatten_w 6 (marshal_table k).

  (* is the writer the right one for the Go type of the field *)
  Definition writer_fits (ty : gotype) (e : wflat) : bool :=
    let w := wf_writer e in
    match ty with
    | TItem => bytes_eqb w (B "JSONWriteItemProp")
    | TItems => bytes_eqb w (B "JSONWriteItemCollectionProp") || bytes_eqb w (B "JSONWriteItemProp")
    | TNlv => bytes_eqb w (B "JSONWriteNaturalLanguageProp")
    | TString => bytes_eqb w (B "JSONWriteProp") || bytes_eqb w (B "JSONWriteStringProp") || bytes_eqb w (B "JSONWriteIRIProp")
    | TTime => bytes_eqb w (B "JSONWriteTimeProp")
    | TDur => bytes_eqb w (B "JSONWriteDurationProp")
    | TUint | TInt64 => bytes_eqb w (B "JSONWriteIntProp")
    | TBool => bytes_eqb w (B "JSONWriteBoolProp")
    | TFloat => bytes_eqb w (B "JSONWriteFloatProp")
    | TSource | TEndpoints | TPubKey => bytes_eqb w (B "JSONWriteProp")
    | TOther _ => false
    end.

  Inductive wbad :=
  | WBadUnrecognised (k : kind)
  | WBadMissing (k : kind) (f : fid)                 (* a declared property that is never written *)
  | WBadTwice (k : kind) (f : fid)                   (* written by two entries *)
  | WBadTerm (k : kind) (f : fid) (written declared : bytes)
  | WBadWriter (k : kind) (f : fid) (writer : bytes)
  | WBadForeign (k : kind) (term : bytes)            (* an entry for a field the type does not have *)
  | WBadDupTerm (k : kind) (term : bytes).

  Definition path_head (e : wflat) : option fid := match wf_path e with f :: _ => Some f | [] => None end.
  Definition entry_for (f : fid) (e : wflat) : bool :=
    match path_head e with Some g => fid_beq f g | None => false end.

  Definition check_kind (k : kind) : list wbad :=
    match entries_of k with
    | None => [WBadUnrecognised k]
    | Some es =>
        flat_map (fun d =>
                    match fd_term d with
                    | [] => []
                    | _ =>
                        match filter (entry_for (fd_fid d)) es with
                        | [] => [WBadMissing k (fd_fid d)]
                        | [e] =>
                            (if bytes_eqb (wf_term e) (fd_term d) then [] else [WBadTerm k (fd_fid d) (wf_term e) (fd_term d)])
                            ++ (if writer_fits (fd_type d) e then [] else [WBadWriter k (fd_fid d) (wf_writer e)])
                        | _ => [WBadTwice k (fd_fid d)]
                        end
                    end) (layout_of k)
        ++ flat_map (fun e => match path_head e with
                              | Some f => if existsb (fun d => fid_beq (fd_fid d) f) (layout_of k) then [] else [WBadForeign k (wf_term e)]
                              | None => [WBadForeign k (wf_term e)]
                              end) es
        ++ (fix dups (l : list wflat) : list wbad :=
              match l with
              | [] => []
              | e :: r => (if existsb (fun e' => bytes_eqb (wf_term e') (wf_term e)) r then [WBadDupTerm k (wf_term e)] else []) ++ dups r
              end) es
    end.

  Definition check_all_w : list wbad := flat_map check_kind all_kinds.
End Check.

(* every statement of every write table is of a recognised shape with known writers and guards *)
Definition known_writers : list bytes :=
  [B "JSONWriteItemProp"; B "JSONWriteItemCollectionProp"; B "JSONWriteNaturalLanguageProp"; B "JSONWriteProp";
   B "JSONWriteTimeProp"; B "JSONWriteDurationProp"; B "JSONWriteIntProp"; B "JSONWriteFloatProp";
   B "JSONWriteBoolProp"; B "JSONWriteStringProp"; B "JSONWriteIRIProp"].
Definition known_vias : list bytes :=
  [B ""; B "int64"; B "string"; B "MarshalJSON:ID"; B "MarshalJSON:IRI"; B "MarshalJSON:ActivityVocabularyType"; B "MarshalJSON:MimeType";
   B "MarshalJSON:*Endpoints"; B "MarshalJSON:PublicKey"; B "MarshalJSON:Source"; B "json.Marshal"].
Definition known_other_guards : list bytes :=
  [pubkey_guard_src].

Definition wstmt_recognised (s : wstmt) : bool :=
  match s with
  | WProp _ w _ v gs acc _ =>
      existsb (bytes_eqb w) known_writers && existsb (bytes_eqb v) known_vias &&
      forallb (fun g => match g with GOther src => existsb (bytes_eqb src) known_other_guards | _ => true end) gs &&
      match acc with AccOther => false | _ => true end
  | WDelegate _ _ acc _ => match acc with AccOther => false | _ => true end
  | WUnrecognised _ _ => false
  end.

Definition tables_recognised_w (jw_tables : list (bytes * bool * list wstmt)) : bool :=
  forallb (fun t => forallb wstmt_recognised (snd t)) jw_tables.

(* member names are plain ASCII letters: they need no escaping *)
Definition term_plain (t : bytes) : bool := match t with [] => false | _ => forallb is_alpha t end.
Definition terms_plain (jw_tables : list (bytes * bool * list wstmt)) : bool :=
  forallb (fun t => forallb (fun s => match s with WProp term _ _ _ _ _ _ => term_plain term | _ => true end) (snd t)) jw_tables.

(* ---------------------------------------------------------------- read tables *)
Record rflat := mkrf { rf_fid : fid; rf_term : bytes; rf_getter : bytes; rf_conv : bytes; rf_guard : bytes }.

Section CheckR.
  Variable jw_tables : list (bytes * bool * list wstmt).
  Variable jr_tables : list (bytes * list rstmt).
  Variable layout_of : kind -> list fdecl.

  Definition jr_table (name : bytes) : option (list rstmt) :=
    match find (fun t => bytes_eqb (fst t) name) jr_tables with Some t => Some (snd t) | None => None end.

  Fixpoint flatten_r (depth : nat) (name : bytes) : option (list rflat) :=
    match depth with
    | O => None
    | S d =>
        match jr_table name with
        | None => None
        | Some stmts =>
            (fix go (l : list rstmt) : option (list rflat) :=
               match l with
               | [] => Some []
               | RProp f t g c gd _ :: r => match go r with Some rs => Some (mkrf f t g c gd :: rs) | None => None end
               | RDelegate _ fn _ :: r =>
                   match flatten_r d fn, go r with
                   | Some a, Some b => Some (a ++ b)
                   | _, _ => None
                   end
               | RUnrecognised _ _ :: _ => None
               end) stmts
        end
    end.

  Definition load_table (k : kind) : bytes := B "JSONLoad" ++ kind_go_name k.
  Definition reads_of (k : kind) : option (list rflat) := flatten_r 6 (load_table k).

  (* does the getter produce a value of the field's Go type *)
  Definition getter_fits (ty : gotype) (r : rflat) : bool :=
    let g := rf_getter r in
    match ty with
    | TItem => bytes_eqb g (B "JSONGetItem") || bytes_eqb g (B "JSONGetURIItem")
    | TItems => bytes_eqb g (B "JSONGetItems")
    | TNlv => bytes_eqb g (B "JSONGetNaturalLanguageField")
    | TString => existsb (bytes_eqb g) [B "JSONGetID"; B "JSONGetType"; B "JSONGetMimeType"; B "JSONGetString"; B "JSONGetIRI";
                                        B "JSONGetLangRefField"; B "JSONGetURIItem"]
    | TTime => bytes_eqb g (B "JSONGetTime")
    | TDur => bytes_eqb g (B "JSONGetDuration")
    | TUint | TInt64 => bytes_eqb g (B "JSONGetInt")
    | TBool => bytes_eqb g (B "JSONGetBoolean")
    | TFloat => bytes_eqb g (B "JSONGetFloat")
    | TSource => bytes_eqb g (B "GetAPSource")
    | TEndpoints => bytes_eqb g (B "JSONGetActorEndpoints")
    | TPubKey => bytes_eqb g (B "JSONGetPublicKey")
    | TOther _ => false
    end.

  (* a write guard is acceptable when it holds for every set (non-zero) value of the field's Go type *)
  Definition guard_no_stronger_than_set (ty : gotype) (f : fid) (g : wguard) : bool :=
    match g with
    | GNeNil f' => fid_beq f f'
    | GLenGt0 f' => fid_beq f f' && match ty with TItems | TNlv | TString => true | _ => false end
    | GNotZeroTime f' => fid_beq f f'
    | GNe0 f' => fid_beq f f'
    | GGt0 f' => fid_beq f f' && match ty with TUint => true | _ => false end   (* > 0 loses negative values of signed types *)
    | GValNonEmpty => true
    | GOther src => match ty with TPubKey => true | _ => false end
    end.

  Inductive rbad :=
  | RBadUnrecognised (k : kind)
  | RBadMissing (k : kind) (f : fid)
  | RBadTwice (k : kind) (f : fid)
  | RBadTerm (k : kind) (f : fid) (read declared : bytes)
  | RBadGetter (k : kind) (f : fid) (getter : bytes)
  | RBadForeign (k : kind) (f : fid)
  | RBadGuard (k : kind) (f : fid).                      (* the write guard is stronger than "is set" *)

  Definition check_kind_r (k : kind) : list rbad :=
    match reads_of k, entries_of jw_tables k with
    | Some rs, Some ws =>
        flat_map (fun d =>
                    match fd_term d with
                    | [] => []
                    | _ =>
                        match filter (fun r => fid_beq (rf_fid r) (fd_fid d)) rs with
                        | [] => [RBadMissing k (fd_fid d)]
                        | [r] =>
                            (if bytes_eqb (rf_term r) (fd_term d) then [] else [RBadTerm k (fd_fid d) (rf_term r) (fd_term d)])
                            ++ (if getter_fits (fd_type d) r then [] else [RBadGetter k (fd_fid d) (rf_getter r)])
                        | _ => [RBadTwice k (fd_fid d)]
                        end
                        ++ flat_map (fun w => if forallb (guard_no_stronger_than_set (fd_type d) (fd_fid d)) (wf_guards w)
                                              then [] else [RBadGuard k (fd_fid d)])
                                    (filter (entry_for (fd_fid d)) ws)
                    end) (layout_of k)
        ++ flat_map (fun r => if existsb (fun d => fid_beq (fd_fid d) (rf_fid r)) (layout_of k) then [] else [RBadForeign k (rf_fid r)]) rs
    | _, _ => [RBadUnrecognised k]
    end.

  Definition check_all_r : list rbad := flat_map check_kind_r all_kinds.
End CheckR.

(* ---------------------------------------------------------------- tables against the vocabulary *)
Section CheckSpec.
  Variable jw_tables : list (bytes * bool * list wstmt).
  Variable jr_tables : list (bytes * list rstmt).
  Variable props_of : kind -> list (bytes * bytes).        (* (term, range tag) from Spec/Properties.v *)

  Definition getter_range (g : bytes) : bytes :=
    if bytes_eqb g (B "JSONGetItem") || bytes_eqb g (B "JSONGetURIItem") then B "item"
    else if bytes_eqb g (B "JSONGetItems") then B "items"
    else if bytes_eqb g (B "JSONGetNaturalLanguageField") then B "text"
    else if bytes_eqb g (B "JSONGetTime") then B "time"
    else if bytes_eqb g (B "JSONGetDuration") then B "duration"
    else if bytes_eqb g (B "JSONGetInt") then B "int"
    else if bytes_eqb g (B "JSONGetFloat") then B "float"
    else if bytes_eqb g (B "JSONGetBoolean") then B "bool"
    else if existsb (bytes_eqb g) [B "GetAPSource"; B "JSONGetActorEndpoints"; B "JSONGetPublicKey"] then B "struct"
    else B "string".

  Inductive sbad :=
  | SBadUnrecognised (k : kind)
  | SBadNotRead (k : kind) (term : bytes)             (* a vocabulary property the decoder ignores *)
  | SBadNotWritten (k : kind) (term : bytes)
  | SBadInvented (k : kind) (term : bytes)            (* the decoder reads a term the vocabulary does not give the type *)
  | SBadRange (k : kind) (term : bytes) (getter : bytes).

  Definition range_fits (want got : bytes) : bool :=
    bytes_eqb want got
    || (bytes_eqb want (B "uint") && bytes_eqb got (B "int"))
    || (bytes_eqb want (B "string") && bytes_eqb got (B "item")).   (* href / rel: read as an item, its link kept *)

  Definition check_kind_spec (k : kind) : list sbad :=
    match reads_of jr_tables k, entries_of jw_tables k with
    | Some rs, Some ws =>
        flat_map (fun p =>
                    match filter (fun r => bytes_eqb (rf_term r) (fst p)) rs with
                    | [] => [SBadNotRead k (fst p)]
                    | r :: _ => if range_fits (snd p) (getter_range (rf_getter r)) then [] else [SBadRange k (fst p) (rf_getter r)]
                    end
                    ++ (if existsb (fun w => bytes_eqb (wf_term w) (fst p)) ws then [] else [SBadNotWritten k (fst p)]))
                 (props_of k)
        ++ flat_map (fun r => if existsb (fun p => bytes_eqb (fst p) (rf_term r)) (props_of k) then [] else [SBadInvented k (rf_term r)]) rs
    | _, _ => [SBadUnrecognised k]
    end.

  Definition check_all_spec : list sbad := flat_map check_kind_spec all_kinds.
End CheckSpec.

Definition known_getters : list bytes :=
  [B "JSONGetID"; B "JSONGetType"; B "JSONGetMimeType"; B "JSONGetString"; B "JSONGetIRI"; B "JSONGetLangRefField";
   B "val.GetStringBytes"; B "val.Get.GetStringBytes"; B "JSONGetNaturalLanguageField"; B "JSONGetItem"; B "JSONGetURIItem";
   B "JSONGetItems"; B "JSONGetTime"; B "JSONGetDuration"; B "JSONGetInt"; B "JSONGetFloat"; B "JSONGetBoolean";
   B "GetAPSource"; B "JSONGetActorEndpoints"; B "JSONGetPublicKey"].
Definition known_read_guards : list bytes :=
  [B ""; B "x != 0"; B "len(x) > 0"; B "x != nil;GetLink"].
(* "len(x) > 0;UnmarshalJSON" - the decoded bytes of source.mediaType handed to MimeType.UnmarshalJSON, which strips the
   quotes the media type itself begins or ends with - is no longer a recognised shape: the decoder model reads the string as it
   is, which is what the repaired GetAPSource does (conversion MimeType) *)
Definition known_convs : list bytes := [B ""; B "uint"; B "string"; B "ActivityVocabularyType"; B "MimeType"].

Definition tables_recognised_r (jr_tables : list (bytes * list rstmt)) : bool :=
  forallb (fun t => forallb (fun s => match s with
                                      | RProp _ _ g c gd _ => existsb (bytes_eqb g) known_getters && existsb (bytes_eqb c) known_convs
                                                              && existsb (bytes_eqb gd) known_read_guards
                                      | RDelegate _ _ _ => true
                                      | RUnrecognised _ _ => false
                                      end) (snd t)) jr_tables.
