(* Decidable conditions on the generated JSON write/read tables, with diagnostics. *)
From AP.Model Require Import Prelude Bytes Vocab Layout JsonTables Dispatch JsonEnc.

Record wflat := mkwf { wf_term : bytes; wf_writer : bytes; wf_path : list fid; wf_via : bytes; wf_guards : list wguard }.

Section Check.
  Variable jw_tables : list (bytes * bool * list wstmt).
  Variable layout_of : kind -> list fdecl.

  (* all property entries of a table, delegations followed; None when something is unrecognised *)
  Fixpoint flatten_w (depth : nat) (name : bytes) : option (list wflat) :=
    match depth with
    | O => None
    | S d =>
        match jw_table jw_tables name with
        | None => None
        | Some (_, stmts) =>
            (fix go (l : list wstmt) : option (list wflat) :=
               match l with
               | [] => Some []
               | WProp t w p v g AccOther _ :: _ => None
               | WProp t w p v g _ _ :: r =>
                   match go r with Some rs => Some (mkwf t w p v g :: rs) | None => None end
               | WDelegate _ [] _ _ :: r => go r
               | WDelegate _ fn AccOther _ :: _ => None
               | WDelegate _ fn _ _ :: r =>
                   match flatten_w d fn, go r with
                   | Some a, Some b => Some (a ++ b)
                   | _, _ => None
                   end
               | WUnrecognised _ _ :: _ => None
               end) stmts
        end
    end.

  Definition entries_of (k : kind) : option (list wflat) := flatten_w 6 (marshal_table k).

  (* is the writer the right one for the Go type of the field *)
  Definition writer_fits (ty : gotype) (e : wflat) : bool :=
    let w := wf_writer e in
    match ty with
    | TItem => bytes_eqb w (B "JSONWriteItemProp")
    | TItems => bytes_eqb w (B "JSONWriteItemCollectionProp") || bytes_eqb w (B "JSONWriteItemProp")
    | TNlv => bytes_eqb w (B "JSONWriteNaturalLanguageProp")
    | TString => bytes_eqb w (B "JSONWriteProp") || bytes_eqb w (B "JSONWriteStringProp") || bytes_eqb w (B "JSONWriteIRIProp")
    | TTime => bytes_eqb w (B "JSONWriteTimeProp")
    | TDur => bytes_eqb w (B "JSONWriteDurationProp")
    | TUint | TInt64 => bytes_eqb w (B "JSONWriteIntProp")
    | TBool => bytes_eqb w (B "JSONWriteBoolProp")
    | TFloat => bytes_eqb w (B "JSONWriteFloatProp")
    | TSource | TEndpoints | TPubKey => bytes_eqb w (B "JSONWriteProp")
    | TOther _ => false
    end.

  Inductive wbad :=
  | WBadUnrecognised (k : kind)
  | WBadMissing (k : kind) (f : fid)                 (* a declared property that is never written *)
  | WBadTwice (k : kind) (f : fid)                   (* written by two entries *)
  | WBadTerm (k : kind) (f : fid) (written declared : bytes)
  | WBadWriter (k : kind) (f : fid) (writer : bytes)
  | WBadForeign (k : kind) (term : bytes)            (* an entry for a field the type does not have *)
  | WBadDupTerm (k : kind) (term : bytes).

  Definition path_head (e : wflat) : option fid := match wf_path e with f :: _ => Some f | [] => None end.
  Definition entry_for (f : fid) (e : wflat) : bool :=
    match path_head e with Some g => fid_beq f g | None => false end.

  Definition check_kind (k : kind) : list wbad :=
    match entries_of k with
    | None => [WBadUnrecognised k]
    | Some es =>
        flat_map (fun d =>
                    match fd_term d with
                    | [] => []
                    | _ =>
                        match filter (entry_for (fd_fid d)) es with
                        | [] => [WBadMissing k (fd_fid d)]
                        | [e] =>
                            (if bytes_eqb (wf_term e) (fd_term d) then [] else [WBadTerm k (fd_fid d) (wf_term e) (fd_term d)])
                            ++ (if writer_fits (fd_type d) e then [] else [WBadWriter k (fd_fid d) (wf_writer e)])
                        | _ => [WBadTwice k (fd_fid d)]
                        end
                    end) (layout_of k)
        ++ flat_map (fun e => match path_head e with
                              | Some f => if existsb (fun d => fid_beq (fd_fid d) f) (layout_of k) then [] else [WBadForeign k (wf_term e)]
                              | None => [WBadForeign k (wf_term e)]
                              end) es
        ++ (fix dups (l : list wflat) : list wbad :=
              match l with
              | [] => []
              | e :: r => (if existsb (fun e' => bytes_eqb (wf_term e') (wf_term e)) r then [WBadDupTerm k (wf_term e)] else []) ++ dups r
              end) es
    end.

  Definition check_all_w : list wbad := flat_map check_kind all_kinds.
End Check.

(* every statement of every write table is of a recognised shape with known writers and guards *)
Definition known_writers : list bytes :=
  [B "JSONWriteItemProp"; B "JSONWriteItemCollectionProp"; B "JSONWriteNaturalLanguageProp"; B "JSONWriteProp";
   B "JSONWriteTimeProp"; B "JSONWriteDurationProp"; B "JSONWriteIntProp"; B "JSONWriteFloatProp";
   B "JSONWriteBoolProp"; B "JSONWriteStringProp"; B "JSONWriteIRIProp"].
Definition known_vias : list bytes :=
  [B ""; B "int64"; B "string"; B "MarshalJSON:ID"; B "MarshalJSON:IRI"; B "MarshalJSON:ActivityVocabularyType"; B "MarshalJSON:MimeType";
   B "MarshalJSON:*Endpoints"; B "MarshalJSON:PublicKey"; B "MarshalJSON:Source"; B "json.Marshal"].
Definition known_other_guards : list bytes :=
  [B "len(a.PublicKey.PublicKeyPem)+len(a.PublicKey.ID) > 0"].

Definition wstmt_recognised (s : wstmt) : bool :=
  match s with
  | WProp _ w _ v gs acc _ =>
      existsb (bytes_eqb w) known_writers && existsb (bytes_eqb v) known_vias &&
      forallb (fun g => match g with GOther src => existsb (bytes_eqb src) known_other_guards | _ => true end) gs &&
      match acc with AccOther => false | _ => true end
  | WDelegate _ _ acc _ => match acc with AccOther => false | _ => true end
  | WUnrecognised _ _ => false
  end.

Definition tables_recognised_w (jw_tables : list (bytes * bool * list wstmt)) : bool :=
  forallb (fun t => forallb wstmt_recognised (snd t)) jw_tables.

(* member names are plain ASCII letters: they need no escaping *)
Definition term_plain (t : bytes) : bool := match t with [] => false | _ => forallb is_alpha t end.
Definition terms_plain (jw_tables : list (bytes * bool * list wstmt)) : bool :=
  forallb (fun t => forallb (fun s => match s with WProp term _ _ _ _ _ _ => term_plain term | _ => true end) (snd t)) jw_tables.
