(* The JSON codec of the current tree: encoder and decoder interpreters instantiated with the tables
   regenerated from /repo. *)
From AP.Model Require Import Prelude Bytes Vocab Pred Layout Dispatch Json JsonLeaf JsonTables JsonEnc JsonDec Text.
From AP.Gen Require Import Layout TypeLists Switches JsonW JsonR.

Definition registry (n : bytes) : option kind :=
  tag_kind (sw_lookup sw_GetItemByType sw_GetItemByType_default n).
Definition load_switch (n : bytes) : option kind :=
  if sw_mentions sw_JSONLoadItem n then tag_kind (sw_lookup sw_JSONLoadItem sw_JSONLoadItem_default n) else None.

Definition enc (i : item) : option bytes := marshal_json jw_tables i.
Definition dec (b : bytes) : option (outcome item) :=
  unmarshal_json jr_tables layout_of registry load_switch tl_ActivityTypes tl_ActorTypes tl_LinkTypes b.
Definition dec_tree (v : fjv) : option item :=
  unmarshal_to_item jr_tables layout_of registry load_switch tl_ActivityTypes tl_ActorTypes tl_LinkTypes v.
