(* The JSON decoder: fastjson (byte-level model of Model/Text.v) followed by an interpreter of the read
   tables regenerated from /repo (Gen/JsonR.v: every JSONLoad* function, statement by statement), the type
   dispatch of JSONLoadItem (Gen/Switches.v) and hand-written models of the getters of decoding_json.go.
   Results: Some i (INil = the nil item); None = outside the modelled domain (stated per getter).
   One level of JSONLoadItem is [load_item_level rec] (Section Level), with the loader of embedded values as
   a parameter; [load_item] ties the knot over the fuel.  The getters are top-level definitions so that
   Proofs/DecEquivP.v and Proofs/ShapeP.v can state lemmas about each of them. *)
From AP.Model Require Import Prelude Bytes Vocab Pred Url IriEq CollIri UrlU Nlv Text Equal Coll Dispatch Layout JsonTables JsonLeaf JsonCheck.
From AP.Model Require Import IriEqU.

(* ItemCollection.Append as the decoder uses it: ItemsEqual over the WIDE model of IRI.Equals (Model/IriEqU.v, all byte
   strings) - the instance CoG.ic_append iri_equ of Model/Coll.v (= ic_append_u of Model/CollU.v).  Until builder b48 the
   decoder model appended with the plain-grammar instance: on a list holding two spellings of one URL that only the wide
   comparison identifies (".../a%41", ".../aA") the code keeps one member, that model kept two (witness in
   harness/c01rt.go).  On the plain grammar the two instances agree (C14_u_agrees_plain). *)
Notation ic_append := (CoG.ic_append iri_equ).
Notation ic_contains := (CoG.ic_contains iri_equ).
From AP.Model Require XsdRead.
Open Scope Z_scope.

Definition jget (v : fjv) (k : bytes) : option fjv := fj_get false v k.
Definition jstr (v : option fjv) : bytes := match v with Some x => fj_string_bytes x | None => [] end.

(* asIRI (as repaired: "fix: an IRI whose fragment follows the host directly ..."): strings.Trim(val.String(), quote),
   then url.Parse must succeed with a scheme and a host.
   Value.String() of a string value writes it back as JSON: when the text holds a quote, a backslash or a byte below
   0x20 it is re-escaped (strconv.AppendQuote) and asIRI sees the ESCAPED text - outside the model (None).  Otherwise
   asIRI sees the text itself, and the test is url_classify_u of Model/UrlU.v (net/url on all byte strings: bytes >= 0x80,
   percent-escapes, spaces, userinfo, IP literals ...).
   Some (Some s) = an IRI, Some None = not an IRI, None = outside the model. *)
Definition fj_has_special (s : bytes) : bool :=
  existsb (fun b => Byte.eqb b x22 || Byte.eqb b x5c || (byteN b <? 32)%N) s.
Definition as_iri (v : fjv) : option (option bytes) :=
  match v with
  | FStr raw =>
      let s := fj_unescape raw in
      if fj_has_special s then None
      else match url_classify_u s with
           | UValid _ => Some (Some s)
           | UFallback => Some None
           | UUnmodelled => None
           end
  | _ => Some None
  end.
(* the pinned tree called url.ParseRequestURI, which does not cut the fragment: "scheme://host#fragment" was refused *)
Definition as_iri_pinned (v : fjv) : option (option bytes) :=
  match v with
  | FStr raw =>
      let s := fj_unescape raw in
      if fj_has_special s then None
      else match request_iri_ok s with
           | Some true => Some (Some s)
           | Some false => Some None
           | None => None
           end
  | _ => Some None
  end.
(* ---- scalars ---- *)
Definition digit_val (b : byte) : option Z :=
  if is_digit b then Some (Z.of_N (byteN b) - 48) else None.
Fixpoint parse_nat_go (s : bytes) (acc : Z) : option Z :=
  match s with
  | [] => Some acc
  | b :: r => match digit_val b with Some d => parse_nat_go r (acc * 10 + d) | None => None end
  end.
Definition parse_nat (s : bytes) : option Z := match s with [] => None | _ => parse_nat_go s 0 end.

(* GetInt64 on a number token: integers (fast path up to 18 digits, strconv.ParseInt beyond: 0 when out of the
   int64 range); anything else that fastjson's best-effort parser rejects gives 0 *)
Definition get_int64 (v : option fjv) : option Z :=
  match v with
  | Some (FNum tok) =>
      let '(neg, ds) := match tok with b :: r => if Byte.eqb b x2d then (true, r) else (false, tok) | [] => (false, []) end in
      match parse_nat ds with
      | Some n => if Nat.leb (length ds) 18 then Some (if neg then - n else n)
                  else (* longer digit strings go through strconv.ParseInt: the value inside the int64 range, 0 beyond it *)
                    if (if neg then n <=? 9223372036854775808 else n <=? 9223372036854775807)
                    then Some (if neg then - n else n) else Some 0
      | None => if forallb (fun b => is_digit b || byte_in b (B ".eE+-")) tok then Some 0 else None
      end
  | _ => Some 0
  end.

(* JSONGetActorEndpoints assigns the fields in the order of its statements; the value is the struct, whose fields
   the harness renders in declaration order *)
Definition endpoints_struct_order : list fid :=
  [F_UploadMedia; F_OauthAuthorizationEndpoint; F_OauthTokenEndpoint; F_ProvideClientKey; F_SignClientKey; F_SharedInbox].
Definition endpoints_in_struct_order (l : list (fid * item)) : list (fid * item) :=
  flat_map (fun f => match find (fun p => fid_beq (fst p) f) l with Some p => [p] | None => [] end) endpoints_struct_order
  ++ filter (fun p => negb (existsb (fid_beq (fst p)) endpoints_struct_order)) l.

(* GetFloat64 on a decimal with at most six fractional digits (the FFloat domain) *)
Definition get_float_micro (v : option fjv) : option Z :=
  match v with
  | Some (FNum tok) =>
      let '(neg, ds) := match tok with b :: r => if Byte.eqb b x2d then (true, r) else (false, tok) | [] => (false, []) end in
      let '(ip, fp) := cut_byte x2e ds in
      match parse_nat ip, fp with
      | Some i, None => Some ((if neg then -1 else 1) * i * 1000000)
      | Some i, Some f =>
          if Nat.leb (length f) 6 && negb (Nat.eqb (length f) 0) then
            match parse_nat (f ++ repeat x30 (6 - length f)) with
            | Some fr => Some ((if neg then -1 else 1) * (i * 1000000 + fr))
            | None => None
            end
          else None
      | None, _ => None
      end
  | _ => Some 0
  end.

(* days since 1970-01-01 of a civil date *)
Definition days_from_civil (y m d : Z) : Z :=
  let y := if m <=? 2 then y - 1 else y in
  let era := y / 400 in                    (* floor division *)
  let yoe := y - era * 400 in
  let doy := (153 * (if m >? 2 then m - 3 else m + 9) + 2) / 5 + d - 1 in
  let doe := yoe * 365 + yoe / 4 - yoe / 100 + doy in
  era * 146097 + doe - 719468.

Definition is_leap (y : Z) : bool := ((y mod 4 =? 0) && negb (y mod 100 =? 0)) || (y mod 400 =? 0).
Definition days_in_month (y m : Z) : Z :=
  if m =? 2 then (if is_leap y then 29 else 28)
  else if (m =? 4) || (m =? 6) || (m =? 9) || (m =? 11) then 30 else 31.

Definition num2 (a b : byte) : option Z :=
  match digit_val a, digit_val b with Some x, Some y => Some (x * 10 + y) | _, _ => None end.

(* time.Time.UnmarshalText on "YYYY-MM-DDTHH:MM:SSZ" and "...+HH:MM" / "...-HH:MM", then .UTC();
   Some None = the zero time (empty or unparsable text leaves t at zero); None = a form outside the model *)
Definition rfc3339_grammar (s : bytes) : option (option vtime) :=
  match s with
  | [] => Some None
  | y1 :: y2 :: y3 :: y4 :: d1 :: m1 :: m2 :: d2 :: a1 :: a2 :: t :: h1 :: h2 :: c1 :: n1 :: n2 :: c2 :: s1 :: s2 :: rest =>
      if Byte.eqb d1 x2d && Byte.eqb d2 x2d && Byte.eqb t x54 && Byte.eqb c1 x3a && Byte.eqb c2 x3a then
        match num2 y1 y2, num2 y3 y4, num2 m1 m2, num2 a1 a2, num2 h1 h2, num2 n1 n2, num2 s1 s2 with
        | Some ya, Some yb, Some mo, Some da, Some ho, Some mi, Some se =>
            let secs := days_from_civil (ya * 100 + yb) mo da * 86400 + ho * 3600 + mi * 60 + se in
            let valid := (1 <=? mo) && (mo <=? 12) && (1 <=? da) && (da <=? days_in_month (ya * 100 + yb) mo)
                         && (ho <=? 23) && (mi <=? 59) && (se <=? 59) in
            if valid then
              match rest with
              | [z] => if Byte.eqb z x5a then Some (Some {| vsecs := secs; vnanos := 0; voff := 0 |}) else None
              | [sg; o1; o2; oc; o3; o4] =>
                  match num2 o1 o2, num2 o3 o4 with
                  | Some oh, Some om =>
                      if Byte.eqb oc x3a && (Byte.eqb sg x2b || Byte.eqb sg x2d) then
                        (* time.Parse rejects only offset hours above 24 and minutes above 60 *)
                        if (oh <=? 24) && (om <=? 60) then
                          let off := (if Byte.eqb sg x2b then 1 else -1) * (oh * 3600 + om * 60) in
                          Some (Some {| vsecs := secs - off; vnanos := 0; voff := 0 |})
                        else Some None
                      else None
                  | _, _ => None
                  end
              | _ => None
              end
            else Some None     (* a field out of range (month 13, 30 February, hour 24, second 60): time.Parse fails, t stays zero *)
        | _, _, _, _, _, _, _ => None
        end
      else None
  | _ => None
  end.

(* time.Time.UnmarshalText on ALL byte strings (go1.23 time/format_rfc3339.go parseStrictRFC3339: the fast parser, and
   when that refuses time.Parse(time.RFC3339, s) - the strict checks behind it are disabled, "case true" - so the texts
   accepted are those of the layout parser of time/format.go, which is laxer than RFC 3339):
     YYYY-MM-DDTh[h]:mm:ss[(.|,)d+](Z|(+|-)hh:mm), nothing before or behind;
   the hour may have ONE digit (getnum not fixed), the fraction may start with a COMMA, has any number of digits of which
   the first nine count (parseNanoseconds), "." or "," not followed by a digit is no fraction (and then no zone either);
   month 1-12, day 1-daysIn, hour <= 23, minute and second <= 59, offset hour <= 24, offset minute <= 60.
   None = refused (JSONGetTime then returns the zero time).  [rfc3339_grammar] above is the reader on whole-second
   instants of the fixed width; the two agree wherever it answers (Proofs/TimeAgreeP.v rfc3339_grammar_agrees). *)
Fixpoint take_dig (s : bytes) : bytes * bytes :=
  match s with
  | b :: r => if is_digit b then let '(d, t) := take_dig r in (b :: d, t) else ([], s)
  | [] => ([], [])
  end.
Definition frac_nanos (ds : bytes) : Z :=
  let d9 := firstn 9 ds in
  match parse_nat_go d9 0 with Some n => n * 10 ^ Z.of_nat (9 - length d9) | None => 0 end.
(* stdISO8601ColonTZ "Z07:00" followed by the end of the text: the offset in seconds *)
Definition read_zone (s : bytes) : option Z :=
  match s with
  | [z] => if Byte.eqb z x5a then Some 0 else None
  | [sg; o1; o2; oc; o3; o4] =>
      match num2 o1 o2, num2 o3 o4 with
      | Some oh, Some om =>
          if Byte.eqb oc x3a && (Byte.eqb sg x2b || Byte.eqb sg x2d) && (oh <=? 24) && (om <=? 60)
          then Some ((if Byte.eqb sg x2b then 1 else -1) * (oh * 3600 + om * 60)) else None
      | _, _ => None
      end
  | _ => None
  end.
Definition read_rfc3339 (s : bytes) : option vtime :=
  match s with
  | y1 :: y2 :: y3 :: y4 :: d1 :: m1 :: m2 :: d2 :: a1 :: a2 :: t :: h1 :: rest0 =>
      let '(h2o, rest1) := match rest0 with
                           | h2 :: r => if is_digit h2 then (Some h2, r) else (None, rest0)
                           | [] => (None, [])
                           end in
      match rest1 with
      | c1 :: n1 :: n2 :: c2 :: s1 :: s2 :: rest2 =>
          if Byte.eqb d1 x2d && Byte.eqb d2 x2d && Byte.eqb t x54 && Byte.eqb c1 x3a && Byte.eqb c2 x3a then
            match num2 y1 y2, num2 y3 y4, num2 m1 m2, num2 a1 a2,
                  (match h2o with Some h2 => num2 h1 h2 | None => digit_val h1 end), num2 n1 n2, num2 s1 s2 with
            | Some ya, Some yb, Some mo, Some da, Some ho, Some mi, Some se =>
                let secs := days_from_civil (ya * 100 + yb) mo da * 86400 + ho * 3600 + mi * 60 + se in
                let valid := (1 <=? mo) && (mo <=? 12) && (1 <=? da) && (da <=? days_in_month (ya * 100 + yb) mo)
                             && (ho <=? 23) && (mi <=? 59) && (se <=? 59) in
                if valid then
                  let '(nanos, rest3) :=
                    match rest2 with
                    | p :: f1 :: r => if (Byte.eqb p x2e || Byte.eqb p x2c) && is_digit f1
                                      then let '(ds, tl) := take_dig (f1 :: r) in (frac_nanos ds, tl) else (0, rest2)
                    | _ => (0, rest2)
                    end in
                  match read_zone rest3 with
                  | Some off => Some {| vsecs := secs - off; vnanos := nanos; voff := 0 |}
                  | None => None
                  end
                else None
            | _, _, _, _, _, _, _ => None
            end
          else None
      | _ => None
      end
  | _ => None
  end.
(* what JSONGetTime makes of the text of the property: `len(str) > 0`, UnmarshalText, .UTC(); Some None = the zero time.
   Never None: the decoder model does not abstain on instant texts. *)
Definition parse_rfc3339 (s : bytes) : option (option vtime) :=
  match s with [] => Some None | _ => Some (read_rfc3339 s) end.

(* the seconds of go-xsd-duration's parseTagWithValue: v, err := strconv.ParseFloat(text, 32); d.v = time.Duration(float64(time.Second) * v).
   ParseFloat(.., 32) returns the float32 nearest to the decimal (as a float64); the product with 1e9 is exact in float64
   (a 24-bit mantissa times the 21-bit mantissa of 1e9 = 1953125 * 2^9); the conversion to int64 truncates.
   So a decimal of seconds is NOT read back as the nanoseconds it denotes: "0.1" gives 100000001 ns, "0.01" 9999999 ns.
   [ip] = the digits in front of the point (1 to 9), [fp] = the digits behind it (none when there is no point) *)
Definition sec_nanos (ip fp : bytes) : option Z :=
  match parse_nat ip, (match fp with [] => Some 0 | _ => parse_nat fp end) with
  | Some i, Some f =>
      let k := Z.of_nat (length fp) in
      let p := i * 10 ^ k + f in
      if p =? 0 then Some 0 else
      let '(m, e) := rn32 p (10 ^ k) in
      Some (if 0 <=? e then m * 2 ^ e * 1000000000 else m * 1000000000 / 2 ^ (- e))
  | _, _ => None
  end.

(* one part of the sum: a part that does not fit an int64 wraps in the Go multiplication (and is refused when the
   wrapped value is negative): outside the model *)
Definition add_part (acc v : Z) : option Z := if v <? 2 ^ 63 then Some (acc + v) else None.
(* the int64 a sum of int64 parts wraps to *)
Definition wrap64 (z : Z) : Z := (z + 2 ^ 63) mod 2 ^ 64 - 2 ^ 63.

(* xsd.Unmarshal on [-]P[nY][nM][nD][T[nH][nM][n[.n]S]]: a year counts 356 days, a month 30 days (the constants of
   go-xsd-duration); the accumulator is in nanoseconds, the total wraps like the int64 additions of the code (the text
   written for the largest duration reads back negative); anything else is outside the model (None): numbers of more
   than nine digits, fractions of more than thirty, a point anywhere but in the seconds, a part beyond the int64 range *)
Fixpoint xsd_parts (fuel : nat) (is_time : bool) (s : bytes) (acc : Z) : option Z :=
  match fuel with
  | O => None
  | S f =>
      match s with
      | [] => Some acc
      | t :: r0 =>
          if negb is_time && Byte.eqb t x54 then
            match r0 with [] => None | _ => xsd_parts f true r0 acc end
          else
          let take := (fix take (l : bytes) : bytes := match l with b :: r => if is_digit b then b :: take r else [] | [] => [] end) in
          let ds := take s in
          match parse_nat ds, skipn (length ds) s with
          | Some n, u :: r =>
              if Nat.ltb 9 (length ds) then None      (* strconv.ParseInt(.., 10, 32) *)
              else if is_time then
                if Byte.eqb u x48 then match add_part acc (n * 3600000000000) with Some a => xsd_parts f true r a | None => None end
                else if Byte.eqb u x4d then match add_part acc (n * 60000000000) with Some a => xsd_parts f true r a | None => None end
                else if Byte.eqb u x53 then
                  match sec_nanos ds [] with Some ns => xsd_parts f true r (acc + ns) | None => None end
                else if Byte.eqb u x2e then
                  let fs := take r in
                  match fs, skipn (length fs) r with
                  | _ :: _, sb :: r' =>
                      if Byte.eqb sb x53 && Nat.leb (length fs) 30 then
                        match sec_nanos ds fs with Some ns => xsd_parts f true r' (acc + ns) | None => None end
                      else None
                  | _, _ => None
                  end
                else None
              else
                if Byte.eqb u x59 then match add_part acc (n * 356 * 86400000000000) with Some a => xsd_parts f false r a | None => None end
                else if Byte.eqb u x4d then match add_part acc (n * 30 * 86400000000000) with Some a => xsd_parts f false r a | None => None end
                else if Byte.eqb u x44 then match add_part acc (n * 86400000000000) with Some a => xsd_parts f false r a | None => None end
                else None
          | _, _ => None
          end
      end
  end.
Definition xsd_duration_grammar (s : bytes) : option Z :=
  match s with
  | [] => Some 0
  | _ =>
      let '(neg, r) := match s with b :: r => if Byte.eqb b x2d then (true, r) else (false, s) | [] => (false, []) end in
      match r with
      | p :: rest =>
          if Byte.eqb p x50 then
            match rest with
            | [] => None
            | _ => match xsd_parts 12%nat false rest 0 with
                   | Some nanos => Some (wrap64 ((if neg then -1 else 1) * nanos))
                   | None => None
                   end
            end
          else None
      | _ => None
      end
  end.

(* what JSONGetDuration returns for the text of the property, on ALL byte strings: Model/XsdRead.v (xsd.Unmarshal as the
   code is, under the recover of parseDuration; 0 for a text that is no duration).  Never None: the decoder model does
   not abstain on duration texts.  [xsd_duration_grammar] above is the reader on the xsd:duration grammar; the two agree
   wherever the grammar reader answers (Proofs/XsdAgreeP.v xsd_grammar_agrees). *)
Definition parse_xsd_duration (s : bytes) : option Z := Some (XsdRead.read_duration s).

(* ---- NotEmpty (helpers.go) on freshly loaded values ---- *)
(* the duration clause of notEmptyObject: `o.Duration != 0`; the pinned tree tested `o.Duration > 0`, so an object
   whose only property was a negative duration was loaded and then discarded (fix: "an object whose only
   property is a negative duration decoded to nil") *)
Definition notempty_dur_pinned (d : Z) : bool := 0 <? d.
Definition notempty_dur (d : Z) : bool := negb (d =? 0).
Definition obj_not_empty (fs : list (fid * fval)) : bool :=
  let set f := match getf f fs with Some v => negb (fval_is_zero v) | None => false end in
  let nn f := match getf f fs with                               (* `!= nil`: an empty non-nil list counts *)
              | Some (FItems (Some _)) | Some (FNlv (Some _)) => true
              | Some (FItem i) => match i with INil => false | _ => true end
              | _ => false
              end in
  set F_ID || set F_Type || nn F_Content || nn F_Attachment || nn F_AttributedTo || nn F_Audience || nn F_BCC || nn F_Bto
  || nn F_CC || nn F_Context || notempty_dur (get_dur F_Duration fs) || set F_EndTime || nn F_Generator || nn F_Icon || nn F_Image
  || nn F_InReplyTo || nn F_Likes || nn F_Location || set F_MediaType || nn F_Name || nn F_Preview || set F_Published
  || nn F_Replies || nn F_Shares
  || match getf F_Source fs with Some (FSource mt c) => negb (match mt with [] => true | _ => false end) || match c with Some _ => true | None => false end | _ => false end
  || set F_StartTime || nn F_Summary || nn F_Tag || nn F_To || set F_Updated || nn F_URL.

(* the fuel of the decoder model: one more than fastjson's MaxDepth *)
Definition json_dec_fuel : nat := 301.

Section Dec.
  Variable jr_tables : list (bytes * list rstmt).
  Variable layout_of : kind -> list fdecl.
  Variable registry : bytes -> option kind.                 (* GetItemByType, from Gen/Switches.v *)
  Variable load_switch : bytes -> option kind.              (* the switch of JSONLoadItem: None = default (error) *)
  Variable activity_types actor_types link_types : list bytes.

  Definition not_empty (i : item) : bool :=
    if is_nil i then false else
    match i with
    | IIri _ s => match s with [] => false | _ => true end
    | IItems _ _ | IIris _ _ => true
    | IObj _ k fs =>
        let ty := get_str F_Type fs in
        match k with
        | KCollection | KCollectionPage | KOrdered | KOrderedPage => true
        | _ =>
            let nn f := match getf f fs with Some (FItem INil) | None => false | Some (FItems None) | Some (FNlv None) | Some (FEndpoints None) => false | Some _ => true end in
            if in_list activity_types ty then
              match k with
              | KActivity => nn F_Actor || nn F_Target || nn F_Result || nn F_Origin || nn F_Instrument || obj_not_empty fs || nn F_Object
              | _ => false
              end
            else if in_list actor_types ty then
              match k with
              | KActor => obj_not_empty fs || nn F_Inbox || nn F_Outbox || nn F_Following || nn F_Followers || nn F_Liked
                          || nn F_PreferredUsername || nn F_Endpoints || nn F_Streams
                          || match getf F_PublicKey fs with Some (FPubKey [] [] []) | None => false | Some _ => true end
              | _ => false
              end
            else match k with
                 | KLink =>
                     if bytes_eqb ty (B "Link") || in_list link_types ty then
                       let set f := match getf f fs with Some v => negb (fval_is_zero v) | None => false end in
                       set F_ID || in_list link_types ty || set F_MediaType || nn F_Preview || nn F_Name || set F_Href
                       || set F_Rel || set F_HrefLang || set F_Height || set F_Width
                     else false      (* a Link whose type is not a link type: IsLink() false, OnObject(link) errors *)
                 | _ => obj_not_empty fs
                 end
        end
    | _ => false
    end.

  Definition uint_of (z : Z) : N := Z.to_N (z mod 18446744073709551616).

  (* reorder a field list in struct order (what reflection on the real struct yields) *)
  Definition canon_fields (k : kind) (fs : list (fid * fval)) : list (fid * fval) :=
    flat_map (fun d => match getf (fd_fid d) fs with
                       | Some v => if fval_is_zero v then [] else [(fd_fid d, v)]
                       | None => []
                       end) (layout_of k).

  (* ---- one level of JSONLoadItem: [rec] is the loader for embedded values (load_item at the next fuel) ---- *)
  Section Level.
    Variable rec : fjv -> option item.

    (* JSONItemsFn on an array: nil results are skipped, ItemCollection.Append drops repeats *)
    Definition items_go : list fjv -> list item -> option (list item) :=
      fix go (l : list fjv) (acc : list item) : option (list item) :=
        match l with
        | [] => Some acc
        | x :: r => match rec x with
                    | None => None
                    | Some INil => go r acc
                    | Some i => go r (ic_append acc [i])
                    end
        end.
    Definition items_fn (l : list fjv) : option (list item) := items_go l [].

    (* JSONGetItem *)
    Definition jget_item (val : fjv) (prop : bytes) : option item :=
      match jget val prop with
      | None => Some INil
      | Some (FStr raw) => match as_iri (FStr raw) with
                           | Some (Some s) => Some (IIri false s)
                           | Some None => Some INil
                           | None => None
                           end
      | Some (FArr l) => match items_fn l with Some its => Some (IItems false (Some its)) | None => None end
      | Some (FObj kvs) => rec (FObj kvs)
      | Some _ => Some INil
      end.
    (* JSONGetURIItem *)
    Definition jget_uri_item (val : fjv) (prop : bytes) : option item :=
      match jget val prop with
      | None => Some INil
      | Some (FObj kvs) => rec (FObj kvs)
      | Some (FArr l) => match items_fn l with Some its => Some (IItems false (Some its)) | None => None end
      | Some (FStr raw) => Some (IIri false (fj_unescape raw))
      | Some _ => Some INil
      end.
    (* JSONGetItems *)
    Definition jget_items (val : fjv) (prop : bytes) : option (option (list item)) :=
      match jget val prop with
      | None => Some None
      | Some (FArr l) => match items_fn l with Some [] => Some None | Some its => Some (Some its) | None => None end
      | Some (FObj kvs) => match rec (FObj kvs) with
                           | Some INil => Some None
                           | Some i => Some (Some [i])
                           | None => None
                           end
      | Some (FStr raw) => match fj_unescape raw with [] => Some None | s => Some (Some [IIri false s]) end
      | Some _ => Some None
      end.

    (* "a.b": member b of member a *)
    Definition sub_get (val : fjv) (term : bytes) : option fjv :=
      match cut_byte x2e term with
      | (a, Some b) => match jget val a with Some s => jget s b | None => None end
      | (a, None) => jget val a
      end.

    (* `x != nil;GetLink`: the link of the loaded item *)
    Definition link_guard (gd : bytes) (x : fval) : fval :=
      if bytes_eqb gd (B "x != nil;GetLink")
      then match x with
           | FItem i => match get_link i with Ok s => Vocab.FStr s | _ => Vocab.FStr [] end
           | _ => x
           end
      else x.

    Definition string_getters : list bytes :=
      [B "JSONGetID"; B "JSONGetType"; B "JSONGetMimeType"; B "JSONGetString"; B "JSONGetIRI";
       B "JSONGetLangRefField"; B "val.GetStringBytes"; B "val.Get.GetStringBytes"].

    (* the statements of a leaf table (GetAPSource, JSONGetActorEndpoints, JSONLoadPublicKey) on [sub];
       [gv] = the getter at the next depth; leaf tables do not delegate *)
    Definition run_stmts (gv : fjv -> bytes -> bytes -> bytes -> option (option fval)) (sub : fjv)
      : list rstmt -> list (fid * fval) -> option (list (fid * fval)) :=
      fix go (stmts : list rstmt) (acc : list (fid * fval)) : option (list (fid * fval)) :=
        match stmts with
        | [] => Some acc
        | RProp fd tm g cv gd _ :: r =>
            match gv sub g tm cv with
            | None => None
            | Some None => go r acc
            | Some (Some x) =>
                let x' := link_guard gd x in
                go r (if fval_is_zero x' then acc else setf fd x' acc)
            end
        | RDelegate _ fn _ :: r => None
        | RUnrecognised _ _ :: _ => None
        end.
    Definition run_leaf (gv : fjv -> bytes -> bytes -> bytes -> option (option fval)) (name : bytes) (sub : fjv)
      : option (list (fid * fval)) :=
      run_stmts gv sub (match jr_table jr_tables name with Some st => st | None => [RUnrecognised [] []] end) [].

    (* one property through its getter; Some None = the zero value; None = outside the model *)
    Fixpoint get_value (depth : nat) (val : fjv) (getter term conv : bytes) {struct depth} : option (option fval) :=
      match depth with
      | O => None
      | S d =>
          if existsb (bytes_eqb getter) string_getters
          then Some (match jstr (sub_get val term) with [] => None | s => Some (Vocab.FStr s) end)
          else if bytes_eqb getter (B "JSONGetNaturalLanguageField") then
            match cut_byte x2e term with
            | (a, Some b) =>     (* JSONGetNaturalLanguageField(val.Get(a), b); kept only when non-empty *)
                match jget val a with
                | None => Some None
                | Some s => match get_nl_field false s b with
                            | Some ((_ :: _) as l) => Some (Some (FNlv (Some l)))
                            | _ => Some None
                            end
                end
            | (_, None) => match get_nl_field false val term with
                           | Some l => Some (Some (FNlv (Some l)))
                           | None => Some None
                           end
            end
          else if bytes_eqb getter (B "JSONGetItem") then
            match jget_item val term with Some INil => Some None | Some i => Some (Some (FItem i)) | None => None end
          else if bytes_eqb getter (B "JSONGetURIItem") then
            match jget_uri_item val term with Some INil => Some None | Some i => Some (Some (FItem i)) | None => None end
          else if bytes_eqb getter (B "JSONGetItems") then
            match jget_items val term with Some None => Some None | Some l => Some (Some (FItems l)) | None => None end
          else if bytes_eqb getter (B "JSONGetTime") then
            match parse_rfc3339 (jstr (jget val term)) with
            | Some (Some t) => Some (Some (FTime t))
            | Some None => Some None
            | None => None
            end
          else if bytes_eqb getter (B "JSONGetDuration") then
            match parse_xsd_duration (jstr (jget val term)) with Some 0 => Some None | Some d => Some (Some (FDur d)) | None => None end
          else if bytes_eqb getter (B "JSONGetInt") then
            match get_int64 (jget val term) with
            | Some z => Some (if z =? 0 then None
                              else Some (if bytes_eqb conv (B "uint") then FUint (uint_of z) else FInt z))
            | None => None
            end
          else if bytes_eqb getter (B "JSONGetFloat") then
            match get_float_micro (jget val term) with Some 0 => Some None | Some m => Some (Some (FFloat m)) | None => None end
          else if bytes_eqb getter (B "JSONGetBoolean") then
            Some (match jget val term with Some FTrue => Some (FBool true) | _ => None end)
          else if bytes_eqb getter (B "GetAPSource") then
            match run_leaf (get_value d) (B "GetAPSource") val with
            | Some fs => Some (match get_str F_MediaType fs, get_nlv F_Content fs with
                               | [], None => None
                               | mt, c => Some (FSource mt c)
                               end)
            | None => None
            end
          else if bytes_eqb getter (B "JSONGetActorEndpoints") then
            match jget val term with
            | None => Some None
            | Some sub => match run_leaf (get_value d) (B "JSONGetActorEndpoints") sub with
                          | Some fs => Some (Some (FEndpoints (Some (endpoints_in_struct_order (flat_map (fun p => match snd p with FItem i => [(fst p, i)] | _ => [] end) fs)))))
                          | None => None
                          end
            end
          else if bytes_eqb getter (B "JSONGetPublicKey") then
            match jget val term with
            | None => Some None
            | Some sub => match run_leaf (get_value d) (B "JSONLoadPublicKey") sub with
                          | Some fs => Some (match get_str F_ID fs, get_str F_Owner fs, get_str F_PublicKeyPem fs with
                                             | [], [], [] => None
                                             | a, b, c => Some (FPubKey a b c)
                                             end)
                          | None => None
                          end
            end
          else None
      end.

    (* the statements of a JSONLoad<Kind> table on val; [lt] = the table loader at the next depth, for delegations *)
    Definition table_go (lt : bytes -> fjv -> list (fid * fval) -> option (list (fid * fval))) (val : fjv)
      : list rstmt -> list (fid * fval) -> option (list (fid * fval)) :=
      fix go (stmts : list rstmt) (acc : list (fid * fval)) : option (list (fid * fval)) :=
        match stmts with
        | [] => Some acc
        | RProp fd tm g cv gd _ :: r =>
            match get_value 3%nat val g tm cv with
            | None => None
            | Some None => go r acc
            | Some (Some x) =>
                let x' := link_guard gd x in
                go r (if fval_is_zero x' then acc else setf fd x' acc)
            end
        | RDelegate _ fn _ :: r =>
            match lt fn val acc with Some acc' => go r acc' | None => None end
        | RUnrecognised _ _ :: _ => None
        end.

    (* a JSONLoad<Kind> table on val, delegations followed *)
    Fixpoint run_table (depth : nat) (name : bytes) (val : fjv) (acc : list (fid * fval)) {struct depth}
      : option (list (fid * fval)) :=
      match depth with
      | O => None
      | S d =>
          match jr_table jr_tables name with
          | None => None
          | Some stmts => table_go (run_table d) val stmts acc
          end
      end.

    Definition as_string_iri (typ : bytes) (v : fjv) : option (option item) :=
      match typ, v with
      | [], FStr _ => match as_iri v with Some (Some s) => Some (Some (IIri false s)) | Some None => Some None | None => None end
      | _, _ => Some None
      end.

    (* JSONLoadItem *)
    Definition load_item_level (v : fjv) : option item :=
      let typ := jstr (jget v (B "type")) in
      match as_string_iri typ v with
      | None => None
      | Some (Some i) => Some i
      | Some None =>
          match registry typ with
          | None => None
          | Some created =>
              match load_switch typ with
              | None => Some INil                                (* unknown type, no JSONItemUnmarshal hook: error *)
              | Some k =>
                  if kind_beq k created then
                    match run_table 6%nat (JsonCheck.load_table k) v [] with
                    | None => None
                    | Some fs =>
                        let i := IObj true k (canon_fields k fs) in
                        Some (if not_empty i then i else INil)
                    end
                  else None
              end
          end
      end.
  End Level.

  Fixpoint load_item (fuel : nat) (v : fjv) : option item :=
    match fuel with
    | O => None
    | S f => load_item_level (load_item f) v
    end.

  (* fastjson's Object.Get compares the member names as written until its first miss on that object and the
     unescaped names from then on (Object.keysUnescaped).  The two readings agree unless a name written with
     an escape spells the name of a member written without one; which member the real decoder then reads
     depends on the lookups made before (witness: {"typ\u0065":"Note","type":"Person","name":"x"} decodes to
     an Actor whose type is Note; {"type":"Note","nam\u0065":"esc","name":"plain"} has the name "esc").  The
     lookups of this model (jget = fj_get false) do not carry that state: documents holding such an object
     are outside the model. *)
  Definition keys_ambiguous (kvs : list (bytes * fjv)) : bool :=
    existsb (fun kv : bytes * fjv =>
               has_bs (fst kv) &&
               existsb (fun kv' : bytes * fjv => negb (has_bs (fst kv')) && bytes_eqb (fj_unescape (fst kv)) (fst kv')) kvs) kvs.
  Fixpoint keys_clean (v : fjv) : bool :=
    match v with
    | FObj kvs => negb (keys_ambiguous kvs) && forallb (fun kv : bytes * fjv => keys_clean (snd kv)) kvs
    | FArr l => forallb keys_clean l
    | _ => true
    end.

  (* JSONUnmarshalToItem.  The recursion of JSONLoadItem over the parsed document has no depth limit of its own; the
     parser has one (fastjson's MaxDepth, 300: Model/Text.v fj_parse), so no parsed document nests deeper than 300 and
     the fuel below is never what stops the model (Proofs/DecFuelP.v: with fuel above the nesting of the document the
     answer is the same for every larger fuel) *)
  Definition unmarshal_core (v : fjv) : option item :=
    let rec := load_item json_dec_fuel in
    match v with
    | FArr l => match items_fn rec l with Some acc => Some (IItems false (Some acc)) | None => None end
    | FObj _ => rec v
    | FStr _ => match as_iri v with Some (Some s) => Some (IIri false s) | Some None => Some INil | None => None end
    | _ => Some INil
    end.
  Definition unmarshal_to_item (v : fjv) : option item :=
    if keys_clean v then unmarshal_core v else None.

  (* activitypub.UnmarshalJSON: Err = the parser rejected the document *)
  Definition unmarshal_json (b : bytes) : option (outcome item) :=
    match fj_parse b with
    | Ok v => match unmarshal_to_item v with Some i => Some (Ok i) | None => None end
    | Err => Some Err
    | Panic p => Some (Panic p)
    | OutOfFuel => None
    end.
End Dec.
