(* Dynamic table extraction for the JSON write and read tables (DESIGN 3.2 b).

   The harness (harness/zz_jsondyn.go) drives the REAL code table function by table function:

     writer   every MarshalJSON method of the 14 struct types and of Source / PublicKey / Endpoints, and the five
              JSONWrite*Value functions, on values with ONE field set to each boundary value of its Go type (typed
              nil, empty but not nil, one element, two elements, zero instant, negative number, ...): which members
              appear, under which name, with which JSON kind, where among the members written for the empty value,
              and whether the function reports "something written"; pairs of fields for the order.
     reader   every JSONLoad* function, GetAPSource, JSONGetActorEndpoints on documents holding ONE member, under
              every member name any struct declares (and name ++ "Map"), in every JSON kind of [rprobe_trees]:
              which fields are set to what.

   Here the same answers are computed from the generated tables:

     writer   [w_static]: the table with its delegations inlined ([inline_w]), the one statement that mentions the
              field isolated ([isolate]); the statements before and after it run on the empty field list, the
              isolated statement on the probed value.  Proofs/JsonDynP.v proves that this IS the interpreter
              (Model/JsonEnc.v run_table) on every one-field value, for every table that inlines.
     reader   [r_static]: the flattened read entries (Model/JsonCheck.v flatten_r) applied one after the other
              (Model/Shape.v apply_reads): Proofs/ShapeP.v run_table_flat proves that this IS the interpreter
              (Model/JsonDec.v run_table) on every document.

   Case sets (evaluated by vm_compute, counted with the correspondence cases of C02 / C01):
     probe level  [wp_ok] / [rp_ok]   one case per (table, field or member name, probe): exact members / values
     entry level  [we_ok] / [re_ok]   one case per (table, field): [dyn_wentry] = [static_wentry],
                                      [dyn_rentry] = [static_rentry]: name(s), JSON kind, guard (presence per
                                      boundary value), position, flag / feeding member names and value class
     order        [wo_ok]             pairs of fields: which member comes first
     coverage     [wcov_ok] / [rcov_ok]  every generated table was probed; names that set nothing are read by no entry
   Definitions only. *)
From AP.Model Require Import Prelude Bytes Vocab Pred Layout Text Json JsonLeaf JsonTables Dispatch JsonEnc JsonCheck JsonDec Shape.

(* ================================================================ writer *)
Section WDyn.
  Variable tbl : list (bytes * bool * list wstmt).

  (* a property statement, or a delegation closure that writes nothing *)
  Definition stmt_plain (s : wstmt) : bool :=
    match s with
    | WProp _ _ _ _ _ _ _ => true
    | WDelegate _ [] _ _ => true
    | _ => false
    end.

  (* a plain statement the interpreter can evaluate: the free-form guards are the known ones *)
  Definition stmt_readable (s : wstmt) : bool :=
    match s with
    | WProp _ _ _ _ gs acc _ =>
        forallb (fun g => match g with GOther src => existsb (bytes_eqb src) known_other_guards | _ => true end) gs
        && match acc with AccOther => false | _ => true end
    | WDelegate _ [] _ _ => true
    | _ => false
    end.

  (* the statements of a table with its delegation inlined.  Accepted shape (all tables of the package have it):
     the flag starts at false; a call of another table function stands first, accumulated with `=` or `|| notEmpty`
     (both leave the callee's flag: nothing was written before); everything else is plain. *)
  Fixpoint inline_w (d : nat) (name : bytes) : option (list wstmt) :=
    match d with
    | O => None
    | S d' =>
        match jw_table tbl name with
        | Some (false, WDelegate _ ((_ :: _) as fn) acc _ :: rest) =>
            match acc, inline_w d' fn with
            | AccOr, Some l | AccSet, Some l => if forallb stmt_plain rest then Some (l ++ rest) else None
            | _, _ => None
            end
        | Some (false, stmts) => if forallb stmt_plain stmts then Some stmts else None
        | _ => None
        end
    end.

  Definition guard_mentions (f : fid) (g : wguard) : bool :=
    match g with
    | GNeNil f' | GLenGt0 f' | GNotZeroTime f' | GNe0 f' | GGt0 f' => fid_beq f f'
    | GValNonEmpty => false
    | GOther _ => fid_beq f F_PublicKey          (* the one recognised free-form guard reads PublicKey *)
    end.
  Definition stmt_mentions (f : fid) (s : wstmt) : bool :=
    match s with
    | WProp _ _ path _ gs _ _ => existsb (fid_beq f) path || existsb (guard_mentions f) gs
    | _ => false
    end.

  (* the one statement that mentions f, with what stands before and after it *)
  Fixpoint isolate (f : fid) (l : list wstmt) : option (list wstmt * wstmt * list wstmt) :=
    match l with
    | [] => None
    | s :: r =>
        if stmt_mentions f s then (if existsb (stmt_mentions f) r then None else Some ([], s, r))
        else match isolate f r with
             | Some (pre, x, post) => Some (s :: pre, x, post)
             | None => None
             end
    end.

  Section Answer.
    Variable ei : item -> option bytes.
    Variable rt : bytes -> list (fid * fval) -> option (list bytes * bool).

    (* before and after on the empty field list, the isolated statement on fs *)
    Definition w_split_run (pre : list wstmt) (s : wstmt) (post : list wstmt) (fs : list (fid * fval)) (st : list bytes * bool)
      : option (list bytes * bool) :=
      match enc_stmts ei rt pre [] st with
      | Some st0 => match enc_stmts ei rt [s] fs st0 with
                    | Some st1 => enc_stmts ei rt post [] st1
                    | None => None
                    end
      | None => None
      end.
  End Answer.

  Definition dyn_fuel : nat := 40%nat.
  Definition dyn_ei : item -> option bytes := JsonEnc.enc_item tbl dyn_fuel.
  Definition dyn_rt := JsonEnc.run_table tbl 6 dyn_ei.

  (* what the table says the function does on a value whose only set field is f (fs = [] or [(f, v)]):
     Some (members, flag); None = the table does not inline, mentions f twice, or the value is outside the model.
     A field no statement mentions leaves the output of the empty value.
     This is the interpreter on one-field values: Proofs/JsonDynP.v w_static_is_interpreter. *)
  Definition w_static_on (name : bytes) (f : fid) (fs : list (fid * fval)) : option (list bytes * bool) :=
    match inline_w 6 name with
    | None => None
    | Some l =>
        match isolate f l with
        | Some (pre, s, post) => w_split_run dyn_ei dyn_rt pre s post fs ([], false)
        | None => if existsb (stmt_mentions f) l then None else enc_stmts dyn_ei dyn_rt l [] ([], false)
        end
    end.

  (* position of f's statement in the inlined table *)
  Definition w_index_on (name : bytes) (f : fid) : option nat :=
    match inline_w 6 name with
    | Some l => match isolate f l with Some (pre, _, _) => Some (length pre) | None => None end
    | None => None
    end.
End WDyn.

(* When the translator did not recognise a statement, the interpreter answers nothing at all for the table and
   for every value that embeds a value of the type.  To keep the probes of the OTHER fields meaningful (and so
   name the field the unrecognised statement is about), the unreadable statements are then left out: the field
   they write shows up as "the table says nothing is written, the code writes a member". *)
Definition stmt_usable (s : wstmt) : bool :=
  stmt_readable s || match s with WDelegate _ (_ :: _) AccOr _ | WDelegate _ (_ :: _) AccSet _ => true | _ => false end.
Definition tables_usable (tbl : list (bytes * bool * list wstmt)) : bool := forallb (fun t => forallb stmt_usable (snd t)) tbl.
Definition sanitize (tbl : list (bytes * bool * list wstmt)) : list (bytes * bool * list wstmt) :=
  map (fun t => (fst t, filter stmt_usable (snd t))) tbl.
Definition w_static (tbl : list (bytes * bool * list wstmt)) :=
  if tables_usable tbl then w_static_on tbl else w_static_on (sanitize tbl).
Definition w_index (tbl : list (bytes * bool * list wstmt)) :=
  if tables_usable tbl then w_index_on tbl else w_index_on (sanitize tbl).

(* the condition under which [w_static] is the interpreter on every one-field value of every table (evaluated on the
   generated tables in Props/C02.v): every statement is usable as it stands, every table inlines, and in every
   table every field is mentioned by one statement or by none *)
Definition dyn_all_fids : list fid :=
  [F_ID; F_Type; F_Name; F_Attachment; F_AttributedTo; F_Audience; F_Content; F_Context;
   F_MediaType; F_EndTime; F_Generator; F_Icon; F_Image; F_InReplyTo; F_Location; F_Preview;
   F_Published; F_Replies; F_StartTime; F_Summary; F_Tag; F_Updated; F_URL; F_To; F_Bto;
   F_CC; F_BCC; F_Duration; F_Likes; F_Shares; F_Source;
   F_Actor; F_Target; F_Result; F_Origin; F_Instrument; F_Object;
   F_OneOf; F_AnyOf; F_Closed;
   F_Inbox; F_Outbox; F_Following; F_Followers; F_Liked; F_PreferredUsername; F_Endpoints;
   F_Streams; F_PublicKey;
   F_Current; F_First; F_Last; F_TotalItems; F_Items; F_OrderedItems;
   F_PartOf; F_Next; F_Prev; F_StartIndex;
   F_Accuracy; F_Altitude; F_Latitude; F_Longitude; F_Radius; F_Units;
   F_Describes; F_Subject; F_Relationship; F_FormerType; F_Deleted;
   F_Href; F_Rel; F_HrefLang; F_Height; F_Width;
   F_UploadMedia; F_OauthAuthorizationEndpoint; F_OauthTokenEndpoint; F_ProvideClientKey;
   F_SignClientKey; F_SharedInbox;
   F_Owner; F_PublicKeyPem; F_Ref; F_Value].
Definition onefield_ok (tbl : list (bytes * bool * list wstmt)) (name : bytes) : bool :=
  match inline_w tbl 6 name with
  | Some l => forallb (fun f => match isolate f l with
                                | Some _ => true
                                | None => negb (existsb (stmt_mentions f) l)
                                end) dyn_all_fids
  | None => false
  end.
Definition onefield_tables_ok (tbl : list (bytes * bool * list wstmt)) : bool :=
  tables_usable tbl && forallb (fun t => onefield_ok tbl (fst (fst t))) tbl.

(* ---- observations ---- *)
(* what the real function did: did it report something written, and the members in order as (name, value text) *)
Record wobs := mkwobs { wo_written : bool; wo_members : list (bytes * bytes) }.

Definition members_of_obs (o : wobs) : list bytes := map (fun p => member (fst p) (snd p)) (wo_members o).

(* "name":value -> (name, value); member names are plain (C02_tables_recognised: terms_plain) *)
Definition split_member (m : bytes) : bytes * bytes :=
  match m with
  | _ :: r => match cut_byte x22 r with
              | (n, Some (_ :: v)) => (n, v)
              | (n, _) => (n, [])
              end
  | [] => ([], [])
  end.

(* wrapped = a MarshalJSON method: it returns nothing at all unless the flag is set *)
Definition obs_of_static (wrapped : bool) (st : list bytes * bool) : wobs :=
  let '(ms, ne) := st in mkwobs ne (if wrapped && negb ne then [] else map split_member ms).

Definition pairb_eqb (a b : bytes * bytes) : bool := bytes_eqb (fst a) (fst b) && bytes_eqb (snd a) (snd b).
Definition wobs_eqb (a b : wobs) : bool :=
  Bool.eqb (wo_written a) (wo_written b) && list_eqb pairb_eqb (wo_members a) (wo_members b).

(* ---- probe level ---- *)
(* table, wrapped, field, probe number, the value's field list as the harness renders it, observation *)
Definition wpcase := (bytes * bool * fid * nat * list (fid * fval) * wobs)%type.

Definition wp_ok (tbl : list (bytes * bool * list wstmt)) (c : wpcase) : bool :=
  let '(name, wrapped, f, _, fs, o) := c in
  match w_static tbl name f fs with
  | Some st => wobs_eqb (obs_of_static wrapped st) o
  | None => false
  end.

(* ---- entry level ---- *)
Inductive jkind := JString | JNumber | JBool | JObject | JArray | JNull | JOther.
Scheme Equality for jkind.

Definition jkind_of (raw : bytes) : jkind :=
  match raw with
  | b :: _ =>
      if Byte.eqb b x22 then JString
      else if Byte.eqb b x7b then JObject
      else if Byte.eqb b x5b then JArray
      else if Byte.eqb b x74 || Byte.eqb b x66 then JBool
      else if Byte.eqb b x6e then JNull
      else if is_digit b || Byte.eqb b x2d then JNumber
      else JOther
  | [] => JOther
  end.

(* one table entry as probes show it *)
Record wentry := mkwe {
  we_names : list bytes;            (* member names the field was written under, in the order first seen *)
  we_kinds : list (nat * jkind);    (* per probe that wrote it: the JSON kind of the value *)
  we_present : list (nat * bool);   (* the guard: per probe, was a member written for the field *)
  we_before : list (nat * nat);     (* per probe that wrote it: how many members stand before it *)
  we_flag : list (nat * bool) }.    (* per probe: the function reports something written *)

Definition in_members (m : bytes * bytes) (l : list (bytes * bytes)) : bool := existsb (pairb_eqb m) l.
(* the members a probe has that the empty value does not have *)
Definition delta (base probe : list (bytes * bytes)) : list (bytes * bytes) :=
  filter (fun m => negb (in_members m base)) probe.
Fixpoint index_of (m : bytes * bytes) (l : list (bytes * bytes)) : nat :=
  match l with
  | [] => O
  | x :: r => if pairb_eqb m x then O else S (index_of m r)
  end.
Fixpoint add_name (n : bytes) (l : list bytes) : list bytes :=
  match l with
  | [] => [n]
  | x :: r => if bytes_eqb n x then l else x :: add_name n r
  end.

Definition wentry_of (base : wobs) (probes : list (nat * wobs)) : wentry :=
  let ds := map (fun p => (fst p, snd p, delta (wo_members base) (wo_members (snd p)))) probes in
  mkwe
    (fold_left (fun acc t => fold_left (fun a m => add_name (fst m) a) (snd t) acc) ds [])
    (flat_map (fun t => map (fun m => (fst (fst t), jkind_of (snd m))) (snd t)) ds)
    (map (fun t => (fst (fst t), match snd t with [] => false | _ => true end)) ds)
    (flat_map (fun t => match snd t with m :: _ => [(fst (fst t), index_of m (wo_members (snd (fst t))))] | [] => [] end) ds)
    (map (fun t => (fst (fst t), wo_written (snd (fst t)))) ds).

Definition natp_eqb {A} (e : A -> A -> bool) (a b : nat * A) : bool := Nat.eqb (fst a) (fst b) && e (snd a) (snd b).
Definition wentry_eqb (a b : wentry) : bool :=
  list_eqb bytes_eqb (we_names a) (we_names b)
  && list_eqb (natp_eqb jkind_beq) (we_kinds a) (we_kinds b)
  && list_eqb (natp_eqb Bool.eqb) (we_present a) (we_present b)
  && list_eqb (natp_eqb Nat.eqb) (we_before a) (we_before b)
  && list_eqb (natp_eqb Bool.eqb) (we_flag a) (we_flag b).

(* table, wrapped, field, observation on the empty value, probes (number, field list, observation) *)
Definition wecase := (bytes * bool * fid * wobs * list (nat * list (fid * fval) * wobs))%type.

Definition dyn_wentry (c : wecase) : wentry :=
  let '(_, _, _, base, probes) := c in wentry_of base (map (fun p => (fst (fst p), snd p)) probes).

Definition static_wentry (tbl : list (bytes * bool * list wstmt)) (c : wecase) : option wentry :=
  let '(name, wrapped, f, _, probes) := c in
  match w_static tbl name f [] with
  | None => None
  | Some b0 =>
      (fix go (ps : list (nat * list (fid * fval) * wobs)) (acc : list (nat * wobs)) : option wentry :=
         match ps with
         | [] => Some (wentry_of (obs_of_static wrapped b0) (rev acc))
         | (n, fs, _) :: r =>
             match w_static tbl name f fs with
             | Some st => go r ((n, obs_of_static wrapped st) :: acc)
             | None => None
             end
         end) probes []
  end.

Definition we_ok (tbl : list (bytes * bool * list wstmt)) (c : wecase) : bool :=
  match static_wentry tbl c with
  | Some e => wentry_eqb (dyn_wentry c) e
  | None => false
  end.

(* the first probe whose answer differs, with both answers (diagnosis; Eval it on a failing case) *)
Definition we_first_diff (tbl : list (bytes * bool * list wstmt)) (c : wecase)
  : option (nat * wobs * option wobs) :=
  let '(name, wrapped, f, base, probes) := c in
  (fix go (ps : list (nat * list (fid * fval) * wobs)) : option (nat * wobs * option wobs) :=
     match ps with
     | [] => None
     | (n, fs, o) :: r =>
         match w_static tbl name f fs with
         | Some st => if wobs_eqb (obs_of_static wrapped st) o then go r else Some (n, o, Some (obs_of_static wrapped st))
         | None => Some (n, o, None)
         end
     end) ((O, [], base) :: probes).

(* ---- order: table, two fields, did f's member come before g's when both were set ---- *)
Definition wocase := (bytes * fid * fid * bool)%type.
Definition wo_ok (tbl : list (bytes * bool * list wstmt)) (c : wocase) : bool :=
  let '(name, f, g, before) := c in
  match w_index tbl name f, w_index tbl name g with
  | Some i, Some j => Bool.eqb (Nat.ltb i j) before
  | _, _ => false
  end.

(* ---- flag: a field that is set but writes nothing (typed nil, empty list, text without text ...) next to a field
   that does write (the one whose member comes first): table, wrapped, the two-field value, observation.
   Static side: the interpreter itself on the two-field value. ---- *)
Definition wfcase := (bytes * bool * list (fid * fval) * wobs)%type.
Definition wf_ok (tbl : list (bytes * bool * list wstmt)) (c : wfcase) : bool :=
  let '(name, wrapped, fs, o) := c in
  let t := if tables_usable tbl then tbl else sanitize tbl in
  match JsonEnc.run_table t 6 (dyn_ei t) name fs with
  | Some st => wobs_eqb (obs_of_static wrapped st) o
  | None => false
  end.
(* against the declaration: the member written for the first field is still there and the function still reports
   something written - a silent field must not undo what was written before it.  (table, the member the first field
   gets when set alone, observation with the silent field added) *)
Definition wfdcase := (bytes * (bytes * bytes) * wobs)%type.
Definition wfd_ok (c : wfdcase) : bool :=
  let '(_, m, o) := c in wo_written o && in_members m (wo_members o).

(* ---- coverage: the tables the harness probed are the generated tables ---- *)
Fixpoint insert_bytes (x : bytes) (l : list bytes) : list bytes :=
  match l with
  | [] => [x]
  | y :: r => if bytes_eqb x y then l else y :: insert_bytes x r
  end.
Definition same_names (a b : list bytes) : bool :=
  forallb (fun x => existsb (bytes_eqb x) b) a && forallb (fun x => existsb (bytes_eqb x) a) b.
Definition wcov_ok (tbl : list (bytes * bool * list wstmt)) (probed : list bytes) : bool :=
  same_names probed (map (fun t => fst (fst t)) tbl).

(* ---- the entry against the DECLARATION (jsonld tag and Go type of the field, read by reflection in the harness:
   independent of the translator).  This is the observational twin of check_all_w: it names the (table, field,
   probe) at which the real code leaves what the field declares. ---- *)
(* Some true = a set, non-empty value: a member must be written; Some false = nil-like or empty: none may be;
   None = not judged (zero numbers and booleans - totalItems and closed are always written -, empty structs,
   lists of nil-likes, texts with empty values, a key with an owner only) *)
Definition must_write (v : fval) : option bool :=
  match v with
  | FItem i =>
      if is_nil i then Some false
      else match i with
           | IIri _ _ => Some true
           | IObj _ _ (_ :: _) => Some true
           | IItems _ (Some []) => Some false
           | IItems _ (Some l) => if forallb (fun x => negb (is_nil x)) l then Some true else None
           | _ => None
           end
  | FItems None | FItems (Some []) => Some false
  | FItems (Some l) => if forallb (fun x => negb (is_nil x)) l then Some true else None
  | FNlv None | FNlv (Some []) => Some false
  | FNlv (Some l) => if forallb (fun e => match snd e with [] => false | _ => true end) l then Some true else None
  | Vocab.FStr [] => Some false
  | Vocab.FStr _ => Some true
  | FTime t => Some (negb (vtime_is_zero t))
  | FDur d | FInt d | FFloat d => if (d =? 0)%Z then None else Some true
  | FUint n => if (n =? 0)%N then None else Some true
  | FBool b => if b then Some true else None
  | FSource [] None => Some false
  | FSource (_ :: _) _ => Some true
  | FSource [] (Some l) => match l with [] => None | _ => if forallb (fun e => match snd e with [] => false | _ => true end) l then Some true else None end
  | FEndpoints None => Some false
  | FEndpoints (Some []) => None
  | FEndpoints (Some e) => if forallb (fun p => negb (is_nil (snd p))) e then Some true else None
  | FPubKey [] [] [] => Some false
  | FPubKey (_ :: _) _ _ | FPubKey _ _ (_ :: _) => Some true
  | FPubKey _ _ _ => None
  end.

Definition kind_fits (ty : gotype) (is_map : bool) (k : jkind) : bool :=
  match ty, k with
  | (TItem | TItems), (JString | JObject | JArray) => true
  | TNlv, JString => negb is_map
  | TNlv, JObject => is_map
  | (TString | TTime | TDur), JString => true
  | (TUint | TInt64 | TFloat), JNumber => true
  | TBool, JBool => true
  | (TSource | TEndpoints | TPubKey), JObject => true
  | _, _ => false
  end.

(* table, field, Go type, declared term, observation on the empty value, probes *)
Definition wdcase := (bytes * fid * gotype * bytes * wobs * list (nat * list (fid * fval) * wobs))%type.

(* the first probe at which the real code leaves the declaration: Some (probe, what) *)
Inductive wdbad := WDUndeclaredName (n : bytes) | WDKind (k : jkind) | WDNotWritten | WDWrittenForEmpty | WDFlagUnset | WDSeveral.
Definition wd_first_bad (c : wdcase) : option (nat * wdbad) :=
  let '(_, f, ty, term, base, probes) := c in
  (fix go (ps : list (nat * list (fid * fval) * wobs)) : option (nat * wdbad) :=
     match ps with
     | [] => None
     | (n, fs, o) :: r =>
         let d := delta (wo_members base) (wo_members o) in
         let bad :=
           match d with
           | [] => match getf f fs with
                   | Some v => match must_write v with Some true => Some WDNotWritten | _ => None end
                   | None => None
                   end
           | [m] =>
               let is_map := bytes_eqb (fst m) (term ++ B "Map") in
               if negb (bytes_eqb (fst m) term || (is_map && match ty with TNlv => true | _ => false end)) then Some (WDUndeclaredName (fst m))
               else if negb (kind_fits ty is_map (jkind_of (snd m))) then Some (WDKind (jkind_of (snd m)))
               else if negb (wo_written o) then Some WDFlagUnset
               else match getf f fs with
                    | Some v => match must_write v with Some false => Some WDWrittenForEmpty | _ => None end
                    | None => Some WDWrittenForEmpty
                    end
           | _ => Some WDSeveral
           end in
         match bad with Some b => Some (n, b) | None => go r end
     end) probes.
Definition wd_ok (c : wdcase) : bool := match wd_first_bad c with None => true | Some _ => false end.

(* ================================================================ reader *)
(* the JSON values a member is given, by probe number (the harness writes the same texts; rp_ok compares) *)
Definition tstr (s : string) : fjv := Text.FStr (B s).
Definition rprobe_trees : list (nat * fjv) :=
  [ (1, tstr "https://example.com/x"); (2, tstr "plain"); (3, FNum (B "7")); (4, FNum (B "-7")); (5, FNum (B "1.5"));
    (6, FTrue);
    (7, FObj [(B "type", tstr "Note"); (B "id", tstr "https://example.com/o")]);
    (8, FArr [tstr "https://example.com/a"; tstr "https://example.com/b"]);
    (9, FObj [(B "en", tstr "a"); (B "fr", tstr "b")]);
    (10, tstr "2023-11-14T22:13:20Z"); (11, tstr "PT5S"); (12, FArr []); (13, FNull); (14, tstr ""); (15, FNum (B "0"));
    (16, FObj [(B "content", tstr "c"); (B "mediaType", tstr "text/plain"); (B "id", tstr "https://example.com/k");
               (B "owner", tstr "https://example.com/o"); (B "publicKeyPem", tstr "PEM");
               (B "sharedInbox", tstr "https://example.com/s")]);
    (17, FArr [tstr "https://example.com/a"]); (18, FFalse) ]%nat.
Definition rprobe_tree (n : nat) : option fjv :=
  match find (fun p => Nat.eqb (fst p) n) rprobe_trees with Some p => Some (snd p) | None => None end.

(* how a one-member document is presented to a table function: GetAPSource looks under "source",
   JSONGetActorEndpoints is given the member to enter *)
Definition r_doc (fname m : bytes) (j : fjv) : fjv :=
  if bytes_eqb fname (B "GetAPSource") then FObj [(B "source", FObj [(m, j)])]
  else if bytes_eqb fname (B "JSONGetActorEndpoints") then FObj [(B "endpoints", FObj [(m, j)])]
  else FObj [(m, j)].
(* the value the table's statements are evaluated on *)
Definition r_val (fname m : bytes) (j : fjv) : fjv :=
  if bytes_eqb fname (B "JSONGetActorEndpoints") then FObj [(m, j)] else r_doc fname m j.

Section RDyn.
  Variable jr : list (bytes * list rstmt).
  Variable rec : fjv -> option item.

  (* what the table says the function leaves in a zero struct: the flattened entries one after the other *)
  Definition r_static (fname : bytes) (val : fjv) : option (list (fid * fval)) :=
    match flatten_r jr 6 fname with
    | Some rs => apply_reads jr rec val rs []
    | None => None
    end.

  (* the member names an entry looks at.  String and text getters take a dotted term a.b as member b of member a
     (in a kind's table that reads member a; in GetAPSource, probed under "source", member b); text is also read
     under the name ++ "Map"; every other getter looks its term up as it stands *)
  Definition read_names (fname : bytes) (r : rflat) : list bytes :=
    let '(a, ob) := cut_byte x2e (rf_term r) in
    let inner := bytes_eqb fname (B "GetAPSource") in
    if existsb (bytes_eqb (rf_getter r)) string_getters then
      match ob with Some b => if inner then [b] else [a] | None => [a] end
    else if bytes_eqb (rf_getter r) (B "JSONGetNaturalLanguageField") then
      match ob with Some b => if inner then [b; b ++ B "Map"] else [a] | None => [a; a ++ B "Map"] end
    else [rf_term r].
  Definition names_read (fname : bytes) : option (list bytes) :=
    match flatten_r jr 6 fname with
    | Some rs => Some (fold_left (fun acc r => fold_left (fun a n => insert_bytes n a) (read_names fname r) acc) rs [])
    | None => None
    end.
End RDyn.

Definition fields_same (a b : list (fid * fval)) : bool :=
  Nat.eqb (length a) (length b)
  && forallb (fun p => match getf (fst p) b with Some v => fval_eqb (snd p) v | None => false end) a.

(* ---- probe level: table function, member name, probe number, the fields found set ---- *)
Definition rpcase := (bytes * bytes * nat * list (fid * fval))%type.

(* Some true / Some false = agree / differ; None = the model of a getter abstains on this value (malformed
   instants and durations, strings outside the URL grammar of Model/Url.v) *)
Definition rp_verdict (jr : list (bytes * list rstmt)) (rec : fjv -> option item) (c : rpcase) : option bool :=
  let '(fname, m, n, observed) := c in
  match rprobe_tree n with
  | None => Some false
  | Some j =>
      match r_static jr rec fname (r_val fname m j) with
      | Some fs => Some (fields_same fs observed)
      | None => None
      end
  end.
Definition rp_ok jr rec (c : rpcase) : bool := match rp_verdict jr rec c with Some b => b | None => true end.

(* the document texts the harness parses are the trees used here: table function, member name, probe number, text *)
Definition rdcase := (bytes * bytes * nat * bytes)%type.
Definition rd_ok (c : rdcase) : bool :=
  let '(fname, m, n, doc) := c in
  match rprobe_tree n, fj_parse doc with
  | Some j, Ok v => fjv_eqb v (r_doc fname m j)
  | _, _ => false
  end.

(* ---- entry level: which member names feed a field, and what each JSON kind leaves in it ---- *)
Inductive vclass :=
| VStr | VText (entries : nat) | VIri | VObj (k : kind) | VList (members : nat) | VItems (members : nat)
| VTime | VDur | VUint | VInt | VFloat | VBool | VSource | VEndpoints (set : nat) | VPubKey | VOtherV.
Scheme Equality for vclass.

Definition vclass_of (v : fval) : vclass :=
  match v with
  | Vocab.FStr _ => VStr
  | FNlv (Some l) => VText (length l)
  | FItem (IIri _ _) => VIri
  | FItem (IObj _ k _) => VObj k
  | FItem (IItems _ (Some l)) => VList (length l)
  | FItems (Some l) => VItems (length l)
  | FTime _ => VTime | FDur _ => VDur | FUint _ => VUint | FInt _ => VInt | FFloat _ => VFloat | FBool _ => VBool
  | FSource _ _ => VSource
  | FEndpoints (Some e) => VEndpoints (length e)
  | FPubKey _ _ _ => VPubKey
  | _ => VOtherV
  end.

(* one read entry as probes show it: per feeding member name, per probe that set the field, the class of the value *)
Definition rentry := list (bytes * list (nat * vclass)).

(* table function, field, and for each member name that set the field the probes that did, with the value found *)
Definition recase := (bytes * fid * list (bytes * list (nat * fval)))%type.

Definition dyn_rentry (c : recase) : rentry :=
  let '(_, _, e) := c in map (fun x => (fst x, map (fun q => (fst q, vclass_of (snd q))) (snd x))) e.

(* Some e; None = not flattened.  A probe on which the model abstains is left out on both sides ([re_ok]). *)
Definition static_feed (jr : list (bytes * list rstmt)) (rec : fjv -> option item) (fname : bytes) (f : fid) (m : bytes)
  : list (nat * option vclass) :=            (* per probe: Some c = sets f to class c; None = abstains; unset = absent *)
  match flatten_r jr 6 fname with
  | None => []
  | Some rs =>
      (* the entries of the field alone: what the whole table leaves in a field is what its entries leave in it
         (Proofs/ShapeP.v apply_reads_spec) *)
      let mine := filter (fun r => fid_beq (rf_fid r) f) rs in
      flat_map (fun p => match apply_reads jr rec (r_val fname m (snd p)) mine [] with
                         | Some fs => match getf f fs with Some v => [(fst p, Some (vclass_of v))] | None => [] end
                         | None => [(fst p, None)]
                         end) rprobe_trees
  end.

Definition feed_agrees (st : list (nat * option vclass)) (dy : list (nat * vclass)) : bool :=
  (* every probe the model answers: set on both sides with one class, or unset on both sides *)
  forallb (fun p => match snd p with
                    | Some c => match find (fun q => Nat.eqb (fst q) (fst p)) dy with Some q => vclass_beq (snd q) c | None => false end
                    | None => true
                    end) st
  && forallb (fun q => existsb (fun p => Nat.eqb (fst p) (fst q)) st) dy.

(* the names to look at: those that fed the field on the real code, and those the table's entries for the field read
   (a name outside an entry's read_names sets nothing through it: Proofs/JsonDynP.v entry_silent) *)
Definition re_names (jr : list (bytes * list rstmt)) (fname : bytes) (f : fid) (e : rentry) : option (list bytes) :=
  match flatten_r jr 6 fname with
  | None => None
  | Some rs =>
      Some (fold_left (fun acc n => insert_bytes n acc)
                      (flat_map (read_names fname) (filter (fun r => fid_beq (rf_fid r) f) rs)) (fold_left (fun acc x => insert_bytes (fst x) acc) e []))
  end.

Definition re_ok (jr : list (bytes * list rstmt)) (rec : fjv -> option item) (c : recase) : bool :=
  let '(fname, f, _) := c in
  let e := dyn_rentry c in
  match re_names jr fname f e with
  | None => false
  | Some names =>
      forallb (fun m => feed_agrees (static_feed jr rec fname f m)
                                    (match find (fun x => bytes_eqb (fst x) m) e with Some x => snd x | None => [] end)) names
  end.

(* the static entry in the same rendering (for Examples and diagnosis) *)
Definition static_rentry (jr : list (bytes * list rstmt)) (rec : fjv -> option item) (fname : bytes) (f : fid) (names : list bytes) : rentry :=
  flat_map (fun m => match flat_map (fun p => match snd p with Some c => [(fst p, c)] | None => [] end) (static_feed jr rec fname f m) with
                     | [] => []
                     | l => [(m, l)]
                     end) names.

(* ---- coverage: table function, the member names (of all probed: cands) that set some field on some probe ---- *)
Definition rccase := (bytes * list bytes)%type.
Definition rc_ok (jr : list (bytes * list rstmt)) (cands : list bytes) (c : rccase) : bool :=
  let '(fname, relevant) := c in
  match names_read jr fname with
  | Some ns => forallb (fun n => existsb (bytes_eqb n) cands) ns            (* every name the table reads was probed *)
               && forallb (fun n => existsb (bytes_eqb n) relevant) ns      (* and set something: a name that set nothing is read by no entry *)
               && forallb (fun n => existsb (bytes_eqb n) cands) relevant
  | None => false
  end.
Definition rcov_ok (jr : list (bytes * list rstmt)) (probed : list bytes) : bool := same_names probed (map fst jr).

(* ---- the read entry against the DECLARATION (jsonld tag and Go type of the field, by reflection) ---- *)
Definition vclass_fits (ty : gotype) (c : vclass) : bool :=
  match ty, c with
  | TItem, (VIri | VObj _ | VList _) => true
  | TItems, VItems _ => true
  | TNlv, VText _ => true
  | TString, VStr => true
  | TTime, VTime | TDur, VDur | TUint, VUint | TInt64, VInt | TFloat, VFloat | TBool, VBool => true
  | TSource, VSource | TEndpoints, VEndpoints _ | TPubKey, VPubKey => true
  | _, _ => false
  end.
(* what a field of this Go type must take from its declared term: (is it the Map name, probe, class) *)
Definition required_feeds (ty : gotype) : list (bool * nat * vclass) :=
  match ty with
  | TItem => [(false, 1, VIri); (false, 7, VObj KObject); (false, 8, VList 2)]
  | TItems => [(false, 1, VItems 1); (false, 7, VItems 1); (false, 8, VItems 2)]
  | TNlv => [(false, 2, VText 1); (true, 9, VText 2)]
  | TString => [(false, 2, VStr)]
  | TTime => [(false, 10, VTime)]
  | TDur => [(false, 11, VDur)]
  | TUint => [(false, 3, VUint)]
  | TInt64 => [(false, 3, VInt); (false, 4, VInt)]
  | TFloat => [(false, 5, VFloat)]
  | TBool => [(false, 6, VBool)]
  | TSource => [(false, 16, VSource)]
  | TEndpoints => [(false, 16, VEndpoints 1)]
  | TPubKey => [(false, 16, VPubKey)]
  | TOther _ => []
  end%nat.

(* table function, field, Go type, declared term, feeding names with the probes that set the field *)
Definition rdeclcase := (bytes * fid * gotype * bytes * list (bytes * list (nat * fval)))%type.
Inductive rdbad := RDForeignName (n : bytes) | RDClass (n : bytes) (probe : nat) (c : vclass) | RDNotRead (is_map : bool) (probe : nat).
Definition rdecl_first_bad (c : rdeclcase) : option rdbad :=
  let '(_, _, ty, term, e) := c in
  let name_ok n := bytes_eqb n term || (bytes_eqb n (term ++ B "Map") && match ty with TNlv => true | _ => false end) in
  match find (fun x => negb (name_ok (fst x))) e with
  | Some x => Some (RDForeignName (fst x))
  | None =>
      match flat_map (fun x => flat_map (fun q => if vclass_fits ty (vclass_of (snd q)) then [] else [RDClass (fst x) (fst q) (vclass_of (snd q))]) (snd x)) e with
      | b :: _ => Some b
      | [] =>
          match term with
          | [] => None                                     (* no jsonld tag: nothing is declared *)
          | _ =>
              match filter (fun rq : bool * nat * vclass =>
                              let '(is_map, n, cl) := rq in
                              negb (existsb (fun x : bytes * list (nat * fval) =>
                                               bytes_eqb (fst x) (if is_map then term ++ B "Map" else term)
                                               && existsb (fun q : nat * fval => Nat.eqb (fst q) n && vclass_beq (vclass_of (snd q)) cl) (snd x)) e))
                           (required_feeds ty) with
              | (is_map, n, _) :: _ => Some (RDNotRead is_map n)
              | [] => None
              end
          end
      end
  end.
Definition rdecl_ok (c : rdeclcase) : bool := match rdecl_first_bad c with None => true | Some _ => false end.

(* ---- where the decoder model has no answer for a probe (rp_ok, re_ok leave these out): per getter, the probes on
   which [get_value] abstains for a one-member document ---- *)
Definition getter_abstains (jr : list (bytes * list rstmt)) (rec : fjv -> option item) (g : bytes) : list nat :=
  flat_map (fun p => match get_value jr rec 3 (FObj [(B "m", snd p)]) g (B "m") [] with
                     | None => [fst p]
                     | Some _ => []
                     end) rprobe_trees.
Definition abstentions (jr : list (bytes * list rstmt)) (rec : fjv -> option item) : list (bytes * list nat) :=
  flat_map (fun g => match getter_abstains jr rec g with [] => [] | l => [(g, l)] end) known_getters.
