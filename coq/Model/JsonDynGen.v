(* The dynamic-table checks of Model/JsonDyn.v bound to the tables regenerated from the source (Gen/JsonW.v,
   Gen/JsonR.v); the case files written by harness/zz_jsondyn.go use these names. *)
From AP.Model Require Import Prelude Vocab Layout JsonTables JsonDec JsonCodec JsonDyn.
From AP.Gen Require Import Layout TypeLists Switches JsonW JsonR.

(* the loader of embedded values for the reader probes (an embedded object nests one level) *)
Definition dyn_rec := load_item jr_tables layout_of registry load_switch tl_ActivityTypes tl_ActorTypes tl_LinkTypes 8.

Definition wp_ok_gen : wpcase -> bool := wp_ok jw_tables.
Definition we_ok_gen : wecase -> bool := we_ok jw_tables.
Definition wo_ok_gen : wocase -> bool := wo_ok jw_tables.
Definition wf_ok_gen : wfcase -> bool := wf_ok jw_tables.
Definition wcov_ok_gen : list bytes -> bool := wcov_ok jw_tables.

Definition rp_ok_gen : rpcase -> bool := rp_ok jr_tables dyn_rec.
Definition re_ok_gen : recase -> bool := re_ok jr_tables dyn_rec.
Definition rc_ok_gen : list bytes -> rccase -> bool := rc_ok jr_tables.
Definition rcov_ok_gen : list bytes -> bool := rcov_ok jr_tables.
