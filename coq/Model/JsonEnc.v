(* The JSON encoder: an interpreter of the generated write tables (Gen/JsonW.v) over the value universe,
   producing the exact bytes of MarshalJSON.  [] stands for "nothing written" (nil, nil). *)
From AP.Model Require Import Prelude Bytes Vocab Pred Json JsonLeaf JsonTables Dispatch.
Open Scope Z_scope.

(* ---- natural-language values ---- *)
(* LangRefValue.MarshalJSON *)
Definition w_lrv (e : bytes * bytes) : bytes :=
  let '(r, v) := e in
  if negb (bytes_eqb r nil_iri) && negb (match r with [] => true | _ => false end) then
    match v with
    | [] => []
    | _ => string_bytes false r ++ [x3a] ++ string_bytes false v
    end
  else string_bytes false v.

(* an entry inside the language map: the nil language reference is written under its own key *)
Definition w_map_entry (e : bytes * bytes) : bytes :=
  if bytes_eqb (fst e) nil_iri then string_bytes false (fst e) ++ [x3a] ++ w_lrv e else w_lrv e.

(* the entries of a language map that are written: tag and text non-empty, and of several entries whose tags
   read back alike (tagAsRead = [sanitize]) only the first, which is the one Get returns; [seen] = the tags
   written so far *)
Fixpoint nlv_kept (seen : list bytes) (l : list (bytes * bytes)) : list (bytes * bytes) :=
  match l with
  | [] => []
  | e :: r =>
      match fst e, snd e with
      | [], _ | _, [] => nlv_kept seen r
      | _, _ =>
          let k := sanitize (fst e) in
          if existsb (bytes_eqb k) seen then nlv_kept seen r else e :: nlv_kept (k :: seen) r
      end
  end.

(* NaturalLanguageValues.MarshalJSON, generic in which entries of a map are written *)
Definition w_nlv_gen (kept : list (bytes * bytes) -> list (bytes * bytes)) (l : list (bytes * bytes)) : bytes :=
  match l with
  | [] => []
  | _ =>
      let single :=
        match l with
        | [(_, (_ :: _) as v)] => Some (string_bytes false v)
        | _ => None
        end in
      match single with
      | Some b => b
      | None =>
          let parts := flat_map (fun e => match w_map_entry e with [] => [] | b => [b] end) (kept l) in
          match parts with
          | [] => []
          | _ => x7b :: join_with comma parts ++ [x7d]
          end
      end
  end.

(* NaturalLanguageValues.MarshalJSON *)
Definition w_nlv : list (bytes * bytes) -> bytes := w_nlv_gen (nlv_kept []).

(* the pinned tree (before fix 05721dc) wrote every entry with a non-empty tag and text, also under a tag
   already written *)
Definition nlv_kept_pinned (l : list (bytes * bytes)) : list (bytes * bytes) :=
  filter (fun e => match fst e, snd e with [], _ | _, [] => false | _, _ => true end) l.
Definition w_nlv_pinned : list (bytes * bytes) -> bytes := w_nlv_gen nlv_kept_pinned.

(* fix 05721dc compared the tags on the bytes stringBytes writes for them: a malformed byte (written as the
   escape of U+FFFD) and the character U+FFFD (written as itself) still gave two members of one name *)
Fixpoint nlv_kept_written_key (seen : list bytes) (l : list (bytes * bytes)) : list (bytes * bytes) :=
  match l with
  | [] => []
  | e :: r =>
      match fst e, snd e with
      | [], _ | _, [] => nlv_kept_written_key seen r
      | _, _ =>
          let k := string_bytes false (fst e) in
          if existsb (bytes_eqb k) seen then nlv_kept_written_key seen r else e :: nlv_kept_written_key (k :: seen) r
      end
  end.
Definition w_nlv_written_key : list (bytes * bytes) -> bytes := w_nlv_gen (nlv_kept_written_key []).

(* pseudo field lists of the leaf structs *)
Definition pubkey_fields (id owner pem : bytes) : list (fid * fval) :=
  (match id with [] => [] | _ => [(F_ID, FStr id)] end) ++
  (match owner with [] => [] | _ => [(F_Owner, FStr owner)] end) ++
  (match pem with [] => [] | _ => [(F_PublicKeyPem, FStr pem)] end).
Definition source_fields (mt : bytes) (c : nlv) : list (fid * fval) :=
  (match c with None => [] | Some _ => [(F_Content, FNlv c)] end) ++
  (match mt with [] => [] | _ => [(F_MediaType, FStr mt)] end).
Definition endpoints_fields (e : list (fid * item)) : list (fid * fval) :=
  map (fun p => (fst p, FItem (snd p))) e.

(* the value a path denotes inside a field list *)
Definition path_get (path : list fid) (fs : list (fid * fval)) : option fval :=
  match path with
  | [f] => getf f fs
  | [f; g] =>
      match getf f fs with
      | Some (FPubKey id o p) => getf g (pubkey_fields id o p)
      | Some (FSource mt c) => getf g (source_fields mt c)
      | _ => None
      end
  | _ => None
  end.

(* guards *)
Definition g_ne_nil (v : option fval) : bool :=
  match v with
  | Some (FItem INil) | None => false
  | Some (FItems None) | Some (FNlv None) | Some (FEndpoints None) => false
  | Some _ => true
  end.
Definition g_len_gt0 (v : option fval) : bool :=
  match v with
  | Some (FStr (_ :: _)) | Some (FNlv (Some (_ :: _))) | Some (FItems (Some (_ :: _))) => true
  | _ => false
  end.
Definition g_not_zero_time (v : option fval) : bool :=
  match v with Some (FTime t) => negb (vtime_is_zero t) | _ => false end.
Definition num_of (v : option fval) : Z :=
  match v with
  | Some (FDur d) => d | Some (FInt z) => z | Some (FUint n) => Z.of_N n | Some (FFloat m) => m
  | _ => 0
  end.

(* the one guard of the write tables that is no single-field test: Actor.MarshalJSON writes publicKey when the key has an
   id, an owner or the key material (since the repair of "a key holding only its owner was not written"; the pinned tree
   tested id and key material only: pubkey_guard_pinned) *)
Definition pubkey_guard_src : bytes := B "len(a.PublicKey.PublicKeyPem)+len(a.PublicKey.ID)+len(a.PublicKey.Owner) > 0".
Definition pubkey_guard (v : option fval) : bool :=
  match v with
  | Some (FPubKey id owner pem) => match id, owner, pem with [], [], [] => false | _, _, _ => true end
  | _ => false
  end.
Definition pubkey_guard_pinned (v : option fval) : bool :=
  match v with
  | Some (FPubKey id _ pem) => match id, pem with [], [] => false | _, _ => true end
  | _ => false
  end.

Definition eval_guard (fs : list (fid * fval)) (val_bytes : bytes) (g : wguard) : option bool :=
  match g with
  | GNeNil f => Some (g_ne_nil (getf f fs))
  | GLenGt0 f => Some (g_len_gt0 (getf f fs))
  | GNotZeroTime f => Some (g_not_zero_time (getf f fs))
  | GNe0 f => Some (negb (num_of (getf f fs) =? 0))
  | GGt0 f => Some (0 <? num_of (getf f fs))
  | GValNonEmpty => Some (match val_bytes with [] => false | _ => true end)
  | GOther src =>
      if bytes_eqb src pubkey_guard_src then Some (pubkey_guard (getf F_PublicKey fs)) else None
  end.

Fixpoint eval_guards (fs : list (fid * fval)) (val_bytes : bytes) (gs : list wguard) : option bool :=
  match gs with
  | [] => Some true
  | g :: r =>
      match eval_guard fs val_bytes g with
      | None => None
      | Some false => Some false
      | Some true => eval_guards fs val_bytes r
      end
  end.

Definition apply_acc (a : wacc) (r ne : bool) : option bool :=
  match a with
  | AccOr => Some (r || ne)
  | AccSet => Some r
  | AccNotSet => Some (negb r)
  | AccOther => None
  end.

Definition member (term : bytes) (v : bytes) : bytes := dquote :: term ++ [dquote; x3a] ++ v.

Section Enc.
  Variable jw_tables : list (bytes * bool * list wstmt).

  Definition jw_table (name : bytes) : option (bool * list wstmt) :=
    match find (fun t => bytes_eqb (fst (fst t)) name) jw_tables with
    | Some t => Some (snd (fst t), snd t)
    | None => None
    end.

  (* encoder state: members written so far (in order), the notEmpty flag; None = unmodelled *)
  Definition est := option (list bytes * bool).

  (* one struct through one table; [enc_item] encodes nested items (fuel already decremented) *)
  Section Stmts.
    Variable enc_item : item -> option bytes.
    Variable run_table : bytes -> list (fid * fval) -> option (list bytes * bool).   (* callee tables *)

    (* the bytes a writer produces for a value, and whether it reports success *)
    Definition write_value (writer via : bytes) (term : bytes) (v : option fval) : option (bytes * bytes * bool) :=
      (* returns (term actually used, value bytes, result flag) *)
      if bytes_eqb writer (B "JSONWriteItemProp") then
        match v with
        | Some (FItem i) => match enc_item i with Some b => Some (term, b, match b with [] => false | _ => true end) | None => None end
        | Some (FItems l) => match enc_item (IItems false l) with Some b => Some (term, b, match b with [] => false | _ => true end) | None => None end
        | None => Some (term, [], false)
        | _ => None
        end
      else if bytes_eqb writer (B "JSONWriteItemCollectionProp") then
        match v with
        | Some (FItems (Some ((_ :: _) as l))) =>
            (* non-compact: always an array of the members that encode to something *)
            (fix go (l : list item) (acc : list bytes) : option (bytes * bytes * bool) :=
               match l with
               | [] => Some (term, x5b :: join_with comma (rev acc) ++ [x5d], true)
               | i :: r => match enc_item i with
                           | Some [] => go r acc
                           | Some b => go r (b :: acc)
                           | None => None
                           end
               end) l []
        | Some (FItems _) | None => Some (term, [], false)
        | _ => None
        end
      else if bytes_eqb writer (B "JSONWriteNaturalLanguageProp") then
        match v with
        | Some (FNlv (Some l)) =>
            let b := w_nlv l in
            Some (if Nat.ltb 1 (length l) then term ++ B "Map" else term, b, match b with [] => false | _ => true end)
        | Some (FNlv None) | None => Some (term, [], false)
        | _ => None
        end
      else if bytes_eqb writer (B "JSONWriteProp") then
        match v with
        | Some (FStr s) =>
            let b := if bytes_eqb via (B "MarshalJSON:ID") || bytes_eqb via (B "MarshalJSON:IRI") then
                       w_quoted s                               (* IRI.MarshalJSON *)
                     else if bytes_eqb via (B "MarshalJSON:ActivityVocabularyType") || bytes_eqb via (B "MarshalJSON:MimeType") then
                       w_quoted s
                     else if bytes_eqb via (B "json.Marshal") then string_bytes true s
                     else [] in
            if bytes_eqb via (B "MarshalJSON:ID") || bytes_eqb via (B "MarshalJSON:IRI")
               || bytes_eqb via (B "MarshalJSON:ActivityVocabularyType") || bytes_eqb via (B "MarshalJSON:MimeType")
               || bytes_eqb via (B "json.Marshal")
            then Some (term, b, match b with [] => false | _ => true end) else None
        | Some (FEndpoints (Some e)) =>
            match run_table (B "Endpoints_MarshalJSON") (endpoints_fields e) with
            | Some (ms, ne) => let b := if ne then x7b :: join_with comma ms ++ [x7d] else [] in
                               Some (term, b, match b with [] => false | _ => true end)
            | None => None
            end
        | Some (FPubKey id o p) =>
            match run_table (B "PublicKey_MarshalJSON") (pubkey_fields id o p) with
            | Some (ms, ne) => let b := if ne then x7b :: join_with comma ms ++ [x7d] else [] in
                               Some (term, b, match b with [] => false | _ => true end)
            | None => None
            end
        | Some (FSource mt c) =>
            match run_table (B "Source_MarshalJSON") (source_fields mt c) with
            | Some (ms, ne) => let b := if ne then x7b :: join_with comma ms ++ [x7d] else [] in
                               Some (term, b, match b with [] => false | _ => true end)
            | None => None
            end
        | None => Some (term, [], false)
        | _ => None
        end
      else if bytes_eqb writer (B "JSONWriteTimeProp") then
        (* t.UTC().Year() outside 0..9999: nothing is written and the writer reports false *)
        match v with
        | Some (FTime t) => if time_writable t then Some (term, w_time t, true) else Some (term, [], false)
        | _ => None
        end
      else if bytes_eqb writer (B "JSONWriteDurationProp") then
        match v with
        | Some (FDur d) => match fmt_xsd_duration d with Some b => Some (term, dquote :: b ++ [dquote], true) | None => None end
        | _ => None
        end
      else if bytes_eqb writer (B "JSONWriteIntProp") then
        Some (term, fmt_int (num_of v), true)
      else if bytes_eqb writer (B "JSONWriteFloatProp") then
        Some (term, fmt_float (num_of v), true)
      else if bytes_eqb writer (B "JSONWriteBoolProp") then
        Some (term, match v with Some (FBool true) => B "true" | _ => B "false" end, true)
      else if bytes_eqb writer (B "JSONWriteStringProp") then
        match v with Some (FStr s) => Some (term, w_quoted_always s, true) | None => Some (term, w_quoted_always [], true) | _ => None end
      else if bytes_eqb writer (B "JSONWriteIRIProp") then
        match v with
        | Some (FStr ((_ :: _) as s)) => Some (term, w_quoted_always s, true)
        | Some (FStr []) | None => Some (term, [], false)
        | _ => None
        end
      else None.

    Fixpoint enc_stmts (stmts : list wstmt) (fs : list (fid * fval)) (st : list bytes * bool) : option (list bytes * bool) :=
      match stmts with
      | [] => Some st
      | s :: rest =>
          let '(ms, ne) := st in
          match s with
          | WProp term writer path via guards acc _ =>
              let v := path_get path fs in
              (* guards on the fields first: the writer only runs when they hold *)
              match eval_guards fs [x30] (filter (fun g => match g with GValNonEmpty => false | _ => true end) guards) with
              | None => None
              | Some false => enc_stmts rest fs st
              | Some true =>
                  match write_value writer via term v with
                  | None => None
                  | Some (term', b, r) =>
                      match eval_guards fs b guards with
                      | None => None
                      | Some false => enc_stmts rest fs st
                      | Some true =>
                          match apply_acc acc r ne with
                          | None => None
                          | Some ne' => enc_stmts rest fs (match b with [] => ms | _ => ms ++ [member term' b] end, ne')
                          end
                      end
                  end
              end
          | WDelegate _ fn acc _ =>
              match fn with
              | [] => enc_stmts rest fs st                      (* a delegation closure that writes nothing *)
              | _ =>
                  match run_table fn fs with
                  | None => None
                  | Some (ms', r) =>
                      match apply_acc acc r ne with
                      | None => None
                      | Some ne' => enc_stmts rest fs (ms ++ ms', ne')
                      end
                  end
              end
          | WUnrecognised _ _ => None
          end
      end.
  End Stmts.

  (* tables call tables (delegation, leaf structs) to a bounded depth *)
  Fixpoint run_table (depth : nat) (enc_item : item -> option bytes) (name : bytes) (fs : list (fid * fval))
    : option (list bytes * bool) :=
    match depth with
    | O => None
    | S d =>
        match jw_table name with
        | None => None
        | Some (init, stmts) => enc_stmts enc_item (run_table d enc_item) stmts fs ([], init)
        end
    end.

  Definition marshal_table (k : kind) : bytes := kind_go_name k ++ B "_MarshalJSON".

  Fixpoint enc_item (fuel : nat) (i : item) : option bytes :=
    match fuel with
    | O => None
    | S f =>
        match i with
        | INil | ITNil _ => Some []
        | IIri _ s => if is_nil i then Some [] else Some (w_quoted s)
        | IObj _ k fs =>
            match run_table 6 (enc_item f) (marshal_table k) fs with
            | None => None
            | Some (ms, ne) => Some (if ne then x7b :: join_with comma ms ++ [x7d] else [])
            end
        | IItems _ None => Some []
        | IItems _ (Some []) => Some []
        | IItems _ (Some [x]) => enc_item f x                       (* compact *)
        | IItems _ (Some l) =>
            (fix go (l : list item) (acc : list bytes) : option bytes :=
               match l with
               | [] => Some (x5b :: join_with comma (rev acc) ++ [x5d])
               | x :: r => match enc_item f x with
                           | Some [] => go r acc
                           | Some b => go r (b :: acc)
                           | None => None
                           end
               end) l []
        | IIris false None => Some []                                (* IsNil: the nil IRI list is skipped in every item position *)
        | IIris _ None | IIris _ (Some []) => Some (B "[]")
        | IIris _ (Some l) => Some (x5b :: join_with comma (map w_quoted_always l) ++ [x5d])
        end
    end.

  Definition marshal_json (i : item) : option bytes := enc_item (S (item_size i)) i.

  (* MarshalJSON called on the value itself: no IsNil test stands in front of the method, so the nil IRI "-" is written as a
     string and the nil IRI list as the empty array; in an item position (enc_item) both are skipped *)
  Definition marshal_root (i : item) : option bytes :=
    match i with
    | IIri _ s => Some (w_quoted s)
    | IIris false None => Some (B "[]")
    | _ => marshal_json i
    end.
End Enc.
