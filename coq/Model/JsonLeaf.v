(* Byte-level leaf writers of the JSON encoder: escapers, numbers, instants, durations. *)
From AP.Model Require Import Prelude Bytes Vocab Json.
Open Scope Z_scope.

Definition bslash : byte := x5c.

(* escapeQuote of the pinned tree: index i walks the growing buffer raw, but the look-behind reads the
   ORIGINAL string at i-1; the first byte is never escaped; reading past the end panics *)
Fixpoint escape_quote_pinned_go (fuel : nat) (orig raw_rev : bytes) (rest : bytes) (i : nat) : outcome bytes :=
  match fuel with
  | O => OutOfFuel
  | S fuel' =>
      match rest with
      | [] => Ok (rev raw_rev)
      | c :: r =>
          if Byte.eqb c dquote && negb (Nat.eqb i 0) then
            match nth_error orig (i - 1) with
            | None => Panic IndexOutOfRange
            | Some p =>
                if negb (Byte.eqb p bslash)
                then escape_quote_pinned_go fuel' orig (c :: bslash :: raw_rev) r (i + 2)
                else escape_quote_pinned_go fuel' orig (c :: raw_rev) r (i + 1)
            end
          else escape_quote_pinned_go fuel' orig (c :: raw_rev) r (i + 1)
      end
  end.
Definition escape_quote_pinned (s : bytes) : outcome bytes :=
  escape_quote_pinned_go (S (length s)) s [] s 0.

(* fmt `"%s"` : no escaping at all (pinned JSONWriteStringProp, IRI.MarshalJSON) *)
Definition w_raw_quoted (s : bytes) : bytes := dquote :: s ++ [dquote].

(* ---- stringBytes (copied from encoding/json): the complete JSON string escaper ---- *)
Definition hexdigit (n : N) : byte :=
  byte_of_N_total (if (n <? 10)%N then 48 + n else 87 + n)%N.

Definition is_cont (b : byte) : bool := let n := byteN b in ((128 <=? n) && (n <=? 191))%N.

(* utf8.DecodeRune on the head of s: Some size for a valid encoding, None for RuneError/size 1 *)
Definition utf8_size (s : bytes) : option nat :=
  match s with
  | [] => None
  | b0 :: r =>
      let n0 := byteN b0 in
      if (n0 <? 128)%N then Some 1%nat
      else if ((194 <=? n0) && (n0 <=? 223))%N then
        match r with b1 :: _ => if is_cont b1 then Some 2%nat else None | _ => None end
      else if ((224 <=? n0) && (n0 <=? 239))%N then
        match r with
        | b1 :: b2 :: _ =>
            let n1 := byteN b1 in
            let lo := if (n0 =? 224)%N then 160%N else 128%N in
            let hi := if (n0 =? 237)%N then 159%N else 191%N in
            if ((lo <=? n1) && (n1 <=? hi))%N && is_cont b2 then Some 3%nat else None
        | _ => None
        end
      else if ((240 <=? n0) && (n0 <=? 244))%N then
        match r with
        | b1 :: b2 :: b3 :: _ =>
            let n1 := byteN b1 in
            let lo := if (n0 =? 240)%N then 144%N else 128%N in
            let hi := if (n0 =? 244)%N then 143%N else 191%N in
            if ((lo <=? n1) && (n1 <=? hi))%N && is_cont b2 && is_cont b3 then Some 4%nat else None
        | _ => None
        end
      else None
  end.

Definition json_safe (html : bool) (b : byte) : bool :=
  let n := byteN b in
  (32 <=? n)%N && negb (Byte.eqb b dquote) && negb (Byte.eqb b bslash) &&
  negb (html && (Byte.eqb b x3c || Byte.eqb b x3e || Byte.eqb b x26)).

Fixpoint string_bytes_go (fuel : nat) (html : bool) (s : bytes) : bytes :=
  match fuel with
  | O => []
  | S fuel' =>
      match s with
      | [] => []
      | b :: r =>
          let n := byteN b in
          if (n <? 128)%N then
            if json_safe html b then b :: string_bytes_go fuel' html r
            else
              (bslash ::
                 (if Byte.eqb b bslash || Byte.eqb b dquote then [b]
                  else if Byte.eqb b x0a then B "n"
                  else if Byte.eqb b x0d then B "r"
                  else if Byte.eqb b x09 then B "t"
                  else B "u00" ++ [hexdigit (N.shiftr n 4); hexdigit (N.land n 15)]))
              ++ string_bytes_go fuel' html r
          else
            match utf8_size s with
            | None => B "\ufffd" ++ string_bytes_go fuel' html r
            | Some sz =>
                if bytes_eqb (firstn 3 s) [xe2; x80; xa8] then B "\u2028" ++ string_bytes_go fuel' html (skipn 3 s)
                else if bytes_eqb (firstn 3 s) [xe2; x80; xa9] then B "\u2029" ++ string_bytes_go fuel' html (skipn 3 s)
                else firstn sz s ++ string_bytes_go fuel' html (skipn sz s)
            end
      end
  end.
Definition string_bytes (html : bool) (s : bytes) : bytes :=
  dquote :: string_bytes_go (S (length s)) html s ++ [dquote].

(* what a reader gets back from the text stringBytes writes for s: every byte that does not start a
   well-formed UTF-8 sequence (utf8.DecodeRune reports RuneError, size 1) has become U+FFFD.
   Also tagAsRead (natural_language_values.go): NaturalLanguageValues.MarshalJSON compares language tags
   in this form. *)
Fixpoint sanitize_go (fuel : nat) (s : bytes) : bytes :=
  match fuel with
  | O => []
  | S f =>
      match s with
      | [] => []
      | b :: r =>
          if (byteN b <? 128)%N then b :: sanitize_go f r
          else match utf8_size s with
               | None => [xef; xbf; xbd] ++ sanitize_go f r
               | Some sz => firstn sz s ++ sanitize_go f (skipn sz s)
               end
      end
  end.
Definition sanitize (s : bytes) : bytes := sanitize_go (S (length s)) s.


(* escapeQuote as repaired: strings.Split(s, backslash-quote), every part through the complete escaper
   (without its surrounding quotes), parts re-joined with backslash-quote *)
Fixpoint split_bsq (s : bytes) : list bytes :=
  match s with
  | x :: ((y :: r) as t) =>
      if Byte.eqb x bslash && Byte.eqb y dquote then [] :: split_bsq r
      else match split_bsq t with
           | [] => [[x]]
           | p :: ps => (x :: p) :: ps
           end
  | [x] => [[x]]
  | [] => [[]]
  end.
Definition string_bytes_body (html : bool) (s : bytes) : bytes := string_bytes_go (S (length s)) html s.
Definition escape_quote (s : bytes) : bytes :=
  join_with [bslash; dquote] (map (string_bytes_body false) (split_bsq s)).

(* JSONWriteStringValue *)
Definition w_quoted (s : bytes) : bytes :=
  match s with [] => [] | _ => dquote :: escape_quote s ++ [dquote] end.

(* bytes.ReplaceAll(b, [\, c], [d]) and unescape: eight replacements in sequence *)
Fixpoint replace2 (c d : byte) (s : bytes) : bytes :=
  match s with
  | x :: ((y :: r) as t) =>
      if Byte.eqb x bslash && Byte.eqb y c then d :: replace2 c d r else x :: replace2 c d t
  | _ => s
  end.
Definition unescape (s : bytes) : bytes :=
  replace2 bslash bslash
    (replace2 dquote dquote
      (replace2 x76 x0b (replace2 x74 x09 (replace2 x72 x0d (replace2 x6e x0a (replace2 x66 x0c (replace2 x61 x07 s))))))).

(* ---- numbers ---- *)
Fixpoint digits_go (fuel : nat) (n : Z) (acc : bytes) : bytes :=
  match fuel with
  | O => acc
  | S f => let acc' := byte_of_N_total (Z.to_N (48 + n mod 10)) :: acc in
           if n <? 10 then acc' else digits_go f (n / 10) acc'
  end.
Definition digits (n : Z) : bytes := digits_go 40 n [].      (* n >= 0, fewer than 40 digits *)
Definition fmt_int (z : Z) : bytes := if z <? 0 then x2d :: digits (- z) else digits z.

Fixpoint pad_left (w : nat) (s : bytes) : bytes :=
  if Nat.ltb (length s) w then match w with O => s | S w' => x30 :: pad_left w' s end else s.
Definition digits_w (w : nat) (n : Z) : bytes :=
  let d := digits n in repeat x30 (w - length d) ++ d.

(* fmt %f of a float64 that is an exact multiple of 1e-6 (FFloat micro) *)
Definition fmt_float (m : Z) : bytes :=
  let a := Z.abs m in
  (if m <? 0 then [x2d] else []) ++ digits (a / 1000000) ++ [x2e] ++ digits_w 6 (a mod 1000000).

(* ---- instants: t.UTC().Format(time.RFC3339), whole seconds, years 0..9999 ---- *)
Definition civil_from_days (z : Z) : Z * Z * Z :=      (* days since 1970-01-01 -> (y, m, d) *)
  let z := z + 719468 in
  let era := z / 146097 in                 (* floor division: no adjustment for negative z *)
  let doe := z - era * 146097 in
  let yoe := (doe - doe / 1460 + doe / 36524 - doe / 146096) / 365 in
  let y := yoe + era * 400 in
  let doy := doe - (365 * yoe + yoe / 4 - yoe / 100) in
  let mp := (5 * doy + 2) / 153 in
  let d := doy - (153 * mp + 2) / 5 + 1 in
  let m := if mp <? 10 then mp + 3 else mp - 9 in
  ((if m <=? 2 then y + 1 else y), m, d).

Definition fmt_rfc3339_utc (secs : Z) : bytes :=
  let days := secs / 86400 in
  let rem := secs mod 86400 in
  let '(y, m, d) := civil_from_days days in
  digits_w 4 y ++ [x2d] ++ digits_w 2 m ++ [x2d] ++ digits_w 2 d ++ [x54] ++
  digits_w 2 (rem / 3600) ++ [x3a] ++ digits_w 2 ((rem mod 3600) / 60) ++ [x3a] ++ digits_w 2 (rem mod 60) ++ [x5a].

Definition w_time (t : vtime) : bytes := dquote :: fmt_rfc3339_utc (vsecs t) ++ [dquote].

(* JSONWriteTimeProp (since fix 2fbd1a5) writes the property only when t.UTC().Year() lies in 0..9999: RFC 3339 has
   four-digit years, and time.Format would print "10000-..." or "-0001-..." *)
Definition utc_year (secs : Z) : Z := let '(y, _, _) := civil_from_days (secs / 86400) in y.
Definition time_writable (t : vtime) : bool := let y := utc_year (vsecs t) in (0 <=? y) && (y <=? 9999).

(* ---- float64 arithmetic, exactly, on integers: a positive finite double is (m, e), standing for m * 2^e with
   2^52 <= m < 2^53 (no subnormals, no overflow: the values below lie between 1e-9 and 60) ---- *)
(* numerator and denominator of p / (q * 2^e) *)
Definition scale_div (p q e : Z) : Z * Z := if 0 <=? e then (p, q * 2 ^ e) else (p * 2 ^ (- e), q).
(* the binary floating-point number with a mantissa of [prec] bits nearest to p / q, ties to even (IEEE 754
   round-to-nearest-even: what the hardware division and addition deliver, and what strconv.ParseFloat returns for a
   decimal); p, q > 0; (m, e) stands for m * 2^e with 2^(prec-1) <= m < 2^prec *)
Definition rn_float (prec : Z) (p q : Z) : Z * Z :=
  let e0 := Z.log2 p - Z.log2 q - (prec - 1) in
  let '(n0, d0) := scale_div p q e0 in
  let e := if n0 / d0 <? 2 ^ (prec - 1) then e0 - 1 else e0 in
  let '(n, d) := scale_div p q e in
  let m := n / d in let r := n mod d in
  let m' := if (d <? 2 * r) || ((2 * r =? d) && Z.odd m) then m + 1 else m in
  if m' =? 2 ^ prec then (2 ^ (prec - 1), e + 1) else (m', e).
Definition rn64 : Z -> Z -> Z * Z := rn_float 53.      (* float64 *)
Definition rn32 : Z -> Z -> Z * Z := rn_float 24.      (* float32 *)

(* time.Duration.Seconds: sec := d / Second; nsec := d % Second; return float64(sec) + float64(nsec)/1e9
   - one rounding in the division, a second one in the addition; 0 < r < 2^53 nanoseconds *)
Definition go_seconds (r : Z) : Z * Z :=
  let sec := r / 1000000000 in let nsec := r mod 1000000000 in
  if nsec =? 0 then rn64 sec 1
  else let '(mg, eg) := rn64 nsec 1000000000 in          (* eg < 0 *)
       rn64 (sec * 2 ^ (- eg) + mg) (2 ^ (- eg)).

(* strconv's shortest formatting (ftoaryu.go, ryuFtoaShortest): of all decimals t * 10^q that read back as the double
   (that lie between the midpoints to its neighbours, the midpoints included when the mantissa is even) the ones with the
   largest q, and of those the one nearest to the double (ties to the even t), kept inside the interval.
   [low / D, up / D] is the interval, mid / D the double. *)
Definition shortest_at (low mid up D : Z) (closed : bool) (q : Z) : option Z :=
  let '(ln, mn, un, dd) :=
    if 0 <=? q then (low, mid, up, D * 10 ^ q) else (low * 10 ^ (- q), mid * 10 ^ (- q), up * 10 ^ (- q), D) in
  let tmin := if (ln mod dd =? 0) && closed then ln / dd else ln / dd + 1 in
  let tmax := if (un mod dd =? 0) && negb closed then un / dd - 1 else un / dd in
  if (tmin <=? tmax) && (0 <? tmax) then
    let c := mn / dd in let cr := mn mod dd in
    let t := if (dd <? 2 * cr) || ((2 * cr =? dd) && Z.odd c) then c + 1 else c in
    Some (Z.min (Z.max t tmin) tmax)
  else None.
Fixpoint shortest_go (fuel : nat) (low mid up D : Z) (closed : bool) (q : Z) : Z * Z :=
  match fuel with
  | O => (0, 0)
  | S f => match shortest_at low mid up D closed q with
           | Some t => (t, q)
           | None => shortest_go f low mid up D closed (q - 1)
           end
  end.
(* for doubles below 1000 (q starts at 2) and not below 1e-20 (fuel) *)
Definition shortest64 (m e : Z) : Z * Z :=
  let low := 4 * m - (if m =? 2 ^ 52 then 1 else 2) in
  let '(l, c, u, D) :=
    if 0 <=? e - 2 then (low * 2 ^ (e - 2), 4 * m * 2 ^ (e - 2), (4 * m + 2) * 2 ^ (e - 2), 1)
    else (low, 4 * m, 4 * m + 2, 2 ^ (2 - e)) in
  shortest_go 40 l c u D (Z.even m) 2.

(* strconv's %f of the shortest digits: no exponent, as many fraction digits as the digits need *)
Definition fmt_f_shortest (t q : Z) : bytes :=
  if 0 <=? q then digits t ++ repeat x30 (Z.to_nat q)
  else let p := 10 ^ (- q) in digits (t / p) ++ [x2e] ++ digits_w (Z.to_nat (- q)) (t mod p).

(* strconv.AppendFloat(v, time.Duration(r).Seconds(), 'f', -1, 64) *)
Definition fmt_go_seconds (r : Z) : bytes :=
  let '(m, e) := go_seconds r in let '(t, q) := shortest64 m e in fmt_f_shortest t q.

(* ---- xsdDuration (encoding_json.go, since fix 5a7198d; magnitude unsigned since the fix "the most negative
   duration was written as -P"): day and time designators only; the seconds that remain below a minute are printed by
   strconv.AppendFloat of Duration.Seconds().  Defined for EVERY duration (always Some; the option is kept for the
   callers); zero - which the callers never write - is "PT0S" as in the code ---- *)
Definition ns_day : Z := 86400000000000.
Definition ns_hour : Z := 3600000000000.
Definition ns_min : Z := 60000000000.
Definition fmt_xsd_duration (nanos : Z) : option bytes :=
  Some
   (if nanos =? 0 then B "PT0S" else
    let a := Z.abs nanos in
    let dd := a / ns_day in let r := a mod ns_day in
    let h := r / ns_hour in let r1 := r mod ns_hour in
    let mi := r1 / ns_min in let r2 := r1 mod ns_min in
    (if nanos <? 0 then [x2d] else []) ++ B "P" ++
    (if 0 <? dd then digits dd ++ B "D" else []) ++
    (if 0 <? r then B "T" ++
       (if 0 <? h then digits h ++ B "H" else []) ++
       (if 0 <? mi then digits mi ++ B "M" else []) ++
       (if 0 <? r2 then fmt_go_seconds r2 ++ B "S" else [])
     else [])).

(* before that fix: `d = -d` on the int64 - the most negative duration stays negative, no part is positive, and only
   the sign and the P are written (Go's / and % truncate; the parts are only computed for a positive remainder) *)
Definition fmt_xsd_duration_negate_pinned (nanos : Z) : option bytes :=
  if nanos =? - 2 ^ 63 then Some (B "-P") else fmt_xsd_duration nanos.

(* the pinned tree used xsd.Marshal of go-xsd-duration: months of 30 days and years of 356 days, but HOW MANY fit
   decided with divisors of 28 and 336 days (float arithmetic on whole numbers, exact here) *)
Definition fmt_xsd_duration_pinned (nanos : Z) : option bytes :=
  let a := Z.abs nanos in
  if (a mod 1000000000 =? 0) && negb (nanos =? 0) then
    let day := 86400 in
    let s := a / 1000000000 in
    (* Years(d) = d/Yearish + (d mod Yearish)/(336 days), truncated; the subtraction may go negative *)
    let y := s / (356 * day) + (if (336 * day) <=? s mod (356 * day) then 1 else 0) in
    let s1 := s - y * 356 * day in
    let m := if s1 <? 0 then 0 else s1 / (30 * day) + (if (28 * day) <=? s1 mod (30 * day) then 1 else 0) in
    let s2 := s1 - m * 30 * day in
    let dd := if s2 <? 0 then 0 else s2 / day in
    let s3 := if s2 <? 0 then 0 else s2 - dd * day in
    let h := s3 / 3600 in let mi := (s3 mod 3600) / 60 in let se := s3 mod 60 in
    Some ((if nanos <? 0 then [x2d] else []) ++ B "P" ++
          (if 0 <? y then digits y ++ B "Y" else []) ++
          (if 0 <? m then digits m ++ B "M" else []) ++
          (if 0 <? dd then digits dd ++ B "D" else []) ++
          (if 0 <? s3 then B "T" ++
             (if 0 <? h then digits h ++ B "H" else []) ++
             (if 0 <? mi then digits mi ++ B "M" else []) ++
             (if 0 <? se then digits se ++ B "S" else [])
           else []))
  else None.

(* a quoted string that is written even when empty (fmt `"%s"` after escaping) *)
Definition w_quoted_always (s : bytes) : bytes := dquote :: escape_quote s ++ [dquote].
