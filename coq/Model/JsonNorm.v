(* C01: the documented normal form of a value after a JSON round trip, and the well-formedness predicate of the
   domain for which the round-trip theorem is proved (Proofs/C01RoundP.v).  Definitions only.

   norm_item:   value forms become pointer forms (decoders allocate); the fields of a struct are listed in struct
                order; instants are UTC whole seconds; a lone language-tagged string loses its tag (also as the
                content of a source); a one-element list in a single-item property is that element; the members of
                an endpoints value are listed in struct order.  Nothing else changes: every string, number, IRI,
                list member and nested object is kept.
   wf_item:     a boolean predicate.  IRIs are absolute URLs of the wide grammar of Model/UrlU.v (iri_ok: valid UTF-8,
                no quote / backslash / control byte, a scheme and a host; the plain grammar of Model/Url.v is inside:
                iri_ok_plain); objects carry only fields their type has, each with a value of the field's Go type
                that is set (non-zero), a type name that selects their struct, and are not empty; lists are non-empty,
                hold IRIs and objects, pairwise distinct under ItemsEqual; texts are non-empty valid UTF-8; numbers,
                instants and durations are in the ranges of the leaf theorems; a source has a media type or a content
                (or both), an endpoints value a non-empty set of the six names with well-formed items, a public key
                an id, an owner or a pem.
                Not in the class (the gap of the theorem, named in Props/C01.v): nil-like entries (typed nil
                pointers, empty IRIs, empty lists, an empty Endpoints, a content that writes nothing), IRIs lists (the Go type IRIs) and lists nested directly in lists. *)
From AP.Model Require Import Prelude Bytes Vocab Pred Url UrlU Utf8 IriEq Nlv Json Text Equal Coll Dispatch Layout JsonTables JsonLeaf JsonCheck JsonDec JsonRoundCheck.
Local Open Scope Z_scope.

Section Norm.
  Variable layout_of : kind -> list fdecl.

  Definition norm_nlv (l : nlv) : nlv :=
    match l with
    | Some [(_, v)] => Some [(NilRef, v)]
    | _ => l
    end.

  Definition norm_time (t : vtime) : vtime := {| vsecs := vsecs t; vnanos := 0; voff := 0 |}.

  Fixpoint norm_item (i : item) : item :=
    match i with
    | IIri _ s => IIri false s
    | IObj _ k fs =>
        IObj true k (canon_fields layout_of k
                       ((fix go (fs : list (fid * fval)) : list (fid * fval) :=
                           match fs with [] => [] | (f, v) :: r => (f, norm_fval v) :: go r end) fs))
    | IItems _ (Some [x]) => norm_item x
    | IItems _ (Some l) =>
        IItems false (Some ((fix go (l : list item) : list item :=
                               match l with [] => [] | x :: r => norm_item x :: go r end) l))
    | _ => i
    end
  with norm_fval (v : fval) : fval :=
    match v with
    | FItem i => FItem (norm_item i)
    | FItems (Some l) =>
        FItems (Some ((fix go (l : list item) : list item :=
                         match l with [] => [] | x :: r => norm_item x :: go r end) l))
    | FNlv l => FNlv (norm_nlv l)
    | FTime t => FTime (norm_time t)
    | FSource mt c => FSource mt (norm_nlv c)
    | FEndpoints (Some e) =>
        FEndpoints (Some (endpoints_in_struct_order
                            ((fix go (e : list (fid * item)) : list (fid * item) :=
                                match e with [] => [] | (f, i) :: r => (f, norm_item i) :: go r end) e)))
    | _ => v
    end.

  Definition norm_fields (fs : list (fid * fval)) : list (fid * fval) := map (fun p => (fst p, norm_fval (snd p))) fs.
End Norm.

(* ---------------------------------------------------------------- the domain *)
(* an IRI: valid UTF-8 without quote, backslash or byte below 0x20, to which net/url gives a scheme and a host
   (the WIDE grammar of Model/UrlU.v: bytes >= 0x80, percent-escapes, spaces, userinfo, IP literals), and not the
   nil IRI.  This is what asIRI needs to hand the text back unchanged; it contains the plain grammar of Model/Url.v
   (iri_ok_plain, Proofs/C01ItemP.iri_ok_of_plain). *)
Definition iri_ok_plain (s : bytes) : bool :=
  match url_classify s with UValid _ => true | _ => false end
  && forallb safe_ascii s && negb (is_nil (IIri false s)).
Definition iri_ok (s : bytes) : bool :=
  utf8_valid s && negb (fj_has_special s)
  && match url_classify_u s with UValid _ => true | _ => false end
  && negb (is_nil (IIri false s)).

(* non-empty, every entry a non-empty valid UTF-8 tag and text, tags pairwise different (of several values under
   one tag the writer keeps the first) *)
Definition text_ok (l : list (bytes * bytes)) : bool :=
  negb (Nat.eqb (length l) 0) && forallb ok_entryb l && nodup_tagsb l.

(* no member is ItemsEqual to an earlier one: ItemCollection.Append keeps them all *)
Fixpoint distinct_from (acc l : list item) : bool :=
  match l with
  | [] => true
  | x :: r => negb (ic_contains acc x) && distinct_from (acc ++ [x]) r
  end.
Definition distinct_items (l : list item) : bool := distinct_from [] l.

(* no backslash immediately followed by a quote (the open finding C02/backslash-quote) *)
Fixpoint no_bsq (s : bytes) : bool :=
  match s with
  | x :: ((y :: _) as t) => negb (Byte.eqb x bslash && Byte.eqb y dquote) && no_bsq t
  | _ => true
  end.
Definition string_ok (s : bytes) : bool := negb (Nat.eqb (length s) 0) && utf8_valid s && no_bsq s.

Definition time_ok (t : vtime) : bool :=
  (-62167219200 <=? vsecs t) && (vsecs t <=? 253402300799) && negb (vsecs t =? zero_unix).
Definition dur_ok (d : Z) : bool :=      (* whole seconds, not zero, in the int64 range *)
  (Z.abs d mod 1000000000 =? 0) && negb (d =? 0) && (Z.abs d <? 2 ^ 63).

Section Wf.
  Variable layout_of : kind -> list fdecl.
  Variable registry : bytes -> option kind.
  Variable load_switch : bytes -> option kind.
  Variable activity_types actor_types link_types : list bytes.

  Definition decl_of (k : kind) (f : fid) : option fdecl := find (fun d => fid_beq (fd_fid d) f) (layout_of k).

  Definition is_elem (i : item) : bool := match i with IIri _ _ | IObj _ _ _ => true | _ => false end.

  Fixpoint nodup_fids (fs : list (fid * fval)) : bool :=
    match fs with
    | [] => true
    | (f, _) :: r => negb (existsb (fun p => fid_beq (fst p) f) r) && nodup_fids r
    end.

  Definition type_selects (k : kind) (fs : list (fid * fval)) : bool :=
    let ty := get_str F_Type fs in
    match registry ty, load_switch ty with
    | Some a, Some b => kind_beq a k && kind_beq b k
    | _, _ => false
    end.

  Fixpoint wf_item (i : item) : bool :=
    match i with
    | IIri _ s => iri_ok s
    | IObj p k fs =>
        negb (Nat.eqb (length fs) 0) && nodup_fids fs && type_selects k fs
        && not_empty activity_types actor_types link_types (norm_item layout_of (IObj p k fs))
        && (fix go (l : list (fid * fval)) : bool :=
              match l with
              | [] => true
              | (f, v) :: r =>
                  match decl_of k f with
                  | Some d => wf_fval (fd_type d) v
                  | None => false
                  end && go r
              end) fs
    | IItems _ (Some (x :: r)) =>
        (fix go (l : list item) : bool :=
           match l with [] => true | y :: r => is_elem y && wf_item y && go r end) (x :: r)
        && distinct_items (map (norm_item layout_of) (x :: r))
    | _ => false
    end
  with wf_fval (ty : gotype) (v : fval) : bool :=
    match ty, v with
    | TItem, FItem i => wf_item i
    | TItems, FItems (Some (x :: r)) =>
        (fix go (l : list item) : bool :=
           match l with [] => true | y :: r => is_elem y && wf_item y && go r end) (x :: r)
        && distinct_items (map (norm_item layout_of) (x :: r))
    | TNlv, FNlv (Some l) => text_ok l
    | TString, Vocab.FStr s => string_ok s
    | TTime, FTime t => time_ok t
    | TDur, FDur d => dur_ok d
    | TUint, FUint n => (0 <? n)%N && (n <? 10 ^ 18)%N
    | TInt64, FInt z => negb (z =? 0) && (- 10 ^ 18 <? z) && (z <? 10 ^ 18)
    | TBool, FBool b => b
    | TFloat, FFloat m => negb (m =? 0) && (Z.abs m <? 10 ^ 46)
    (* the three leaf structs: every part either unset or a well-formed string / text / item, the struct not empty *)
    | TSource, FSource mt c =>
        match mt with [] => true | _ => string_ok mt end
        && match c with None => true | Some l => text_ok l end
        && negb (fval_is_zero v)
    | TEndpoints, FEndpoints (Some ((_ :: _) as e)) =>
        nodup_fid_list (map fst e) && forallb (fun p => existsb (fid_beq (fst p)) endpoints_struct_order) e
        && (fix go (l : list (fid * item)) : bool :=
              match l with [] => true | (_, y) :: r => wf_item y && go r end) e
    | TPubKey, FPubKey id owner pem =>
        match id with [] => true | _ => string_ok id end
        && match owner with [] => true | _ => string_ok owner end
        && match pem with [] => true | _ => string_ok pem end
        && negb (fval_is_zero v)      (* Actor.MarshalJSON writes the key when id, owner or pem is set *)
    | _, _ => false
    end.

  (* a bound on the decoder fuel an item needs: one per level of objects (members of a list are read at the level of
     the list); a leaf struct counts as a level too (it is one in the document, though it costs the decoder no fuel) *)
  Fixpoint ddepth (i : item) : nat :=
    match i with
    | IObj _ _ fs =>
        S ((fix go (l : list (fid * fval)) : nat :=
              match l with [] => O | (_, v) :: r => Nat.max (fdepth_v v) (go r) end) fs)
    | IItems _ (Some l) =>
        (fix go (l : list item) : nat := match l with [] => O | x :: r => Nat.max (ddepth x) (go r) end) l
    | _ => 1%nat
    end
  with fdepth_v (v : fval) : nat :=
    match v with
    | FItem i => ddepth i
    | FItems (Some l) =>
        (fix go (l : list item) : nat := match l with [] => O | x :: r => Nat.max (ddepth x) (go r) end) l
    | FEndpoints (Some e) =>       (* a leaf struct is one more level of the document *)
        S ((fix go (l : list (fid * item)) : nat := match l with [] => O | (_, x) :: r => Nat.max (ddepth x) (go r) end) e)
    | FSource _ _ | FPubKey _ _ _ => 1%nat
    | _ => O
    end.
End Wf.
