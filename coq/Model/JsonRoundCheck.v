(* C01: the decidable conditions on the generated JSON tables under which the round-trip theorem
   (Proofs/C01RoundP.v) holds.  They are evaluated on Gen/JsonW.v, Gen/JsonR.v and Gen/Layout.v by vm_compute in
   Props/C01.v on every run; the theorem itself quantifies over all tables that satisfy them.

   pair_ok ty f e r   the write entry e and the read entry r of field f (Go type ty) fit together: e writes the
                      path [f] under the term r reads, the term is made of ASCII letters, writer and getter are
                      those of the type, every write guard holds for every set value of the type (guard_fits),
                      the read conversion is that of the type (uint; href/rel read as an item keep its link);
   acc_ok             the notEmpty flag of a MarshalJSON function is set once a member was written: an
                      assignment (instead of `|| notEmpty`) is only allowed as the first statement or for a
                      statement that always writes when it runs;
   kind_ok k          for struct kind k: every read entry has exactly one write entry with pair_ok, every field of
                      the layout is read exactly once, all member names the write entries can produce (term, and
                      term+"Map" for text) are pairwise different, the type field is read as a string under "type",
                      and acc_ok holds for the tables reachable from k's MarshalJSON.
   Definitions only. *)
From AP.Model Require Import Prelude Bytes Vocab Layout JsonTables Dispatch JsonEnc JsonCheck.

Definition key_plain (k : bytes) : bool := forallb is_alpha k.

Definition nonval (g : wguard) : bool := match g with GValNonEmpty => false | _ => true end.


(* ---------------------------------------------------------------- a (write, read) pair *)
Definition guard_fits (ty : gotype) (f : fid) (g : wguard) : bool :=
  match g with
  | GNeNil f' => fid_beq f f' && match ty with TItem | TItems | TNlv => true | _ => false end
  | GLenGt0 f' => fid_beq f f' && match ty with TItems | TNlv | TString => true | _ => false end
  | GNotZeroTime f' => fid_beq f f' && match ty with TTime => true | _ => false end
  | GNe0 f' => fid_beq f f' && match ty with TDur | TUint | TInt64 | TFloat => true | _ => false end
  | GGt0 f' => fid_beq f f' && match ty with TUint => true | _ => false end
  | GValNonEmpty => true
  | GOther _ => false
  end.

Definition is_nlv_writer (e : wflat) : bool := bytes_eqb (wf_writer e) (B "JSONWriteNaturalLanguageProp").
Definition keys_of (e : wflat) : list bytes :=
  if is_nlv_writer e then [wf_term e; wf_term e ++ B "Map"] else [wf_term e].

Definition link_guard_name : bytes := B "x != nil;GetLink".

Definition conv_ok (ty : gotype) (r : rflat) : bool :=
  match ty with
  | TUint => bytes_eqb (rf_conv r) (B "uint")
  | TInt64 => negb (bytes_eqb (rf_conv r) (B "uint"))
  | TString => if bytes_eqb (rf_getter r) (B "JSONGetURIItem") then bytes_eqb (rf_guard r) link_guard_name else true
  | TItem => negb (bytes_eqb (rf_guard r) link_guard_name)
  | _ => true
  end.

Definition pair_ok_core (ty : gotype) (f : fid) (e : wflat) (r : rflat) : bool :=
  match wf_path e with [f'] => fid_beq f f' | _ => false end
  && bytes_eqb (wf_term e) (rf_term r) && key_plain (wf_term e)
  && writer_fits ty e && getter_fits ty r
  && match ty with
     | TSource | TEndpoints | TPubKey => true        (* values of these types are outside the proved class: only *)
     | _ => forallb (guard_fits ty f) (wf_guards e)  (* the unset case is used, for which the guards do not matter *)
     end
  && conv_ok ty r
  && match ty with TOther _ => false | _ => true end.

(* the write entry is defined (inside the encoder model) on every value of the type, set or not: its guards are of a
   kind the model evaluates, an unset instant or duration never reaches its writer (which has no output for it), and
   a string written through JSONWriteProp goes through a marshaller the model knows *)
Definition guard_evaluable (g : wguard) : bool :=
  match g with
  | GOther src => bytes_eqb src (pubkey_guard_src)
  | _ => true
  end.
Definition known_string_vias : list bytes :=
  [B "MarshalJSON:ID"; B "MarshalJSON:IRI"; B "MarshalJSON:ActivityVocabularyType"; B "MarshalJSON:MimeType"; B "json.Marshal"].
Definition write_total (ty : gotype) (e : wflat) : bool :=
  forallb guard_evaluable (wf_guards e)
  && match ty with TTime | TDur => existsb nonval (wf_guards e) | _ => true end
  && match ty with
     | TString => negb (bytes_eqb (wf_writer e) (B "JSONWriteProp")) || existsb (bytes_eqb (wf_via e)) known_string_vias
     | _ => true
     end.

Definition pair_ok (ty : gotype) (f : fid) (e : wflat) (r : rflat) : bool := pair_ok_core ty f e r && write_total ty e.

(* GetAPSource reads members of the member it is given the name of, with getters that yield nothing when that
   member is absent *)
Definition source_reads_ok (jr_tables : list (bytes * list rstmt)) (term : bytes) : bool :=
  match jr_table jr_tables (B "GetAPSource") with
  | Some stmts =>
      forallb (fun s => match s with
                        | RProp _ tm g _ _ _ =>
                            match cut_byte x2e tm with (a, Some _) => bytes_eqb a term | _ => false end
                            && (bytes_eqb g (B "JSONGetNaturalLanguageField")
                                || existsb (bytes_eqb g) [B "JSONGetID"; B "JSONGetType"; B "JSONGetMimeType"; B "JSONGetString"; B "JSONGetIRI";
                                                          B "JSONGetLangRefField"; B "val.GetStringBytes"; B "val.Get.GetStringBytes"])
                        | _ => false
                        end) stmts
  | None => false
  end.


(* ---------------------------------------------------------------- the notEmpty flag *)
Section Acc.
  Variable jw_tables : list (bytes * bool * list wstmt).
  (* a property statement that, when it runs, always writes its member (so that a plain assignment of its result
     to notEmpty cannot reset the flag).  JSONWriteTimeProp is not among them: it leaves out an instant whose UTC
     year is outside 0000-9999 and reports false *)
  Definition always_writes (writer : bytes) (path : list fid) (guards : list wguard) : bool :=
    existsb (fun g => match g with GValNonEmpty => true | _ => false end) guards
    || existsb (bytes_eqb writer) [B "JSONWriteDurationProp"; B "JSONWriteIntProp"; B "JSONWriteFloatProp";
                                   B "JSONWriteBoolProp"; B "JSONWriteStringProp"]
    || (bytes_eqb writer (B "JSONWriteItemCollectionProp")
        && existsb (fun g => match g, path with GLenGt0 f, [f'] => fid_beq f f' | _, _ => false end) guards).

  Fixpoint acc_ok_stmts (first : bool) (l : list wstmt) : bool :=
    match l with
    | [] => true
    | WProp _ w p _ g acc _ :: r =>
        match acc with
        | AccOr => true
        | AccSet => first || always_writes w p g
        | _ => false
        end && acc_ok_stmts false r
    | WDelegate _ fn acc _ :: r =>
        match fn with
        | [] => true
        | _ => match acc with AccOr => true | AccSet => first | _ => false end
        end && acc_ok_stmts false r
    | WUnrecognised _ _ :: _ => false
    end.

  (* over the tables a MarshalJSON function reaches by delegation *)
  Fixpoint acc_ok (depth : nat) (name : bytes) : bool :=
    match depth with
    | O => false
    | S d =>
        match jw_table jw_tables name with
        | None => false
        | Some (_, stmts) =>
            acc_ok_stmts true stmts &&
            forallb (fun s => match s with WDelegate _ ((_ :: _) as fn) _ _ => acc_ok d fn | _ => true end) stmts
        end
    end.

End Acc.

(* ---------------------------------------------------------------- a struct kind *)
Definition str_getters : list bytes :=
  [B "JSONGetID"; B "JSONGetType"; B "JSONGetMimeType"; B "JSONGetString"; B "JSONGetIRI"; B "JSONGetLangRefField"].

Fixpoint nodup_bytes (l : list bytes) : bool :=
  match l with [] => true | x :: r => negb (existsb (bytes_eqb x) r) && nodup_bytes r end.
Fixpoint nodup_fid_list (l : list fid) : bool :=
  match l with [] => true | x :: r => negb (existsb (fid_beq x) r) && nodup_fid_list r end.

Section Kind.
  Variable jw_tables : list (bytes * bool * list wstmt).
  Variable jr_tables : list (bytes * list rstmt).
  Variable layout_of : kind -> list fdecl.

  Definition decl_for (k : kind) (f : fid) : option fdecl := find (fun d => fid_beq (fd_fid d) f) (layout_of k).

  Definition read_ok (k : kind) (es : list wflat) (r : rflat) : bool :=
    match decl_for k (rf_fid r) with
    | Some d =>
        bytes_eqb (rf_term r) (fd_term d) &&
        match fd_type d with TSource => source_reads_ok jr_tables (rf_term r) | _ => true end &&
        match filter (entry_for (rf_fid r)) es with
        | [e] => pair_ok (fd_type d) (rf_fid r) e r
        | _ => false
        end
    | None => false
    end.

  Definition type_read_ok (k : kind) (rs : list rflat) : bool :=
    match decl_for k F_Type with
    | Some d =>
        match fd_type d with TString => true | _ => false end && bytes_eqb (fd_term d) (B "type")
        && forallb (fun r => negb (fid_beq (rf_fid r) F_Type) || existsb (bytes_eqb (rf_getter r)) str_getters) rs
    | None => false
    end.

  Definition kind_ok (k : kind) : bool :=
    match entries_of jw_tables k, reads_of jr_tables k with
    | Some es, Some rs =>
        forallb (read_ok k es) rs
        && nodup_fid_list (map rf_fid rs)
        && forallb (fun d => existsb (fun r => fid_beq (rf_fid r) (fd_fid d)) rs) (layout_of k)
        && nodup_bytes (flat_map keys_of es)
        && forallb (fun e => key_plain (wf_term e)) es
        && forallb (fun e => existsb (fun r => entry_for (rf_fid r) e) rs) es     (* no write entry without a reader *)
        && nodup_fid_list (map fd_fid (layout_of k))
        && type_read_ok k rs
        && acc_ok jw_tables 6 (marshal_table k)
    | _, _ => false
    end.

  Definition kinds_ok : bool := forallb kind_ok all_kinds.
End Kind.
