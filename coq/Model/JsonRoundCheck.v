(* C01: the decidable conditions on the generated JSON tables under which the round-trip theorem
   (Proofs/C01RoundP.v) holds.  They are evaluated on Gen/JsonW.v, Gen/JsonR.v and Gen/Layout.v by vm_compute in
   Props/C01.v on every run; the theorem itself quantifies over all tables that satisfy them.

   pair_ok ty f e r   the write entry e and the read entry r of field f (Go type ty) fit together: e writes the
                      path [f] under the term r reads, the term is made of ASCII letters, writer and getter are
                      those of the type, every write guard holds for every set value of the type (guard_fits),
                      the read conversion is that of the type (uint; href/rel read as an item keep its link);
   acc_ok             the notEmpty flag of a MarshalJSON function is set once a member was written: an
                      assignment (instead of `|| notEmpty`) is only allowed as the first statement or for a
                      statement that always writes when it runs;
   kind_ok k          for struct kind k: every read entry has exactly one write entry with pair_ok, every field of
                      the layout is read exactly once, all member names the write entries can produce (term, and
                      term+"Map" for text) are pairwise different, the type field is read as a string under "type",
                      and acc_ok holds for the tables reachable from k's MarshalJSON.
   Definitions only. *)
From AP.Model Require Import Prelude Bytes Vocab Layout JsonTables Dispatch JsonEnc JsonCheck JsonDec.

Definition key_plain (k : bytes) : bool := forallb is_alpha k.

Definition nonval (g : wguard) : bool := match g with GValNonEmpty => false | _ => true end.


(* ---------------------------------------------------------------- a (write, read) pair *)
Definition guard_fits (ty : gotype) (f : fid) (g : wguard) : bool :=
  match g with
  | GNeNil f' => fid_beq f f' && match ty with TItem | TItems | TNlv | TEndpoints => true | _ => false end
  | GLenGt0 f' => fid_beq f f' && match ty with TItems | TNlv | TString => true | _ => false end
  | GNotZeroTime f' => fid_beq f f' && match ty with TTime => true | _ => false end
  | GNe0 f' => fid_beq f f' && match ty with TDur | TUint | TInt64 | TFloat => true | _ => false end
  | GGt0 f' => fid_beq f f' && match ty with TUint => true | _ => false end
  | GValNonEmpty => true
  | GOther src =>       (* the one guard of that kind the encoder model evaluates: id, owner or pem of the actor's key is set *)
      bytes_eqb src pubkey_guard_src && fid_beq f F_PublicKey
      && match ty with TPubKey => true | _ => false end
  end.

Definition is_nlv_writer (e : wflat) : bool := bytes_eqb (wf_writer e) (B "JSONWriteNaturalLanguageProp").
Definition keys_of (e : wflat) : list bytes :=
  if is_nlv_writer e then [wf_term e; wf_term e ++ B "Map"] else [wf_term e].

Definition link_guard_name : bytes := B "x != nil;GetLink".

Definition conv_ok (ty : gotype) (r : rflat) : bool :=
  match ty with
  | TUint => bytes_eqb (rf_conv r) (B "uint")
  | TInt64 => negb (bytes_eqb (rf_conv r) (B "uint"))
  | TString => if bytes_eqb (rf_getter r) (B "JSONGetURIItem") then bytes_eqb (rf_guard r) link_guard_name else true
  | TItem => negb (bytes_eqb (rf_guard r) link_guard_name)
  | _ => true
  end.

Definition pair_ok_core (ty : gotype) (f : fid) (e : wflat) (r : rflat) : bool :=
  match wf_path e with [f'] => fid_beq f f' | _ => false end
  && bytes_eqb (wf_term e) (rf_term r) && key_plain (wf_term e)
  && writer_fits ty e && getter_fits ty r
  && forallb (guard_fits ty f) (wf_guards e)
  && conv_ok ty r
  && match ty with TOther _ => false | _ => true end.

(* the write entry is defined (inside the encoder model) on every value of the type, set or not: its guards are of a
   kind the model evaluates, an unset instant or duration never reaches its writer (which has no output for it), and
   a string written through JSONWriteProp goes through a marshaller the model knows *)
Definition guard_evaluable (g : wguard) : bool :=
  match g with
  | GOther src => bytes_eqb src (pubkey_guard_src)
  | _ => true
  end.
Definition known_string_vias : list bytes :=
  [B "MarshalJSON:ID"; B "MarshalJSON:IRI"; B "MarshalJSON:ActivityVocabularyType"; B "MarshalJSON:MimeType"; B "json.Marshal"].
Definition write_total (ty : gotype) (e : wflat) : bool :=
  forallb guard_evaluable (wf_guards e)
  && match ty with TTime | TDur => existsb nonval (wf_guards e) | _ => true end
  && match ty with
     | TString => negb (bytes_eqb (wf_writer e) (B "JSONWriteProp")) || existsb (bytes_eqb (wf_via e)) known_string_vias
     | _ => true
     end.

Definition pair_ok (ty : gotype) (f : fid) (e : wflat) (r : rflat) : bool := pair_ok_core ty f e r && write_total ty e.

(* GetAPSource reads members of the member it is given the name of, with getters that yield nothing when that
   member is absent *)
Definition source_reads_ok (jr_tables : list (bytes * list rstmt)) (term : bytes) : bool :=
  match jr_table jr_tables (B "GetAPSource") with
  | Some stmts =>
      forallb (fun s => match s with
                        | RProp _ tm g _ _ _ =>
                            match cut_byte x2e tm with (a, Some _) => bytes_eqb a term | _ => false end
                            && (bytes_eqb g (B "JSONGetNaturalLanguageField")
                                || existsb (bytes_eqb g) [B "JSONGetID"; B "JSONGetType"; B "JSONGetMimeType"; B "JSONGetString"; B "JSONGetIRI";
                                                          B "JSONGetLangRefField"; B "val.GetStringBytes"; B "val.Get.GetStringBytes"])
                        | _ => false
                        end) stmts
  | None => false
  end.


(* ---------------------------------------------------------------- the notEmpty flag *)
Section Acc.
  Variable jw_tables : list (bytes * bool * list wstmt).
  (* a property statement that, when it runs, always writes its member (so that a plain assignment of its result
     to notEmpty cannot reset the flag).  JSONWriteTimeProp is not among them: it leaves out an instant whose UTC
     year is outside 0000-9999 and reports false *)
  Definition always_writes (writer : bytes) (path : list fid) (guards : list wguard) : bool :=
    existsb (fun g => match g with GValNonEmpty => true | _ => false end) guards
    || existsb (bytes_eqb writer) [B "JSONWriteDurationProp"; B "JSONWriteIntProp"; B "JSONWriteFloatProp";
                                   B "JSONWriteBoolProp"; B "JSONWriteStringProp"]
    || (bytes_eqb writer (B "JSONWriteItemCollectionProp")
        && existsb (fun g => match g, path with GLenGt0 f, [f'] => fid_beq f f' | _, _ => false end) guards).

  Fixpoint acc_ok_stmts (first : bool) (l : list wstmt) : bool :=
    match l with
    | [] => true
    | WProp _ w p _ g acc _ :: r =>
        match acc with
        | AccOr => true
        | AccSet => first || always_writes w p g
        | _ => false
        end && acc_ok_stmts false r
    | WDelegate _ fn acc _ :: r =>
        match fn with
        | [] => true
        | _ => match acc with AccOr => true | AccSet => first | _ => false end
        end && acc_ok_stmts false r
    | WUnrecognised _ _ :: _ => false
    end.

  (* over the tables a MarshalJSON function reaches by delegation *)
  Fixpoint acc_ok (depth : nat) (name : bytes) : bool :=
    match depth with
    | O => false
    | S d =>
        match jw_table jw_tables name with
        | None => false
        | Some (_, stmts) =>
            acc_ok_stmts true stmts &&
            forallb (fun s => match s with WDelegate _ ((_ :: _) as fn) _ _ => acc_ok d fn | _ => true end) stmts
        end
    end.

End Acc.

Fixpoint nodup_bytes (l : list bytes) : bool :=
  match l with [] => true | x :: r => negb (existsb (bytes_eqb x) r) && nodup_bytes r end.
Fixpoint nodup_fid_list (l : list fid) : bool :=
  match l with [] => true | x :: r => negb (existsb (fid_beq x) r) && nodup_fid_list r end.

(* ---------------------------------------------------------------- the three leaf structs *)
(* Source, Endpoints and PublicKey are written by a MarshalJSON table of their own (property statements only) and read
   by a table of their own (GetAPSource on the object itself, under the names "<outer>.<name>"; JSONGetActorEndpoints
   and JSONLoadPublicKey on the member).  Their parts, with the Go types the value universe gives them: *)
Definition leaf_layout (ty : gotype) : list (fid * gotype) :=
  match ty with
  | TSource => [(F_Content, TNlv); (F_MediaType, TString)]
  | TEndpoints => map (fun f => (f, TItem)) endpoints_struct_order
  | TPubKey => [(F_ID, TString); (F_Owner, TString); (F_PublicKeyPem, TString)]
  | _ => []
  end.
Definition leaf_type (ty : gotype) (f : fid) : option gotype :=
  match find (fun p => fid_beq (fst p) f) (leaf_layout ty) with Some p => Some (snd p) | None => None end.
(* the table names are those the two interpreters call (Model/JsonTree.v t_value, Model/JsonDec.v get_value) *)
Definition leaf_wtable (ty : gotype) : bytes :=
  match ty with
  | TSource => B "Source_MarshalJSON" | TEndpoints => B "Endpoints_MarshalJSON" | TPubKey => B "PublicKey_MarshalJSON"
  | _ => []
  end.
Definition leaf_rtable (ty : gotype) : bytes :=
  match ty with
  | TSource => B "GetAPSource" | TEndpoints => B "JSONGetActorEndpoints" | TPubKey => B "JSONLoadPublicKey"
  | _ => []
  end.

Fixpoint leaf_entries (l : list wstmt) : option (list wflat) :=
  match l with
  | [] => Some []
  | WProp t w p v g acc _ :: r =>
      match acc with
      | AccOther => None
      | _ => match leaf_entries r with Some rs => Some (mkwf t w p v g :: rs) | None => None end
      end
  | _ => None
  end.
Fixpoint leaf_reads (l : list rstmt) : option (list rflat) :=
  match l with
  | [] => Some []
  | RProp f t g c gd _ :: r => match leaf_reads r with Some rs => Some (mkrf f t g c gd :: rs) | None => None end
  | _ => None
  end.

(* a read entry as seen from the struct's own JSON object: the two raw fastjson getters are the string getter, and the
   names GetAPSource reads are cut after "<outer>." *)
Definition leaf_getter (g : bytes) : bytes :=
  if bytes_eqb g (B "val.GetStringBytes") || bytes_eqb g (B "val.Get.GetStringBytes") then B "JSONGetString" else g.
Definition source_getter_ok (g : bytes) : bool :=
  bytes_eqb g (B "JSONGetNaturalLanguageField")
  || existsb (bytes_eqb g) [B "JSONGetID"; B "JSONGetType"; B "JSONGetMimeType"; B "JSONGetString"; B "JSONGetIRI";
                            B "JSONGetLangRefField"; B "val.GetStringBytes"; B "val.Get.GetStringBytes"].
Definition leaf_strip (outer : bytes) (ty : gotype) (r : rflat) : option rflat :=
  match ty with
  | TSource =>
      match cut_byte x2e (rf_term r) with
      | (a, Some b) =>
          if bytes_eqb a outer && source_getter_ok (rf_getter r)
          then Some (mkrf (rf_fid r) b (leaf_getter (rf_getter r)) (rf_conv r) (rf_guard r)) else None
      | _ => None
      end
  | _ => Some (mkrf (rf_fid r) (rf_term r) (leaf_getter (rf_getter r)) (rf_conv r) (rf_guard r))
  end.
Fixpoint leaf_strip_all (outer : bytes) (ty : gotype) (rs : list rflat) : option (list rflat) :=
  match rs with
  | [] => Some []
  | r :: rest =>
      match leaf_strip outer ty r, leaf_strip_all outer ty rest with
      | Some r', Some rest' => Some (r' :: rest')
      | _, _ => None
      end
  end.

Definition leaf_read_ok (ty : gotype) (es : list wflat) (r : rflat) : bool :=
  match leaf_type ty (rf_fid r) with
  | Some ity =>
      match filter (entry_for (rf_fid r)) es with
      | [e] => pair_ok ity (rf_fid r) e r
      | _ => false
      end
  | None => false
  end.

Section Leaf.
  Variable jw_tables : list (bytes * bool * list wstmt).
  Variable jr_tables : list (bytes * list rstmt).

  (* the write and read tables of leaf struct ty, whose member is written and read under the name outer, fit together:
     every read entry has exactly one write entry with pair_ok (at the Go type of the part), every part is read exactly
     once, the member names are pairwise different and plain, no write entry lacks a reader, notEmpty is accumulated *)
  Definition leaf_ok (outer : bytes) (ty : gotype) : bool :=
    match jw_table jw_tables (leaf_wtable ty), jr_table jr_tables (leaf_rtable ty) with
    | Some (_, ws), Some rstmts =>
        match leaf_entries ws, leaf_reads rstmts with
        | Some es, Some rs0 =>
            match leaf_strip_all outer ty rs0 with
            | Some rs =>
                forallb (leaf_read_ok ty es) rs
                && nodup_fid_list (map rf_fid rs)
                && forallb (fun d => existsb (fun r => fid_beq (rf_fid r) (fst d)) rs) (leaf_layout ty)
                && nodup_bytes (flat_map keys_of es)
                && forallb (fun e => key_plain (wf_term e)) es
                && forallb (fun e => existsb (fun r => entry_for (rf_fid r) e) rs) es
                && acc_ok jw_tables 1 (leaf_wtable ty)
            | None => false
            end
        | _, _ => false
        end
    | _, _ => false
    end.
End Leaf.

(* ---------------------------------------------------------------- a struct kind *)
Definition str_getters : list bytes :=
  [B "JSONGetID"; B "JSONGetType"; B "JSONGetMimeType"; B "JSONGetString"; B "JSONGetIRI"; B "JSONGetLangRefField"].


Section Kind.
  Variable jw_tables : list (bytes * bool * list wstmt).
  Variable jr_tables : list (bytes * list rstmt).
  Variable layout_of : kind -> list fdecl.

  Definition decl_for (k : kind) (f : fid) : option fdecl := find (fun d => fid_beq (fd_fid d) f) (layout_of k).

  Definition read_ok (k : kind) (es : list wflat) (r : rflat) : bool :=
    match decl_for k (rf_fid r) with
    | Some d =>
        bytes_eqb (rf_term r) (fd_term d) &&
        match fd_type d with TSource => source_reads_ok jr_tables (rf_term r) | _ => true end &&
        match fd_type d with TSource | TEndpoints | TPubKey => leaf_ok jw_tables jr_tables (rf_term r) (fd_type d) | _ => true end &&
        match filter (entry_for (rf_fid r)) es with
        | [e] => pair_ok (fd_type d) (rf_fid r) e r
        | _ => false
        end
    | None => false
    end.

  Definition type_read_ok (k : kind) (rs : list rflat) : bool :=
    match decl_for k F_Type with
    | Some d =>
        match fd_type d with TString => true | _ => false end && bytes_eqb (fd_term d) (B "type")
        && forallb (fun r => negb (fid_beq (rf_fid r) F_Type) || existsb (bytes_eqb (rf_getter r)) str_getters) rs
    | None => false
    end.

  Definition kind_ok (k : kind) : bool :=
    match entries_of jw_tables k, reads_of jr_tables k with
    | Some es, Some rs =>
        forallb (read_ok k es) rs
        && nodup_fid_list (map rf_fid rs)
        && forallb (fun d => existsb (fun r => fid_beq (rf_fid r) (fd_fid d)) rs) (layout_of k)
        && nodup_bytes (flat_map keys_of es)
        && forallb (fun e => key_plain (wf_term e)) es
        && forallb (fun e => existsb (fun r => entry_for (rf_fid r) e) rs) es     (* no write entry without a reader *)
        && nodup_fid_list (map fd_fid (layout_of k))
        && type_read_ok k rs
        && acc_ok jw_tables 6 (marshal_table k)
        && match flatten_w jw_tables 5 (marshal_table k) with Some _ => true | None => false end   (* a leaf table can still be called *)
    | _, _ => false
    end.

  Definition kinds_ok : bool := forallb kind_ok all_kinds.
End Kind.
