(* Types of the generated JSON field tables (Gen/JsonW.v, Gen/JsonR.v). *)
From AP.Model Require Import Prelude Vocab.

Inductive wguard :=
| GNeNil (f : fid)          (* x.F != nil *)
| GLenGt0 (f : fid)         (* len(x.F) > 0 *)
| GNotZeroTime (f : fid)    (* !x.F.IsZero() *)
| GNe0 (f : fid)            (* x.F != 0 *)
| GGt0 (f : fid)            (* x.F > 0 *)
| GValNonEmpty              (* err == nil && len(v) > 0 on the marshalled value *)
| GOther (src : bytes).

Inductive wacc := AccOr | AccSet | AccNotSet | AccOther.

Inductive wstmt :=
| WProp (term : bytes) (writer : bytes) (path : list fid) (via : bytes) (guards : list wguard) (acc : wacc) (pos : bytes)
| WDelegate (on : bytes) (fn : bytes) (acc : wacc) (pos : bytes)
| WUnrecognised (src : bytes) (pos : bytes).

Inductive rstmt :=
| RProp (f : fid) (term : bytes) (getter : bytes) (conv : bytes) (guard : bytes) (pos : bytes)
| RDelegate (on : bytes) (fn : bytes) (pos : bytes)
| RUnrecognised (src : bytes) (pos : bytes).
