(* The JSON encoder as a tree writer (C01, layer b).
   [fprint] prints a fastjson value the way the encoder writes documents (no white space, members as
   "key":value separated by one comma, strings as their raw bodies between quotes, numbers as their tokens);
   [tree_item] is the interpreter of the generated write tables (Gen/JsonW.v) of Model/JsonEnc.v with every
   byte-producing leaf replaced by the value it denotes (None = nothing is written).
   Proofs/C01TreeP.v proves  enc_item fuel x = option_map oprint (tree_item fuel x)  for every x, every fuel and
   every table, so this is a factorisation of the executable encoder model, not a second model.
   Definitions only. *)
From AP.Model Require Import Prelude Bytes Vocab Pred Json JsonLeaf JsonTables Dispatch Text JsonEnc.
Local Open Scope Z_scope.

Fixpoint fprint (v : fjv) : bytes :=
  match v with
  | Text.FStr raw => dquote :: raw ++ [dquote]
  | FNum tok => tok
  | FTrue => B "true"
  | FFalse => B "false"
  | FNull => B "null"
  | FArr l =>
      x5b :: join_with comma ((fix go (l : list fjv) : list bytes :=
                                 match l with [] => [] | x :: r => fprint x :: go r end) l) ++ [x5d]
  | FObj kvs =>
      x7b :: join_with comma ((fix go (m : list (bytes * fjv)) : list bytes :=
                                 match m with
                                 | [] => []
                                 | kv :: r => member (fst kv) (fprint (snd kv)) :: go r
                                 end) kvs) ++ [x7d]
  end.

Definition pmember (kv : bytes * fjv) : bytes := member (fst kv) (fprint (snd kv)).
Definition oprint (o : option fjv) : bytes := match o with Some v => fprint v | None => [] end.
Definition osome {A} (o : option A) : bool := match o with Some _ => true | None => false end.

(* JSONWriteStringValue: nothing for the empty string *)
Definition t_quoted (s : bytes) : option fjv :=
  match s with [] => None | _ => Some (Text.FStr (escape_quote s)) end.

(* NaturalLanguageValues.MarshalJSON: the entries written are those JsonEnc.nlv_kept keeps (tag and text non-empty, the
   first of several entries whose tags read back alike) *)
Definition nlv_member (e : bytes * bytes) : bytes * fjv :=
  (string_bytes_body false (fst e), Text.FStr (string_bytes_body false (snd e))).
Definition t_nlv (l : list (bytes * bytes)) : option fjv :=
  match l with
  | [] => None
  | _ =>
      let single :=
        match l with
        | [(_, (_ :: _) as v)] => Some (Text.FStr (string_bytes_body false v))
        | _ => None
        end in
      match single with
      | Some t => Some t
      | None => match map nlv_member (nlv_kept [] l) with [] => None | parts => Some (FObj parts) end
      end
  end.

(* the emptiness of the marshalled value is all a guard looks at *)
Definition guard_bytes (o : option fjv) : bytes := match o with Some _ => [x30] | None => [] end.

Section Tree.
  Variable jw_tables : list (bytes * bool * list wstmt).

  Section Stmts.
    Variable t_item : item -> option (option fjv).
    Variable t_run : bytes -> list (fid * fval) -> option (list (bytes * fjv) * bool).

    Definition t_struct (name : bytes) (fs : list (fid * fval)) : option (option fjv) :=
      match t_run name fs with
      | Some (ms, ne) => Some (if ne then Some (FObj ms) else None)
      | None => None
      end.

    (* (term actually used, value or nothing, result flag) *)
    Definition t_value (writer via : bytes) (term : bytes) (v : option fval) : option (bytes * option fjv * bool) :=
      if bytes_eqb writer (B "JSONWriteItemProp") then
        match v with
        | Some (FItem i) => match t_item i with Some o => Some (term, o, osome o) | None => None end
        | Some (FItems l) => match t_item (IItems false l) with Some o => Some (term, o, osome o) | None => None end
        | None => Some (term, None, false)
        | _ => None
        end
      else if bytes_eqb writer (B "JSONWriteItemCollectionProp") then
        match v with
        | Some (FItems (Some ((_ :: _) as l))) =>
            (fix go (l : list item) (acc : list fjv) : option (bytes * option fjv * bool) :=
               match l with
               | [] => Some (term, Some (FArr (rev acc)), true)
               | i :: r => match t_item i with
                           | Some None => go r acc
                           | Some (Some t) => go r (t :: acc)
                           | None => None
                           end
               end) l []
        | Some (FItems _) | None => Some (term, None, false)
        | _ => None
        end
      else if bytes_eqb writer (B "JSONWriteNaturalLanguageProp") then
        match v with
        | Some (FNlv (Some l)) =>
            let o := t_nlv l in
            Some (if Nat.ltb 1 (length l) then term ++ B "Map" else term, o, osome o)
        | Some (FNlv None) | None => Some (term, None, false)
        | _ => None
        end
      else if bytes_eqb writer (B "JSONWriteProp") then
        match v with
        | Some (Vocab.FStr s) =>
            let o := if bytes_eqb via (B "MarshalJSON:ID") || bytes_eqb via (B "MarshalJSON:IRI") then t_quoted s
                     else if bytes_eqb via (B "MarshalJSON:ActivityVocabularyType") || bytes_eqb via (B "MarshalJSON:MimeType") then
                       t_quoted s
                     else if bytes_eqb via (B "json.Marshal") then Some (Text.FStr (string_bytes_body true s))
                     else None in
            if bytes_eqb via (B "MarshalJSON:ID") || bytes_eqb via (B "MarshalJSON:IRI")
               || bytes_eqb via (B "MarshalJSON:ActivityVocabularyType") || bytes_eqb via (B "MarshalJSON:MimeType")
               || bytes_eqb via (B "json.Marshal")
            then Some (term, o, osome o) else None
        | Some (FEndpoints (Some e)) =>
            match t_struct (B "Endpoints_MarshalJSON") (endpoints_fields e) with
            | Some o => Some (term, o, osome o)
            | None => None
            end
        | Some (FPubKey id o p) =>
            match t_struct (B "PublicKey_MarshalJSON") (pubkey_fields id o p) with
            | Some o => Some (term, o, osome o)
            | None => None
            end
        | Some (FSource mt c) =>
            match t_struct (B "Source_MarshalJSON") (source_fields mt c) with
            | Some o => Some (term, o, osome o)
            | None => None
            end
        | None => Some (term, None, false)
        | _ => None
        end
      else if bytes_eqb writer (B "JSONWriteTimeProp") then
        match v with
        | Some (FTime t) => if time_writable t then Some (term, Some (Text.FStr (fmt_rfc3339_utc (vsecs t))), true) else Some (term, None, false)
        | _ => None
        end
      else if bytes_eqb writer (B "JSONWriteDurationProp") then
        match v with
        | Some (FDur d) => match fmt_xsd_duration d with Some b => Some (term, Some (Text.FStr b), true) | None => None end
        | _ => None
        end
      else if bytes_eqb writer (B "JSONWriteIntProp") then
        Some (term, Some (FNum (fmt_int (num_of v))), true)
      else if bytes_eqb writer (B "JSONWriteFloatProp") then
        Some (term, Some (FNum (fmt_float (num_of v))), true)
      else if bytes_eqb writer (B "JSONWriteBoolProp") then
        Some (term, Some (match v with Some (FBool true) => FTrue | _ => FFalse end), true)
      else if bytes_eqb writer (B "JSONWriteStringProp") then
        match v with
        | Some (Vocab.FStr s) => Some (term, Some (Text.FStr (escape_quote s)), true)
        | None => Some (term, Some (Text.FStr (escape_quote [])), true)
        | _ => None
        end
      else if bytes_eqb writer (B "JSONWriteIRIProp") then
        match v with
        | Some (Vocab.FStr ((_ :: _) as s)) => Some (term, Some (Text.FStr (escape_quote s)), true)
        | Some (Vocab.FStr []) | None => Some (term, None, false)
        | _ => None
        end
      else None.

    Fixpoint t_stmts (stmts : list wstmt) (fs : list (fid * fval)) (st : list (bytes * fjv) * bool)
      : option (list (bytes * fjv) * bool) :=
      match stmts with
      | [] => Some st
      | s :: rest =>
          let '(ms, ne) := st in
          match s with
          | WProp term writer path via guards acc _ =>
              let v := path_get path fs in
              match eval_guards fs [x30] (filter (fun g => match g with GValNonEmpty => false | _ => true end) guards) with
              | None => None
              | Some false => t_stmts rest fs st
              | Some true =>
                  match t_value writer via term v with
                  | None => None
                  | Some (term', o, r) =>
                      match eval_guards fs (guard_bytes o) guards with
                      | None => None
                      | Some false => t_stmts rest fs st
                      | Some true =>
                          match apply_acc acc r ne with
                          | None => None
                          | Some ne' => t_stmts rest fs (match o with None => ms | Some t => ms ++ [(term', t)] end, ne')
                          end
                      end
                  end
              end
          | WDelegate _ fn acc _ =>
              match fn with
              | [] => t_stmts rest fs st
              | _ =>
                  match t_run fn fs with
                  | None => None
                  | Some (ms', r) =>
                      match apply_acc acc r ne with
                      | None => None
                      | Some ne' => t_stmts rest fs (ms ++ ms', ne')
                      end
                  end
              end
          | WUnrecognised _ _ => None
          end
      end.
  End Stmts.

  Fixpoint t_run_table (depth : nat) (t_item : item -> option (option fjv)) (name : bytes) (fs : list (fid * fval))
    : option (list (bytes * fjv) * bool) :=
    match depth with
    | O => None
    | S d =>
        match jw_table jw_tables name with
        | None => None
        | Some (init, stmts) => t_stmts t_item (t_run_table d t_item) stmts fs ([], init)
        end
    end.

  Fixpoint tree_item (fuel : nat) (i : item) : option (option fjv) :=
    match fuel with
    | O => None
    | S f =>
        match i with
        | INil | ITNil _ => Some None
        | IIri _ s => if is_nil i then Some None else Some (t_quoted s)
        | IObj _ k fs => t_struct (t_run_table 6 (tree_item f)) (marshal_table k) fs
        | IItems _ None => Some None
        | IItems _ (Some []) => Some None
        | IItems _ (Some [x]) => tree_item f x
        | IItems _ (Some l) =>
            (fix go (l : list item) (acc : list fjv) : option (option fjv) :=
               match l with
               | [] => Some (Some (FArr (rev acc)))
               | x :: r => match tree_item f x with
                           | Some None => go r acc
                           | Some (Some t) => go r (t :: acc)
                           | None => None
                           end
               end) l []
        | IIris false None => Some None
        | IIris _ None | IIris _ (Some []) => Some (Some (FArr []))
        | IIris _ (Some l) => Some (Some (FArr (map (fun s => Text.FStr (escape_quote s)) l)))
        end
    end.

  (* the tree MarshalJSON writes for an item: None = outside the encoder model, Some None = nothing written *)
  Definition tree_of (i : item) : option (option fjv) := tree_item (S (item_size i)) i.
End Tree.
