(* C07, "the value decoded for a type name has the Go type the registry gives for it": the decidable conditions on
   the dispatch tables under which the kind half of the round trip holds of the codec MODELS (Model/JsonDec.v,
   Model/JsonEnc.v, Model/Gob.v - the definitions the correspondence check runs against the code), and the
   vocabulary used in its statement.  Definitions only; theorems in Proofs/KindRtP.v. *)
From AP.Model Require Import Prelude Bytes Vocab Pred Layout Dispatch Text JsonTables JsonDec Gob GobNorm.
From AP.Spec Require Import Vocabulary.

(* the type name a document (a parsed tree) carries *)
Definition type_name_of (v : fjv) : bytes := jstr (jget v (B "type")).

(* a pointer to a struct of kind k, or nothing at all (the decoder's answer for an object it finds empty) *)
Definition kind_or_nothing (k : kind) (i : item) : Prop := i = INil \/ exists fs, i = IObj true k fs.
Definition has_kind (k : kind) (i : item) : Prop := exists fs, i = IObj true k fs.

(* JSON: the registry (GetItemByType) and the switch of JSONLoadItem send every listed name to the struct kind of
   its family; the names are not empty (the empty name is the "no type" path) *)
Definition json_kind_entry_ok (registry load_switch : bytes -> option kind) (e : bytes * family) : bool :=
  negb (Nat.eqb (length (fst e)) 0)
  && okind_eqb (registry (fst e)) (Some (kind_of_family (snd e)))
  && okind_eqb (load_switch (fst e)) (Some (kind_of_family (snd e))).
Definition json_kind_cond (registry load_switch : bytes -> option kind) (names : list (bytes * family)) : bool :=
  forallb (json_kind_entry_ok registry load_switch) names.
Definition json_kind_first_bad (registry load_switch : bytes -> option kind) (names : list (bytes * family))
  : option (bytes * option kind * option kind) :=
  match find (fun e => negb (json_kind_entry_ok registry load_switch e)) names with
  | Some e => Some (fst e, registry (fst e), load_switch (fst e))
  | None => None
  end.

(* gob: registry, encoder switch, decoder switch and the value the registry presets all agree on the name
   (type_selects of Model/Gob.v), and the name is not empty *)
Definition gob_kind_entry_ok (E : gob_env) (e : bytes * family) : bool :=
  negb (Nat.eqb (length (fst e)) 0) && type_selects E (kind_of_family (snd e)) (fst e).
Definition gob_kind_cond (E : gob_env) (names : list (bytes * family)) : bool := forallb (gob_kind_entry_ok E) names.
Definition gob_kind_first_bad (E : gob_env) (names : list (bytes * family))
  : option (bytes * option kind * option kind * option kind) :=
  match find (fun e => negb (gob_kind_entry_ok E e)) names with
  | Some e => Some (fst e, typer_kind E (fst e), enc_kind E (fst e), dec_kind E (fst e))
  | None => None
  end.

(* every property holds a value of the Go type of its field *)
Definition shapes_ok (E : gob_env) (k : kind) (fs : list (fid * fval)) : Prop :=
  forall d v, In d (ge_layout E k) -> getf (fd_fid d) fs = Some v -> shape_ok (fd_type d) v = true.

(* values placed around a value x: in an item-valued property and in a list-valued property of an outer object *)
Definition in_item_position (x : item) : item :=
  IObj true KActivity [(F_ID, Vocab.FStr (B "https://example.com/outer")); (F_Type, Vocab.FStr (B "Create")); (F_Object, FItem x)].
Definition in_list_position (x : item) : item :=
  IObj true KOrdered [(F_ID, Vocab.FStr (B "https://example.com/outer")); (F_Type, Vocab.FStr (B "OrderedCollection"));
                      (F_OrderedItems, FItems (Some [IIri false (B "https://example.com/first"); x]))].
