(* Go struct layout as the translator reports it (types.SizesFor gc/amd64), and cast sites. *)
From AP.Model Require Import Prelude Vocab.

Inductive gotype :=
| TItem | TItems | TNlv | TString | TTime | TDur | TUint | TInt64 | TBool | TFloat
| TSource | TEndpoints | TPubKey | TOther (name : bytes).

Definition gotype_eqb (a b : gotype) : bool :=
  match a, b with
  | TItem, TItem | TItems, TItems | TNlv, TNlv | TString, TString | TTime, TTime | TDur, TDur
  | TUint, TUint | TInt64, TInt64 | TBool, TBool | TFloat, TFloat | TSource, TSource
  | TEndpoints, TEndpoints | TPubKey, TPubKey => true
  | TOther x, TOther y => bytes_eqb x y
  | _, _ => false
  end.

Record fdecl := mkfd {
  fd_fid : fid; fd_type : gotype; fd_size : nat; fd_align : nat; fd_off : nat; fd_term : bytes }.

Inductive cast_kind := CK (k : kind) | CKOther (name : bytes).

Record cast_site := mkcast {
  cs_func : bytes; cs_src : cast_kind; cs_from_value : bool; cs_dst : cast_kind; cs_pos : bytes }.

(* one case of a To* type switch *)
Inductive conv_action :=
| AIdent                      (* case ptr-T: return i           - the same pointer *)
| AAddrOfCopy                 (* case T:  return &i          - pointer to a copy *)
| ACast (dst : cast_kind)     (* return D-pointer(unsafe.Pointer(i))  - reinterpretation of the original *)
| ACastOfCopy (dst : cast_kind)   (* return D-pointer(unsafe.Pointer(&i)) - reinterpretation of a copy *)
| AField (f : fid)            (* return &i.F *)
| AReflect                    (* return reflectItemToType[D](it): nil -> (nil,nil); ConvertibleTo -> Convert; else error *)
| AReflectInline              (* reflect.TypeOf(it).ConvertibleTo ... inline: no IsNil pre-check (nil interface panics) *)
| ANoDefault                  (* no default clause: falls out of the switch to the error return *)
| ACall (fn : bytes)          (* return f(...) *)
| AOther (src : bytes).

Record conv_case := mkconv { cv_src : cast_kind; cv_ptr : bool; cv_action : conv_action; cv_pos : bytes }.
