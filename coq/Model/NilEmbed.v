(* C20, the embedded part: a nil-like item (the untyped nil, a typed nil pointer) nested at ANY depth inside
   the properties and lists of a value.  Definitions only.

   - nilify: every typed nil pointer inside a value replaced by the untyped nil (in place, any depth);
   - the erasure relations orel / vrel / lrel, parametric in a relation RI on items: what it means for two field
     lists / property values / lists to be the same up to RI on the items they hold, where additionally a
     property holding a nil-like item on the left may be ABSENT on the right ("handled as nothing");
   - erasure_sim: RI unfolds to itself through these relations (a simulation); `erases` is the union of all
     simulations, i.e. "x' is x with some nil-like items turned into the untyped nil or their property removed";
   - nil_transparent: the decidable condition on the generated JSON write tables (Gen/JsonW.v) under which the
     encoder interpreter of Model/JsonEnc.v cannot tell x from x' (Proofs/NilEncP.v). *)
From AP.Model Require Import Prelude Bytes Vocab Pred Json JsonLeaf JsonTables Dispatch JsonEnc NilMatrix.

(* ---- typed nil -> untyped nil, everywhere ---- *)
Fixpoint nilify (i : item) {struct i} : item :=
  match i with
  | ITNil _ => INil
  | IObj p k fs =>
      IObj p k ((fix go (fs : list (fid * fval)) : list (fid * fval) :=
                   match fs with [] => [] | (f, v) :: r => (f, nilify_fval v) :: go r end) fs)
  | IItems p (Some l) =>
      IItems p (Some ((fix go (l : list item) : list item :=
                         match l with [] => [] | x :: r => nilify x :: go r end) l))
  | _ => i
  end
with nilify_fval (v : fval) {struct v} : fval :=
  match v with
  | FItem i => FItem (nilify i)
  | FItems (Some l) =>
      FItems (Some ((fix go (l : list item) : list item :=
                       match l with [] => [] | x :: r => nilify x :: go r end) l))
  | FEndpoints (Some e) =>
      FEndpoints (Some ((fix go (e : list (fid * item)) : list (fid * item) :=
                           match e with [] => [] | (f, x) :: r => (f, nilify x) :: go r end) e))
  | _ => v
  end.

(* does a typed nil pointer occur anywhere inside *)
Fixpoint has_typed_nil (i : item) {struct i} : bool :=
  match i with
  | ITNil _ => true
  | IObj _ _ fs =>
      (fix go (fs : list (fid * fval)) : bool :=
         match fs with [] => false | (_, v) :: r => has_typed_nil_fval v || go r end) fs
  | IItems _ (Some l) =>
      (fix go (l : list item) : bool := match l with [] => false | x :: r => has_typed_nil x || go r end) l
  | _ => false
  end
with has_typed_nil_fval (v : fval) {struct v} : bool :=
  match v with
  | FItem i => has_typed_nil i
  | FItems (Some l) =>
      (fix go (l : list item) : bool := match l with [] => false | x :: r => has_typed_nil x || go r end) l
  | FEndpoints (Some e) =>
      (fix go (e : list (fid * item)) : bool := match e with [] => false | (_, x) :: r => has_typed_nil x || go r end) e
  | _ => false
  end.

(* the untyped twin of a value: typed nil pointers become the untyped nil and a property that then holds the
   untyped nil is dropped (the harness builds the twin on the Go side and compares; not used by the theorems) *)
Definition holds_nil (v : fval) : bool := match v with FItem INil => true | _ => false end.
Fixpoint scrub (i : item) {struct i} : item :=
  match i with
  | ITNil _ => INil
  | IObj p k fs =>
      IObj p k ((fix go (fs : list (fid * fval)) : list (fid * fval) :=
                   match fs with
                   | [] => []
                   | (f, v) :: r => let v' := scrub_fval v in if holds_nil v' then go r else (f, v') :: go r
                   end) fs)
  | IItems p (Some l) =>
      IItems p (Some ((fix go (l : list item) : list item :=
                         match l with [] => [] | x :: r => scrub x :: go r end) l))
  | _ => i
  end
with scrub_fval (v : fval) {struct v} : fval :=
  match v with
  | FItem i => FItem (scrub i)
  | FItems (Some l) =>
      FItems (Some ((fix go (l : list item) : list item :=
                       match l with [] => [] | x :: r => scrub x :: go r end) l))
  | FEndpoints (Some e) =>
      FEndpoints (Some ((fix go (e : list (fid * item)) : list (fid * item) :=
                           match e with
                           | [] => []
                           | (f, x) :: r => match scrub x with INil => go r | x' => (f, x') :: go r end
                           end) e))
  | _ => v
  end.

(* ---- sameness up to a relation on items, with nil-like properties allowed to vanish ---- *)
Section Rel.
  Variable RI : item -> item -> Prop.

  Definition lrel (l l' : option (list item)) : Prop :=
    match l, l' with Some a, Some b => Forall2 RI a b | None, None => True | _, _ => False end.

  Definition is_leaf (v : fval) : Prop :=
    match v with FItem _ | FItems _ | FEndpoints (Some _) => False | _ => True end.

  (* entries of an Endpoints struct, looked up by field *)
  Definition irel (o o' : option fval) : Prop :=
    match o, o' with
    | None, None => True
    | Some (FItem i), None => nil_like i = true
    | Some (FItem i), Some (FItem i') => RI i i'
    | _, _ => False
    end.

  Definition vrel (v v' : fval) : Prop :=
    match v, v' with
    | FItem i, FItem i' => RI i i'
    | FItems l, FItems l' => RI (IItems false l) (IItems false l') /\ lrel l l'
    | FEndpoints (Some e), FEndpoints (Some e') =>
        forall f, irel (getf f (endpoints_fields e)) (getf f (endpoints_fields e'))
    | _, _ => is_leaf v /\ v = v'
    end.

  Definition orel (o o' : option fval) : Prop :=
    match o, o' with
    | None, None => True
    | Some (FItem i), None => nil_like i = true
    | Some v, Some v' => vrel v v'
    | _, _ => False
    end.

  Definition frel (fs fs' : list (fid * fval)) : Prop := forall f, orel (getf f fs) (getf f fs').

  (* one unfolding of an erasure *)
  Definition shape (x x' : item) : Prop :=
    match x, x' with
    | INil, INil => True
    | ITNil _, INil => True
    | ITNil k, ITNil k' => k = k'
    | IIri p s, IIri p' s' => p = p' /\ s = s'
    | IIris p l, IIris p' l' => p = p' /\ l = l'
    | IObj p k fs, IObj p' k' fs' => p = p' /\ k = k' /\ frel fs fs'
    | IItems p l, IItems p' l' => p = p' /\ lrel l l'
    | _, _ => False
    end.
End Rel.

Definition erasure_sim (RI : item -> item -> Prop) : Prop := forall x x', RI x x' -> shape RI x x'.

(* x' is x with nil-like items (at any depth) turned into the untyped nil, or their property removed *)
Definition erases (x x' : item) : Prop := exists RI, erasure_sim RI /\ RI x x'.

(* ---- the table condition ---- *)
Definition total_writer (w : bytes) : bool :=
  bytes_eqb w (B "JSONWriteIntProp") || bytes_eqb w (B "JSONWriteFloatProp") || bytes_eqb w (B "JSONWriteBoolProp").
Definition guard_is_val (g : wguard) : bool := match g with GValNonEmpty => true | _ => false end.

(* a statement guarded by `x.F != nil` (true of a typed nil pointer, false of the untyped nil): it writes F itself,
   through a writer that gives up on a value that is not of its kind, and - when it is the item writer, which
   writes nothing for a nil-like item and reports false - it folds that report with || or drops it
   (`len(v) > 0` on the written value) *)
Definition stmt_nil_ok (s : wstmt) : bool :=
  match s with
  | WProp _ writer path _ guards acc _ =>
      forallb (fun g => match g with
                        | GNeNil f =>
                            match path with [f'] => fid_beq f f' | _ => false end
                            && negb (total_writer writer)
                            && (negb (bytes_eqb writer (B "JSONWriteItemProp"))
                                || match acc with AccOr => true | _ => false end
                                || existsb guard_is_val guards)
                        | _ => true
                        end) guards
  | _ => true
  end.
Definition nil_transparent (tables : list (bytes * bool * list wstmt)) : bool :=
  forallb (fun t => forallb stmt_nil_ok (snd t)) tables.
