(* C01 over values with nil-like entries (builder b66).  Definitions only.

   [scrub] (Model/NilEmbed.v, builder b24) turns every typed nil pointer, at any depth, into the untyped nil and drops a
   PROPERTY that then holds the untyped nil; a LIST MEMBER it leaves in place as the untyped nil (C20's erasure
   relation keeps list lengths).  The real encoder skips a nil member of a list ([a, typed nil pointer, b] is written
   `[a,b]`), so the value that comes back has no such member:

     - dropn x : x with every untyped-nil member of every list, at any depth, removed;
     - erase x = dropn (scrub x): every typed nil pointer / untyped nil erased - item properties holding one are
       unset, list members that are one are removed, Endpoints entries holding one are removed;
     - lists_ok x : every list inside x, at any depth, either has no untyped-nil member or keeps AT LEAST TWO members.
       The condition is needed (Props/C01.v C01_nil_like_list_condition_needed): the encoder writes a list of one
       member as the member alone but a list `[a, nil]` as the array `[a]`, and `[nil, nil]` as `[]`. *)
From AP.Model Require Import Prelude Vocab Pred NilEmbed NilFlatten.

Definition is_inil (i : item) : bool := match i with INil => true | _ => false end.

Fixpoint dropn (i : item) {struct i} : item :=
  match i with
  | IObj p k fs =>
      IObj p k ((fix go (fs : list (fid * fval)) : list (fid * fval) :=
                   match fs with [] => [] | (f, v) :: r => (f, dropn_fval v) :: go r end) fs)
  | IItems p (Some l) =>
      IItems p (Some ((fix go (l : list item) : list item :=
                         match l with
                         | [] => []
                         | x :: r => match x with INil => go r | _ => dropn x :: go r end
                         end) l))
  | _ => i
  end
with dropn_fval (v : fval) {struct v} : fval :=
  match v with
  | FItem i => FItem (dropn i)
  | FItems (Some l) =>
      FItems (Some ((fix go (l : list item) : list item :=
                       match l with
                       | [] => []
                       | x :: r => match x with INil => go r | _ => dropn x :: go r end
                       end) l))
  | FEndpoints (Some e) =>
      FEndpoints (Some ((fix go (e : list (fid * item)) : list (fid * item) :=
                           match e with [] => [] | (f, x) :: r => (f, dropn x) :: go r end) e))
  | _ => v
  end.

Fixpoint dropn_fields (fs : list (fid * fval)) : list (fid * fval) :=
  match fs with [] => [] | (f, v) :: r => (f, dropn_fval v) :: dropn_fields r end.
Fixpoint dropn_list (l : list item) : list item :=
  match l with [] => [] | x :: r => match x with INil => dropn_list r | _ => dropn x :: dropn_list r end end.
Fixpoint dropn_endp (e : list (fid * item)) : list (fid * item) :=
  match e with [] => [] | (f, x) :: r => (f, dropn x) :: dropn_endp r end.

(* the members that stay *)
Fixpoint kept_count (l : list item) : nat :=
  match l with [] => O | x :: r => (if is_inil x then O else 1) + kept_count r end.
Definition list_ok (l : list item) : bool :=
  Nat.eqb (kept_count l) (length l) || Nat.leb 2 (kept_count l).

Fixpoint lists_ok (i : item) {struct i} : bool :=
  match i with
  | IObj _ _ fs =>
      (fix go (fs : list (fid * fval)) : bool :=
         match fs with [] => true | (_, v) :: r => lists_ok_fval v && go r end) fs
  | IItems _ (Some l) =>
      list_ok l &&
      (fix go (l : list item) : bool := match l with [] => true | x :: r => lists_ok x && go r end) l
  | _ => true
  end
with lists_ok_fval (v : fval) {struct v} : bool :=
  match v with
  | FItem i => lists_ok i
  | FItems (Some l) =>
      list_ok l &&
      (fix go (l : list item) : bool := match l with [] => true | x :: r => lists_ok x && go r end) l
  | FEndpoints (Some e) =>
      (fix go (e : list (fid * item)) : bool := match e with [] => true | (_, x) :: r => lists_ok x && go r end) e
  | _ => true
  end.

(* no struct and no Endpoints inside the value, at any depth, binds a field twice (true of every rendering of a Go value;
   it follows from EncTyped.well_typed: Proofs/C01NilP.v well_typed_fields_once).  nodupf of Model/NilFlatten.v says
   it of the structs only. *)
Fixpoint fields_once (i : item) {struct i} : bool :=
  match i with
  | IObj _ _ fs =>
      fids_nd (map fst fs) &&
      (fix go (fs : list (fid * fval)) : bool :=
         match fs with [] => true | (_, v) :: r => fields_once_fval v && go r end) fs
  | IItems _ (Some l) =>
      (fix go (l : list item) : bool := match l with [] => true | x :: r => fields_once x && go r end) l
  | _ => true
  end
with fields_once_fval (v : fval) {struct v} : bool :=
  match v with
  | FItem i => fields_once i
  | FItems (Some l) =>
      (fix go (l : list item) : bool := match l with [] => true | x :: r => fields_once x && go r end) l
  | FEndpoints (Some e) =>
      fids_nd (map fst e) &&
      (fix go (e : list (fid * item)) : bool := match e with [] => true | (_, x) :: r => fields_once x && go r end) e
  | _ => true
  end.

(* every nil-like entry erased: properties unset, list members removed *)
Definition erase (x : item) : item := dropn (scrub x).
(* the side condition of the round-trip theorem, on the value itself *)
Definition nil_lists_ok (x : item) : bool := lists_ok (scrub x).

(* ---- the other items that are written as nothing: the empty IRI and the nil IRI "-", the nil and the empty list, the nil
   IRI list (IsNil, or JSONWriteItemCollectionValue on an empty list) - in an ITEM position, a list-member position or an
   Endpoints entry.  blank x: each of them, at any depth, replaced by a typed nil pointer; erase_all erases them with
   the typed nil pointers.  NOT touched: an empty list in an ItemCollection-typed property (`to`, `items`, ...: FItems),
   which C20's erasure relation keeps. *)
Definition nothing (i : item) : bool :=
  match i with
  | ITNil _ => true
  | IIri _ _ => is_nil i
  | IItems _ None | IItems _ (Some []) => true
  | IIris false None => true
  | _ => false
  end.

Fixpoint blank (i : item) {struct i} : item :=
  match i with
  | INil => INil
  | ITNil k => ITNil KObject
  | IIri _ _ => if is_nil i then ITNil KObject else i
  | IObj p k fs =>
      IObj p k ((fix go (fs : list (fid * fval)) : list (fid * fval) :=
                   match fs with [] => [] | (f, v) :: r => (f, blank_fval v) :: go r end) fs)
  | IItems _ None | IItems _ (Some []) => ITNil KObject
  | IItems p (Some l) =>
      IItems p (Some ((fix go (l : list item) : list item := match l with [] => [] | x :: r => blank x :: go r end) l))
  | IIris false None => ITNil KObject
  | IIris _ _ => i
  end
with blank_fval (v : fval) {struct v} : fval :=
  match v with
  | FItem i => FItem (blank i)
  | FItems (Some l) =>
      FItems (Some ((fix go (l : list item) : list item := match l with [] => [] | x :: r => blank x :: go r end) l))
  | FEndpoints (Some e) =>
      FEndpoints (Some ((fix go (e : list (fid * item)) : list (fid * item) :=
                           match e with [] => [] | (f, x) :: r => (f, blank x) :: go r end) e))
  | _ => v
  end.
Fixpoint blank_fields (fs : list (fid * fval)) : list (fid * fval) :=
  match fs with [] => [] | (f, v) :: r => (f, blank_fval v) :: blank_fields r end.
Fixpoint blank_endp (e : list (fid * item)) : list (fid * item) :=
  match e with [] => [] | (f, x) :: r => (f, blank x) :: blank_endp r end.

Definition erase_all (x : item) : item := erase (blank x).
