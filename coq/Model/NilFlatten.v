(* C20, embedded part, the Flatten family: the vocabulary of the commutation theorems of Proofs/NilFlattenP.v
   (flatten (scrub x) = scrub (flatten x)).  Definitions only.
     - scrub_fields: `scrub` (Model/NilEmbed.v) on a field list: scrub (IObj p k fs) = IObj p k (scrub_fields fs);
     - nodupf: no struct inside the value, at any depth, binds a field twice (true of every rendering of a Go value:
       a struct has each field once; evaluated on every deep value by the harness, Cases_C20_deep_flatten). *)
From AP.Model Require Import Prelude Vocab NilEmbed.

Fixpoint scrub_fields (fs : list (fid * fval)) : list (fid * fval) :=
  match fs with
  | [] => []
  | (f, v) :: r => let v' := scrub_fval v in if holds_nil v' then scrub_fields r else (f, v') :: scrub_fields r
  end.

Fixpoint fids_nd (l : list fid) : bool :=
  match l with [] => true | x :: r => negb (existsb (fid_beq x) r) && fids_nd r end.

Fixpoint nodupf (i : item) {struct i} : bool :=
  match i with
  | IObj _ _ fs =>
      fids_nd (map fst fs) &&
      (fix go (fs : list (fid * fval)) : bool :=
         match fs with [] => true | (_, v) :: r => nodupf_fval v && go r end) fs
  | IItems _ (Some l) =>
      (fix go (l : list item) : bool := match l with [] => true | x :: r => nodupf x && go r end) l
  | _ => true
  end
with nodupf_fval (v : fval) {struct v} : bool :=
  match v with
  | FItem i => nodupf i
  | FItems (Some l) =>
      (fix go (l : list item) : bool := match l with [] => true | x :: r => nodupf x && go r end) l
  | FEndpoints (Some e) =>
      (fix go (e : list (fid * item)) : bool := match e with [] => true | (_, x) :: r => nodupf x && go r end) e
  | _ => true
  end.

Definition nodupf_fields (fs : list (fid * fval)) : bool :=
  fids_nd (map fst fs) && forallb (fun fv => nodupf_fval (snd fv)) fs.

