(* C20: what every item-taking helper does with the nil item and with a typed nil pointer.
   The To* / On* rows are computed from the generated conversion tables (Gen/Conv.v); the other rows are
   the guards found in the code (IsNil / == nil pre-checks). *)
From AP.Model Require Import Prelude Vocab Bytes Pred Layout Views Conv.

Inductive nil_class := NNeutral | NError | NPanic | NNonNeutral.
Inductive nil_cb := CbNone | CbNilPtr | CbNonNil.
Record nil_out := mk_nil_out { no_class : nil_class; no_cb : nil_cb }.

Definition nil_out_eqb (a b : nil_out) : bool :=
  match no_class a, no_class b with
  | NNeutral, NNeutral | NError, NError | NPanic, NPanic | NNonNeutral, NNonNeutral => true
  | _, _ => false
  end &&
  match no_cb a, no_cb b with
  | CbNone, CbNone | CbNilPtr, CbNilPtr | CbNonNil, CbNonNil => true
  | _, _ => false
  end.

Definition nil_like (i : item) : bool := match i with INil | ITNil _ => true | _ => false end.

Section NilMatrix.
  Variable conv_tables : list (bytes * list conv_case * conv_action).

  Definition table_of (fn : bytes) : option (list conv_case * conv_action) :=
    match find (fun t => bytes_eqb (fst (fst t)) fn) conv_tables with
    | Some t => Some (snd (fst t), snd t)
    | None => None
    end.

  (* layouts are irrelevant for nil-like inputs (no field is read); any layout function will do *)
  Definition to_class (fn : bytes) (n : item) : nil_class :=
    match table_of fn with
    | None => NNonNeutral
    | Some (tbl, dflt) =>
        match conv_item (fun _ => []) (fun _ => 0) [] tbl dflt KObject n with
        | CRNil | CRNilPtr => NNeutral
        | CRErr => NError
        | CRPanic => NPanic
        | _ => NNonNeutral
        end
    end.

  (* OnX: `if it == nil { return nil }`, then ToX, then fn(ptr) *)
  Definition on_out (tofn : bytes) (n : item) : nil_out :=
    match n with
    | INil => mk_nil_out NNeutral CbNone
    | _ => match to_class tofn n with
           | NNeutral => mk_nil_out NNeutral CbNilPtr
           | c => mk_nil_out c CbNone
           end
    end.

  Definition on_helpers : list (bytes * bytes) :=
    [ (B "OnObject", B "ToObject"); (B "OnActivity", B "ToActivity");
      (B "OnIntransitiveActivity", B "ToIntransitiveActivity"); (B "OnQuestion", B "ToQuestion");
      (B "OnActor", B "ToActor"); (B "OnCollection", B "ToCollection");
      (B "OnCollectionPage", B "ToCollectionPage"); (B "OnOrderedCollection", B "ToOrderedCollection");
      (B "OnOrderedCollectionPage", B "ToOrderedCollectionPage"); (B "OnPlace", B "ToPlace");
      (B "OnProfile", B "ToProfile"); (B "OnRelationship", B "ToRelationship");
      (B "OnTombstone", B "ToTombstone"); (B "OnLink", B "ToLink") ].

  Definition nil_matrix (h : bytes) (n : item) : nil_out :=
    match find (fun p => bytes_eqb (fst p) h) on_helpers with
    | Some p => on_out (snd p) n
    | None =>
        if is_prefix (B "To") h then
          (* ToItemCollection / ToIRIs: IsNil pre-check resp. reflection fallback: (nil, nil) *)
          if bytes_eqb h (B "ToItemCollection") || bytes_eqb h (B "ToIRIs") then mk_nil_out NNeutral CbNone
          else mk_nil_out (to_class h n) CbNone
        else if bytes_eqb h (B "OnItemCollection") || bytes_eqb h (B "OnIRIs") then
          (* it == nil guard, then To* gives (nil, nil), then fn(nil) *)
          match n with INil => mk_nil_out NNeutral CbNone | _ => mk_nil_out NNeutral CbNilPtr end
        else if bytes_eqb h (B "OnItem") then
          (* it == nil guard; otherwise fn(it) with the nil pointer itself *)
          match n with INil => mk_nil_out NNeutral CbNone | _ => mk_nil_out NNeutral CbNilPtr end
        else if bytes_eqb h (B "CopyItemProperties(x,obj)") || bytes_eqb h (B "CopyItemProperties(obj,x)") then
          mk_nil_out NError CbNone
        else mk_nil_out NNeutral CbNone          (* IsNil-guarded helpers: neutral result, no callback *)
    end.
End NilMatrix.
