(* natural_language_values.go: Get Set Add Append Count First Equals on NaturalLanguageValues,
   as functions on lists of (Ref, Value). *)
From AP.Model Require Import Prelude.

Definition lrv := (bytes * bytes)%type.
Definition nl := list lrv.

Definition tag_is (t : bytes) (e : lrv) : bool := bytes_eqb (fst e) t.

(* Get: value of the first entry whose Ref equals ref; None models the nil result *)
Fixpoint nl_get (l : nl) (t : bytes) : option bytes :=
  match l with
  | [] => None
  | e :: r => if tag_is t e then Some (snd e) else nl_get r t
  end.

(* Append / Add *)
Definition nl_append (l : nl) (t v : bytes) : nl := l ++ [(t, v)].

(* Set: overwrite every entry carrying the tag; append when there is none *)
Fixpoint nl_set_all (l : nl) (t v : bytes) : nl :=
  match l with
  | [] => []
  | e :: r => (if tag_is t e then (t, v) else e) :: nl_set_all r t v
  end.
Definition nl_set (l : nl) (t v : bytes) : nl :=
  if existsb (tag_is t) l then nl_set_all l t v else nl_append l t v.

Definition nl_count (l : nl) : nat := length l.
Definition nl_first (l : nl) : lrv := match l with [] => ([], []) | e :: _ => e end.

(* LangRefValue.Equals: Ref == and bytes.Equal on Value *)
Definition lrv_eqb (a b : lrv) : bool := bytes_eqb (fst a) (fst b) && bytes_eqb (snd a) (snd b).

(* NaturalLanguageValues.Equals: same count, and every entry of [w] occurs in [n] *)
Definition nl_equals (n w : nl) : bool :=
  Nat.eqb (length n) (length w) && forallb (fun wv => existsb (fun nv => lrv_eqb nv wv) n) w.

(* the comparison loop as found in the pinned tree (kept for the refutation witness):
   every entry of [w] must equal every entry of [n] *)
Definition nl_equals_pinned (n w : nl) : bool :=
  Nat.eqb (length n) (length w) && forallb (fun wv => forallb (fun nv => lrv_eqb nv wv) n) w.

(* histories.  OCount / OFirst: the observers Count() and First() issued at that point of the history; they leave
   the state as it is and their answers are part of the trace *)
Inductive nop :=
| OSet (t v : bytes) | OAppend (t v : bytes) | OAdd (t v : bytes) | OGet (t : bytes) | OCount | OFirst.

Definition nl_step (l : nl) (o : nop) : nl :=
  match o with
  | OSet t v => nl_set l t v
  | OAppend t v | OAdd t v => nl_append l t v
  | OGet _ | OCount | OFirst => l
  end.

(* what a call answers: the text (or nil) of a Get, the number of a Count, the entry of a First *)
Inductive nobs := AGet (a : option bytes) | ACount (n : nat) | AFirst (e : lrv).

Definition nobs_eqb (a b : nobs) : bool :=
  match a, b with
  | AGet (Some x), AGet (Some y) => bytes_eqb x y
  | AGet None, AGet None => true
  | ACount x, ACount y => Nat.eqb x y
  | AFirst x, AFirst y => lrv_eqb x y
  | _, _ => false
  end.

(* the answer of the operation [o] issued in state [l] (the mutators answer nothing that is recorded) *)
Definition nl_obs (l : nl) (o : nop) : list nobs :=
  match o with
  | OGet t => [AGet (nl_get l t)]
  | OCount => [ACount (nl_count l)]
  | OFirst => [AFirst (nl_first l)]
  | _ => []
  end.

(* the observable trace of a history: the answer of every Get, Count and First, in order *)
Fixpoint nl_run (l : nl) (ops : list nop) : nl * list nobs :=
  match ops with
  | [] => (l, [])
  | o :: r =>
      let out := nl_obs l o in
      let '(l', outs) := nl_run (nl_step l o) r in (l', out ++ outs)
  end.

Definition nodup_tags (l : nl) : Prop := NoDup (map fst l).
Fixpoint nodup_tagsb (l : nl) : bool :=
  match l with
  | [] => true
  | e :: r => negb (existsb (tag_is (fst e)) r) && nodup_tagsb r
  end.
