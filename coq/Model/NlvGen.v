(* The NaturalLanguageValues table as regenerated from the source on this run, and what a source change does to it. *)
From AP.Model Require Import Prelude Vocab Layout Nlv GoBody NlvTab.
Require AP.Gen.NlvT.

Definition gen_nlv_fns : list (gfn gname) := AP.Gen.NlvT.nlv_fns.

(* Set without `if !found { n.Append(ref, v) }`: the third top-level statement removed *)
Definition nlv_fns_set_never_appends : list (gfn gname) := replace_body n_nlv_set (drop_nth 2) gen_nlv_fns.

(* Get answering with the tag instead of the text: `return val.Ref` *)
Definition ret_ref (s : gstmt gname) : gstmt gname :=
  match s with
  | GsRange k v c (GsSeq (GsIf cond (GsSeq (GsReturn (GxsCons (GxField e _ _) GxsNil)) r1) e1) r2) =>
      GsRange k v c (GsSeq (GsIf cond (GsSeq (GsReturn (GxsCons (GxField e F_Ref TString) GxsNil)) r1) e1) r2)
  | other => other
  end.
Definition nlv_fns_get_returns_tag : list (gfn gname) := replace_body n_nlv_get (map_nth 0 ret_ref) gen_nlv_fns.
