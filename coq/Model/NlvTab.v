(* natural_language_values.go as a TABLE: Get / Set / Add / Append / Count / First of NaturalLanguageValues and
   LangRefValue.Equals.

   Gen/NlvT.v (regenerated from the source on every run by translator/gobody.go) holds their bodies statement by
   statement in the language of Model/GoBody.v.  This file: the names, the call environment that closes them over each
   other (Set calls Append; Content.Equals = bytes.Equal is the one leaf), the statement sequences the functions of
   Model/Nlv.v were written after ([nlv_model_fns]) and the decidable table condition [nlv_table_ok].  Definitions only.
   Proofs/NlvTabP.v proves, for every table satisfying the condition and all arguments, interpreter = Model/Nlv.v.
   NaturalLanguageValues.Equals is in Gen/ItemsEqT.v (Model/ItemsEqTab.v: sem_nlv_equals, C09_nlv_equals_table_tie). *)
From AP.Model Require Import Prelude Vocab Layout Nlv GoBody.

Definition n_nlv_get := B "NaturalLanguageValues.Get".
Definition n_nlv_set := B "*NaturalLanguageValues.Set".
Definition n_nlv_add := B "*NaturalLanguageValues.Add".
Definition n_nlv_append := B "*NaturalLanguageValues.Append".
Definition n_nlv_count := B "*NaturalLanguageValues.Count".
Definition n_nlv_first := B "NaturalLanguageValues.First".
Definition n_lrv_equals := B "LangRefValue.Equals".
Definition n_content_equals := B "Content.Equals".

(* ------------------------------------------------------------------ what the calls mean *)
(* the leaf: Content.Equals(other) = bytes.Equal (a nil Content equals an empty one) *)
Definition nlv_leaf_method (m : bytes) (r : gval) (args : list gval) : option (outcome (list gval * option gval)) :=
  if bytes_eqb m n_content_equals
  then match as_bytes r, args with
       | Some a, [x] => match as_bytes x with
                        | Some b => Some (Ok ([GvBool (bytes_eqb a b)], None))
                        | None => None
                        end
       | _, _ => None
       end
  else None.
Definition nlv_leaf : genv := mkgenv (fun _ _ => None) nlv_leaf_method.

(* Append, as the table says, for Set's call of it: the receiver is handed back *)
Definition nlv_method (tbl : list (gfn gname)) (m : bytes) (r : gval) (args : list gval)
  : option (outcome (list gval * option gval)) :=
  if bytes_eqb m n_nlv_append then Some (run_named nlv_leaf tbl n_nlv_append (Some r) args)
  else nlv_leaf_method m r args.
Definition nlv_env (tbl : list (gfn gname)) : genv := mkgenv (fun _ _ => None) (nlv_method tbl).

(* a pointer to a list (the receiver of the pointer methods); None = the nil pointer *)
Definition pnl (l : nl) : gval := GvPtr OSame (Some (GvNl l)).
Definition pnl_nil : gval := GvPtr OSame None.

(* the seven functions as the table says them *)
Definition nlv_get_t (tbl : list (gfn gname)) (l : nl) (t : bytes) :=
  run_named (nlv_env tbl) tbl n_nlv_get (Some (GvNl l)) [GvBytes t].
Definition nlv_set_t (tbl : list (gfn gname)) (l : nl) (t v : bytes) :=
  run_named (nlv_env tbl) tbl n_nlv_set (Some (pnl l)) [GvBytes t; GvBytes v].
Definition nlv_add_t (tbl : list (gfn gname)) (l : nl) (e : lrv) :=
  run_named (nlv_env tbl) tbl n_nlv_add (Some (pnl l)) [GvLrv e].
Definition nlv_append_t (tbl : list (gfn gname)) (l : nl) (t v : bytes) :=
  run_named (nlv_env tbl) tbl n_nlv_append (Some (pnl l)) [GvBytes t; GvBytes v].
Definition nlv_count_t (tbl : list (gfn gname)) (p : gval) :=
  run_named (nlv_env tbl) tbl n_nlv_count (Some p) [].
Definition nlv_first_t (tbl : list (gfn gname)) (l : nl) :=
  run_named (nlv_env tbl) tbl n_nlv_first (Some (GvNl l)) [].
Definition lrv_equals_t (tbl : list (gfn gname)) (a b : lrv) :=
  run_named (nlv_env tbl) tbl n_lrv_equals (Some (GvLrv a)) [GvLrv b].

(* ------------------------------------------------------------------ the model's side of the condition *)
(* the statement sequences nl_get, nl_set (with nl_set_all), nl_append, nl_count, nl_first and lrv_eqb of Model/Nlv.v
   were written after.  Proofs/NlvTabP.v proves that, interpreted, they ARE those functions. *)
Local Notation gv x := (GxVar (B x)).
Definition t_content := TOther (B "Content").

Definition m_nlv_get : gfn gname := mkgfn n_nlv_get (Some (B "n")) [B "ref"] 1 (gblk [
  GsRange None (Some (B "val")) (gv "n") (gblk [
    GsIf (GxBin OpEq (GxField (gv "val") F_Ref TString) (gv "ref"))
         (gblk [GsReturn (gxs [GxField (gv "val") F_Value t_content])]) GsSkip]);
  GsReturn (gxs [GxNil])]).

Definition m_nlv_set : gfn gname := mkgfn n_nlv_set (Some (B "n")) [B "ref"; B "v"] 1 (gblk [
  GsDefine [B "found"] (GxBool false);
  GsRange (Some (B "k")) (Some (B "vv")) (GxDeref (gv "n")) (gblk [
    GsIf (GxBin OpEq (GxField (gv "vv") F_Ref TString) (gv "ref"))
         (gblk [GsAssign (GlIndex (GlDeref (GlVar (B "n"))) (gv "k")) (GxComposite n_lrv (gxs [gv "ref"; gv "v"]));
                GsAssign (GlVar (B "found")) (GxBool true)]) GsSkip]);
  GsIf (GxNot (gv "found")) (gblk [GsExpr (GxMethod n_nlv_append (gv "n") (gxs [gv "ref"; gv "v"]))]) GsSkip;
  GsReturn (gxs [GxNil])]).

Definition m_nlv_add : gfn gname := mkgfn n_nlv_add (Some (B "n")) [B "ref"] 0 (gblk [
  GsAssign (GlDeref (GlVar (B "n"))) (GxAppend (GxDeref (gv "n")) (gxs [gv "ref"]))]).

Definition m_nlv_append : gfn gname := mkgfn n_nlv_append (Some (B "n")) [B "lang"; B "value"] 1 (gblk [
  GsAssign (GlDeref (GlVar (B "n")))
           (GxAppend (GxDeref (gv "n")) (gxs [GxComposite n_lrv (gxs [gv "lang"; gv "value"])]));
  GsReturn (gxs [GxNil])]).

Definition m_nlv_count : gfn gname := mkgfn n_nlv_count (Some (B "n")) [] 1 (gblk [
  GsIf (GxIsNil NcPtr (gv "n")) (gblk [GsReturn (gxs [GxInt 0])]) GsSkip;
  GsReturn (gxs [GxConv n_uint (GxLen (GxDeref (gv "n")))])]).

Definition m_nlv_first : gfn gname := mkgfn n_nlv_first (Some (B "n")) [] 1 (gblk [
  GsRange None (Some (B "v")) (gv "n") (gblk [GsReturn (gxs [gv "v"])]);
  GsReturn (gxs [GxComposite n_lrv (gxs [])])]).

Definition m_lrv_equals : gfn gname := mkgfn n_lrv_equals (Some (B "l")) [B "other"] 1 (gblk [
  GsReturn (gxs [GxBin OpAnd (GxBin OpEq (GxField (gv "l") F_Ref TString) (GxField (gv "other") F_Ref TString))
                             (GxMethod n_content_equals (GxField (gv "l") F_Value t_content)
                                       (gxs [GxField (gv "other") F_Value t_content]))])]).

Definition nlv_model_fns : list (gfn gname) := Eval vm_compute in
  [m_nlv_get; m_nlv_set; m_nlv_add; m_nlv_append; m_nlv_count; m_nlv_first; m_lrv_equals].

(* the table condition: each of the seven functions is there, once, with the body the model was written after *)
Definition nlv_table_ok (tbl : list (gfn gname)) : bool := body_table_ok nlv_model_fns tbl.
Definition nlv_first_bad (tbl : list (gfn gname)) := first_bad_body nlv_model_fns tbl.

(* ------------------------------------------------------------------ histories through the table *)
(* the state a pointer method leaves, the answer of a Get *)
Definition nl_state_of (o : outcome (list gval * option gval)) : outcome nl :=
  obind o (fun p => match snd p with Some (GvPtr _ (Some (GvNl l))) => Ok l | _ => Err end).
Definition nl_answer_of (o : outcome (list gval * option gval)) : outcome (option bytes) :=
  obind o (fun p => match fst p with [GvBytes v] => Ok (Some v) | [GvNil] => Ok None | _ => Err end).

(* the answer of a Count (a uint), of a First *)
Definition nl_count_of (o : outcome (list gval * option gval)) : outcome nat :=
  obind o (fun p => match fst p with [GvInt z] => if (z <? 0)%Z then Err else Ok (Z.to_nat z) | _ => Err end).
Definition nl_first_of (o : outcome (list gval * option gval)) : outcome lrv :=
  obind o (fun p => match fst p with [GvLrv e] => Ok e | _ => Err end).

(* Count has a pointer receiver: the state after it is the state ITS BODY leaves behind the pointer; Get and First have
   value receivers *)
Definition nl_step_t (tbl : list (gfn gname)) (l : nl) (o : nop) : outcome nl :=
  match o with
  | OSet t v => nl_state_of (nlv_set_t tbl l t v)
  | OAppend t v => nl_state_of (nlv_append_t tbl l t v)
  | OAdd t v => nl_state_of (nlv_add_t tbl l (t, v))
  | OCount => nl_state_of (nlv_count_t tbl (pnl l))
  | OGet _ | OFirst => Ok l
  end.

(* nl_obs of Model/Nlv.v with every call going through the table: the bodies of Get, Count and First *)
Definition nl_obs_t (tbl : list (gfn gname)) (l : nl) (o : nop) : outcome (list nobs) :=
  match o with
  | OGet t => obind (nl_answer_of (nlv_get_t tbl l t)) (fun a => Ok [AGet a])
  | OCount => obind (nl_count_of (nlv_count_t tbl (pnl l))) (fun n => Ok [ACount n])
  | OFirst => obind (nl_first_of (nlv_first_t tbl l)) (fun e => Ok [AFirst e])
  | _ => Ok []
  end.

(* nl_run of Model/Nlv.v with every call going through the table *)
Fixpoint nl_run_t (tbl : list (gfn gname)) (l : nl) (ops : list nop) : outcome (nl * list nobs) :=
  match ops with
  | [] => Ok (l, [])
  | o :: r =>
      obind (nl_obs_t tbl l o) (fun out =>
      obind (nl_step_t tbl l o) (fun l' =>
      obind (nl_run_t tbl l' r) (fun p => Ok (fst p, out ++ snd p))))
  end.
