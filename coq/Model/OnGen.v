(* The On.. table as regenerated from the source on this run (Gen/OnT.v), the conversions as the generated
   conversion tables give them (Gen/Conv.v over Gen/Layout.v), and sample values for the examples of Props/C20.v.
   Definitions only. *)
From AP.Model Require Import Prelude Bytes Vocab Pred Layout Views Conv OnTab.
Require AP.Gen.Layout AP.Gen.Conv AP.Gen.OnT.

Definition gen_on_fns : list ofn := AP.Gen.OnT.on_fns.
Definition pinned_on_fns : list ofn := pinned_of gen_on_fns.

Definition gen_conv : bytes -> option (item -> conv_result) :=
  conv_of_tables AP.Gen.Layout.layout_of AP.Gen.Layout.sizeof_kind AP.Gen.Conv.reflect_convertible AP.Gen.Conv.conv_tables.

(* a callback that never returns an error *)
Definition cb_ok : otrace -> oval -> bool := fun _ _ => false.
(* ... and one that does at its second call *)
Definition cb_err_at_2 : otrace -> oval -> bool := fun tr _ => Nat.eqb (length tr) 1.

Definition t_object : bool * kind := (false, KObject).
Definition t_object_ptr : bool * kind := (true, KObject).

Definition on_gen (targ : bool * kind) (cb : otrace -> oval -> bool) (name : bytes) (i : item) :=
  run_on gen_conv targ cb gen_on_fns (on_fuel i) name i.
Definition on_pinned (targ : bool * kind) (cb : otrace -> oval -> bool) (name : bytes) (i : item) :=
  run_on gen_conv targ cb pinned_on_fns (on_fuel i) name i.

(* the witness of the repaired defect: a list whose only member is a typed nil pointer *)
Definition on_witness : item := IItems false (Some [ITNil KObject]).

Definition og_obj (id : string) : item := IObj true KObject [(F_ID, FStr (B id))].
Definition og_actor (id : string) : item := IObj true KActor [(F_ID, FStr (B id)); (F_Type, FStr (B "Person"))].
Definition og_link : item := IObj true KLink [(F_Href, FStr (B "https://example.com/l"))].
(* nil-like members of every sort, a link, a nested list, a nested list of IRIs that are nil *)
Definition og_list : item :=
  IItems false (Some [ITNil KObject; og_obj "a"; INil; og_link; IIri false (B "-");
                      IItems true (Some [og_actor "b"; ITNil KActor; IItems false None]);
                      IIris false (Some [B ""; B "-"]); og_obj "c"]).

(* what a changed source does to the table: the IsNil guard of one loop dropped *)
Definition drop_nil_guard (name : bytes) (tbl : list ofn) : list ofn :=
  with_guards (fun n => if bytes_eqb n name
                        then match find (fun h => bytes_eqb (fst h) n) list_helpers with
                             | Some h => match struct_matches tbl h with
                                         | Some GNilOrLink | Some GLinkOrNil => GLinkOnly
                                         | Some GNilOnly => GNone
                                         | Some g => g
                                         | None => GNone
                                         end
                             | None => GNone
                             end
                        else match find (fun h => bytes_eqb (fst h) n) list_helpers with
                             | Some h => match struct_matches tbl h with Some g => g | None => GNone end
                             | None => match generic_matches tbl with Some g => g | None => GNone end
                             end) tbl.
