(* The On.. helpers as TABLES: what On / OnObject / OnActivity / OnIntransitiveActivity / OnQuestion / OnActor do
   with a LIST, and what every other On<X> does with one item.

   Gen/OnT.v (regenerated from the source on every run by translator/onloops.go) holds the bodies of every
   package-level function of the package whose name is On or On<X>, statement by statement, in the small language
   defined here: nil tests tagged with what is compared (interface / pointer / error: go/types), || && !, calls of
   package functions under their names (a generic one with its type arguments: "To[T]"), calls through a variable
   of function type (the callback), function literals (closures capture their environment), `v, err := f(x)`,
   `if v := f(x); cond { .. }`, `for _, v := range *p { .. }`, continue, return.  Blocks are in continuation form
   (every statement carries the statements after it), so that scopes are lexical: the loop variable `it` of the
   function literal shadows the parameter `it` exactly as in the source.  A Go statement or expression outside the
   language is an explicit OsUnrec / OxUnrec entry carrying its source text and position - never dropped.

   This file: the language; its interpreter ([ev] / [exec] / [apply_at]: what a table MEANS, whatever it says) over
   the model's items, with the caller's callback as a parameter and the TRACE of what the callback was handed as
   part of the result; the leaves (IsNil / IsLink / IsItemCollection of Model/Pred.v - tied to THEIR generated
   bodies by Props/C20.v, block "primitive predicates" -, the To<X> conversions through the generated conversion
   tables of Gen/Conv.v, ToItemCollection, the generic To[T]); the templates the hand-written descriptions were
   written after and the decidable table condition [on_table_ok] with its diagnosis; the specification [visit]:
   the walk over a list, nested lists included, that hands the callback the members that are not nil (IsNil:
   untyped nil, typed nil pointers, empty and "-" IRIs, nil lists) and not skipped as links, in order, and stops at
   the first member that cannot be converted or for which the callback returns an error.  Definitions only.
   Proofs/OnTabP.v proves, for every table satisfying the condition, every instantiation, every conversion table,
   every callback and all items: interpreter = specification; and that the specification never hands a nil
   pointer to the callback for a member of a list. *)
From AP.Model Require Import Prelude Bytes Vocab Pred Layout Views Conv Dispatch TabEq.

(* ------------------------------------------------------------------ the language (what the translator emits) *)
Inductive onil := OnIface | OnPtr | OnErr.          (* what `x == nil` compares, by the static type of x *)

Inductive oexp :=
| OxVar (v : bytes)
| OxNil
| OxIsNil (c : onil) (e : oexp)                     (* e == nil; != is emitted as OxNot *)
| OxNot (e : oexp)
| OxOr (a b : oexp)                                 (* short-circuit *)
| OxAnd (a b : oexp)
| OxDeref (e : oexp)
| OxCall (f : bytes) (args : oexps)                 (* a package-level function of the package *)
| OxCallVar (v : bytes) (args : oexps)              (* a call through a variable of function type *)
| OxFunc (params : list bytes) (body : ostmt)       (* func(params) error { body } *)
| OxUnrec (src pos : bytes)
with oexps := OxsNil | OxsCons (e : oexp) (r : oexps)
with ostmt :=
| OsEnd                                             (* the end of a block *)
| OsReturn (es : oexps)
| OsContinue
| OsIf (c : oexp) (t rest : ostmt)                  (* if c { t }; rest *)
| OsIfInit (vs : list bytes) (e c : oexp) (t rest : ostmt)   (* if vs := e; c { t }; rest *)
| OsDefine (vs : list bytes) (e : oexp) (rest : ostmt)       (* vs := e; rest *)
| OsRange (v : bytes) (coll : oexp) (body rest : ostmt)      (* for _, v := range coll { body }; rest *)
| OsUnrec (src pos : bytes).

Record ofn := mkofn { on_name : bytes; on_params : list bytes; on_body : ostmt }.

Fixpoint oxs (l : list oexp) : oexps := match l with [] => OxsNil | e :: r => OxsCons e (oxs r) end.

(* ------------------------------------------------------------------ values *)
Inductive oval :=
| OvItem (i : item)                  (* an Item; a pointer to a struct of the vocabulary is an item as well *)
| OvNil                              (* nil: the nil error, a nil pointer to a list *)
| OvErr                              (* an error that is not nil *)
| OvBool (b : bool)
| OvItems (l : option (list item))   (* an ItemCollection value; None = the nil slice *)
| OvColPtr (l : option (list item))  (* a pointer to an ItemCollection that is not nil, with what it points to *)
| OvAddr (v : oval)                  (* the address of a local variable holding v: never nil *)
| OvOpaque                           (* a pointer that is not nil and of which the model says nothing else *)
| OvFn (name : bytes)                (* a function of the table *)
| OvClos (params : list bytes) (body : ostmt) (en : list (bytes * oval))
| OvCb.                              (* the caller's callback *)

Definition oenv := list (bytes * oval).

Fixpoint olookup (v : bytes) (en : oenv) : option oval :=
  match en with
  | [] => None
  | (k, x) :: r => if bytes_eqb v k then Some x else olookup v r
  end.

Definition blank_name : bytes := B "_".
Fixpoint obind_vars (vs : list bytes) (xs : list oval) (en : oenv) : option oenv :=
  match vs, xs with
  | [], [] => Some en
  | v :: vs', x :: xs' => obind_vars vs' xs' (if bytes_eqb v blank_name then en else (v, x) :: en)
  | _, _ => None
  end.

Definition olst {A} (o : option (list A)) : list A := match o with Some l => l | None => [] end.

(* is the callback argument a nil pointer (or the address of a variable that holds one) *)
Definition arg_is_nil (v : oval) : bool :=
  match v with
  | OvNil | OvItem INil | OvItem (ITNil _) => true
  | OvAddr (OvItem (INil | ITNil _)) | OvAddr OvNil => true
  | _ => false
  end.

Definition is_nil_val (c : onil) (v : oval) : option bool :=
  match c, v with
  | OnIface, OvItem i => Some (match i with INil => true | _ => false end)     (* the untyped nil only *)
  | OnIface, OvNil => Some true
  | OnPtr, OvNil => Some true
  | OnPtr, OvItem (ITNil _) => Some true
  | OnPtr, OvItem (IObj true _ _) => Some false
  | OnPtr, (OvColPtr _ | OvAddr _ | OvOpaque) => Some false
  | OnErr, OvNil => Some true
  | OnErr, OvErr => Some false
  | _, _ => None
  end.

(* ------------------------------------------------------------------ results: the trace of the callback and an outcome *)
Definition otrace := list oval.
Definition OM (A : Type) := otrace -> otrace * outcome A.
Definition oret {A} (x : A) : OM A := fun tr => (tr, Ok x).
Definition ofail {A} (o : outcome A) : OM A := fun tr => (tr, o).
Definition obnd {A B} (m : OM A) (f : A -> OM B) : OM B :=
  fun tr => match m tr with
            | (tr', Ok x) => f x tr'
            | (tr', Err) => (tr', Err)
            | (tr', Panic p) => (tr', Panic p)
            | (tr', OutOfFuel) => (tr', OutOfFuel)
            end.

Inductive osig := SgFall | SgContinue | SgRet (vs : list oval).

Fixpoint ofor (step : item -> OM osig) (l : list item) : OM osig :=
  match l with
  | [] => oret SgFall
  | x :: r => obnd (step x) (fun g => match g with
                                       | SgFall | SgContinue => ofor step r
                                       | SgRet vs => oret (SgRet vs)
                                       end)
  end.

(* ------------------------------------------------------------------ the leaves *)
(* ToItemCollection on an item that is not nil: the list a pointer to which is handed back *)
Definition coll_items_field (k : kind) : option fid :=
  match k with
  | KCollection | KCollectionPage => Some F_Items
  | KOrdered | KOrderedPage => Some F_OrderedItems
  | _ => None
  end.
Definition items_view (i : item) : option (option (list item)) :=
  match i with
  | IItems _ lo => Some lo
  | IIris _ lo => Some (Some (map (IIri false) (olst lo)))          (* a fresh list of the same length *)
  | IObj true k fs => match coll_items_field k with Some f => Some (get_items f fs) | None => None end
  | _ => None
  end.

Definition to_target (f : bytes) : option kind :=
  match f with
  | x54 :: x6f :: r => kind_named r
  | _ => None
  end.

Definition n_IsNil := B "IsNil".
Definition n_IsLink := B "IsLink".
Definition n_IsItemCollection := B "IsItemCollection".
Definition n_ToItemCollection := B "ToItemCollection".
Definition n_ToT := B "To[T]".
Definition fixed_leaves : list bytes := [n_IsNil; n_IsLink; n_IsItemCollection; n_ToItemCollection; n_ToT].
Definition is_leaf_name (f : bytes) : bool :=
  existsb (bytes_eqb f) fixed_leaves || match to_target f with Some _ => true | None => false end.

(* the Go type a type parameter stands for: (pointer?, struct kind) *)
Definition has_go_type (t : bool * kind) (i : item) : bool :=
  match i with
  | ITNil k => fst t && kind_beq k (snd t)
  | IObj p k _ => Bool.eqb p (fst t) && kind_beq k (snd t)
  | _ => false
  end.

Section Interp.
  Variable conv : bytes -> option (item -> conv_result).   (* To<X>, from the conversion tables *)
  Variable targ : bool * kind.                             (* what T is in On[T] / To[T] *)
  Variable cb : otrace -> oval -> bool.                    (* the callback: handed this after those, does it return an error *)
  Variable tbl : list ofn.

  (* (pointer, error) of To<X>(i) *)
  Definition conv_out (d : kind) (r : conv_result) : outcome (list oval) :=
    match r with
    | CRNil | CRNilPtr => Ok [OvItem (ITNil d); OvNil]
    | CRErr => Ok [OvItem (ITNil d); OvErr]
    | CRPanic => Panic NilDeref
    | CRView _ v => Ok [OvItem v; OvNil]
    | CRBroken | CRUnmodelled => Ok [OvOpaque; OvNil]
    end.

  Definition leaf (f : bytes) (args : list oval) : outcome (list oval) :=
    match args with
    | [OvItem i] =>
        if bytes_eqb f n_IsNil then Ok [OvBool (is_nil i)]
        else if bytes_eqb f n_IsLink then Ok [OvBool (is_link i)]
        else if bytes_eqb f n_IsItemCollection then Ok [OvBool (is_item_collection i)]
        else if bytes_eqb f n_ToItemCollection then
          (if is_nil i then Ok [OvNil; OvNil]
           else match items_view i with Some lo => Ok [OvColPtr lo; OvNil] | None => Ok [OvNil; OvErr] end)
        else if bytes_eqb f n_ToT then
          (if has_go_type targ i then Ok [OvAddr (OvItem i); OvNil] else Ok [OvNil; OvErr])
        else match to_target f, conv f with
             | Some d, Some c => conv_out d (c i)
             | _, _ => Err
             end
    | _ => Err
    end.

  Definition run_cb (a : oval) : OM (list oval) :=
    fun tr => (tr ++ [a], Ok [if cb tr a then OvErr else OvNil]).

  Definition one (vs : list oval) : OM oval := match vs with [x] => oret x | _ => ofail Err end.
  Definition as_b (v : oval) : OM bool := match v with OvBool b => oret b | _ => ofail Err end.
  Definition ret_of (g : osig) : OM (list oval) := match g with SgRet vs => oret vs | _ => ofail Err end.

  Section Step.
    Variable apply : oval -> list oval -> OM (list oval).    (* a call of a table function or a closure *)

    Definition do_call (f : bytes) (vs : list oval) : OM (list oval) :=
      if is_leaf_name f then ofail (leaf f vs) else apply (OvFn f) vs.
    Definition do_callvar (fv : oval) (vs : list oval) : OM (list oval) :=
      match fv with
      | OvCb => match vs with [a] => run_cb a | _ => ofail Err end
      | _ => apply fv vs
      end.

    Fixpoint ev (en : oenv) (e : oexp) {struct e} : OM oval :=
      match e with
      | OxVar v => match olookup v en with Some x => oret x | None => ofail Err end
      | OxNil => oret OvNil
      | OxIsNil c e => obnd (ev en e) (fun v => match is_nil_val c v with Some b => oret (OvBool b) | None => ofail Err end)
      | OxNot e => obnd (ev en e) (fun v => obnd (as_b v) (fun b => oret (OvBool (negb b))))
      | OxOr a b => obnd (ev en a) (fun v => obnd (as_b v) (fun x =>
                      if x then oret (OvBool true) else obnd (ev en b) (fun w => obnd (as_b w) (fun y => oret (OvBool y)))))
      | OxAnd a b => obnd (ev en a) (fun v => obnd (as_b v) (fun x =>
                      if x then obnd (ev en b) (fun w => obnd (as_b w) (fun y => oret (OvBool y))) else oret (OvBool false)))
      | OxDeref e => obnd (ev en e) (fun v => match v with
                                              | OvColPtr lo => oret (OvItems lo)
                                              | OvAddr x => oret x
                                              | OvNil | OvItem (ITNil _) => ofail (Panic NilDeref)
                                              | _ => ofail Err
                                              end)
      | OxCall f args => obnd (evs en args) (fun vs => obnd (do_call f vs) one)
      | OxCallVar v args =>
          match olookup v en with
          | Some fv => obnd (evs en args) (fun vs => obnd (do_callvar fv vs) one)
          | None => ofail Err
          end
      | OxFunc ps body => oret (OvClos ps body en)
      | OxUnrec _ _ => ofail Err
      end
    with evs (en : oenv) (es : oexps) {struct es} : OM (list oval) :=
      match es with
      | OxsNil => oret []
      | OxsCons e r => obnd (ev en e) (fun v => obnd (evs en r) (fun vs => oret (v :: vs)))
      end.

    (* where several values are wanted: a call hands back all its results *)
    Definition ev_multi (en : oenv) (e : oexp) : OM (list oval) :=
      match e with
      | OxCall f args => obnd (evs en args) (do_call f)
      | OxCallVar v args =>
          match olookup v en with
          | Some fv => obnd (evs en args) (do_callvar fv)
          | None => ofail Err
          end
      | _ => obnd (ev en e) (fun x => oret [x])
      end.

    Definition ev_bool (en : oenv) (e : oexp) : OM bool := obnd (ev en e) as_b.

    Definition then_rest (m : OM osig) (k : OM osig) : OM osig :=
      obnd m (fun g => match g with SgFall => k | other => oret other end).

    Fixpoint exec (en : oenv) (s : ostmt) {struct s} : OM osig :=
      match s with
      | OsEnd => oret SgFall
      | OsReturn es =>
          match es with
          | OxsCons e OxsNil => obnd (ev_multi en e) (fun vs => oret (SgRet vs))
          | _ => obnd (evs en es) (fun vs => oret (SgRet vs))
          end
      | OsContinue => oret SgContinue
      | OsIf c t rest =>
          obnd (ev_bool en c) (fun b => if b then then_rest (exec en t) (exec en rest) else exec en rest)
      | OsIfInit vs e c t rest =>
          obnd (ev_multi en e) (fun xs =>
            match obind_vars vs xs en with
            | Some en' => obnd (ev_bool en' c) (fun b => if b then then_rest (exec en' t) (exec en rest) else exec en rest)
            | None => ofail Err
            end)
      | OsDefine vs e rest =>
          obnd (ev_multi en e) (fun xs => match obind_vars vs xs en with Some en' => exec en' rest | None => ofail Err end)
      | OsRange v coll body rest =>
          obnd (ev en coll) (fun cv =>
            match cv with
            | OvItems lo => then_rest (ofor (fun x => exec ((v, OvItem x) :: en) body) (olst lo)) (exec en rest)
            | _ => ofail Err
            end)
      | OsUnrec _ _ => ofail Err
      end.
  End Step.

  Definition ofn_named (n : bytes) : option ofn := find (fun f => bytes_eqb (on_name f) n) tbl.

  (* a call with fuel: a table function or a closure runs its body with one unit less *)
  Fixpoint apply_at (fuel : nat) (f : oval) (args : list oval) : OM (list oval) :=
    match fuel with
    | O => ofail OutOfFuel
    | S n =>
        match f with
        | OvClos ps body en =>
            match obind_vars ps args en with
            | Some en' => obnd (exec (apply_at n) en' body) ret_of
            | None => ofail Err
            end
        | OvFn name =>
            match ofn_named name with
            | Some g => match obind_vars (on_params g) args [] with
                        | Some en' => obnd (exec (apply_at n) en' (on_body g)) ret_of
                        | None => ofail Err
                        end
            | None => ofail Err
            end
        | _ => ofail Err
        end
    end.

  (* On<X>(i, callback), as the table says *)
  Definition run_on (fuel : nat) (name : bytes) (i : item) : otrace * outcome (list oval) :=
    apply_at fuel (OvFn name) [OvItem i; OvCb] [].
End Interp.

(* fuel that is enough for an item (Proofs/OnTabP.v: any larger amount gives the same result) *)
Definition on_fuel (i : item) : nat := 3 * item_size i + 3.

(* ------------------------------------------------------------------ the templates *)
Definition v_it := B "it".
Definition v_fn := B "fn".
Definition v_col := B "col".
Definition v_err := B "err".
Definition e_it := OxVar v_it.
Definition e_err := OxVar v_err.
Definition n_OnItemCollection := B "OnItemCollection".

Definition err_not_nil : oexp := OxNot (OxIsNil OnErr e_err).

(* v, err := to(it); if err != nil { return err }; return fn(v) *)
Definition convert_and_call (tofn v : bytes) : ostmt :=
  OsDefine [v; v_err] (OxCall tofn (oxs [e_it]))
    (OsIf err_not_nil (OsReturn (oxs [e_err]))
       (OsReturn (oxs [OxCallVar v_fn (oxs [OxVar v])]))).

(* the test at the head of the loop body: which members are passed over *)
Inductive loop_guard := GNilOnly | GNilOrLink | GLinkOrNil | GLinkOnly | GNone.
Definition e_is_nil : oexp := OxCall n_IsNil (oxs [e_it]).
Definition e_is_link : oexp := OxCall n_IsLink (oxs [e_it]).
Definition recurse (self : bytes) : ostmt :=
  OsIfInit [v_err] (OxCall self (oxs [e_it; OxVar v_fn])) err_not_nil (OsReturn (oxs [e_err])) OsEnd.
Definition loop_body (self : bytes) (g : loop_guard) : ostmt :=
  match g with
  | GNilOnly => OsIf e_is_nil OsContinue (recurse self)
  | GNilOrLink => OsIf (OxOr e_is_nil e_is_link) OsContinue (recurse self)
  | GLinkOrNil => OsIf (OxOr e_is_link e_is_nil) OsContinue (recurse self)
  | GLinkOnly => OsIf e_is_link OsContinue (recurse self)
  | GNone => recurse self
  end.

(* func(col *ItemCollection) error { if col == nil { return nil }; for _, it := range *col { .. }; return nil } *)
Definition list_closure (self : bytes) (g : loop_guard) : oexp :=
  OxFunc [v_col]
    (OsIf (OxIsNil OnPtr (OxVar v_col)) (OsReturn (oxs [OxNil]))
       (OsRange v_it (OxDeref (OxVar v_col)) (loop_body self g) (OsReturn (oxs [OxNil])))).

Definition walk_list (self : bytes) (g : loop_guard) : ostmt :=
  OsReturn (oxs [OxCall n_OnItemCollection (oxs [e_it; list_closure self g])]).

Definition nil_guard (rest : ostmt) : ostmt := OsIf (OxIsNil OnIface e_it) (OsReturn (oxs [OxNil])) rest.

(* OnObject, OnActivity, OnIntransitiveActivity, OnQuestion, OnActor *)
Definition struct_template (self tofn v : bytes) (g : loop_guard) : ofn :=
  mkofn self [v_it; v_fn]
    (nil_guard (OsIf (OxCall n_IsItemCollection (oxs [e_it])) (walk_list self g) (convert_and_call tofn v))).

(* On[T] *)
Definition n_OnT := B "On[T]".
Definition generic_template (v : bytes) (g : loop_guard) : ofn :=
  mkofn n_OnT [v_it; v_fn]
    (OsIf (OxNot (OxCall n_IsItemCollection (oxs [e_it]))) (convert_and_call n_ToT v) (walk_list n_OnT g)).

(* every other On<X>: if it == nil { return nil }; v, err := To<X>(it); if err != nil { return err }; return fn(v) *)
Definition plain_template (self tofn v : bytes) : ofn :=
  mkofn self [v_it; v_fn] (nil_guard (convert_and_call tofn v)).

(* ------------------------------------------------------------------ decidable equality of bodies *)
Definition onil_beq (a b : onil) : bool :=
  match a, b with OnIface, OnIface | OnPtr, OnPtr | OnErr, OnErr => true | _, _ => false end.

Fixpoint oexp_beq (a b : oexp) {struct a} : bool :=
  match a, b with
  | OxVar x, OxVar y => bytes_eqb x y
  | OxNil, OxNil => true
  | OxIsNil c x, OxIsNil d y => onil_beq c d && oexp_beq x y
  | OxNot x, OxNot y | OxDeref x, OxDeref y => oexp_beq x y
  | OxOr x1 x2, OxOr y1 y2 | OxAnd x1 x2, OxAnd y1 y2 => oexp_beq x1 y1 && oexp_beq x2 y2
  | OxCall f xs, OxCall g ys | OxCallVar f xs, OxCallVar g ys => bytes_eqb f g && oexps_beq xs ys
  | OxFunc ps x, OxFunc qs y => lbeq bytes_eqb ps qs && ostmt_beq x y
  | OxUnrec s p, OxUnrec s' p' => bytes_eqb s s' && bytes_eqb p p'
  | _, _ => false
  end
with oexps_beq (a b : oexps) {struct a} : bool :=
  match a, b with
  | OxsNil, OxsNil => true
  | OxsCons x r, OxsCons y q => oexp_beq x y && oexps_beq r q
  | _, _ => false
  end
with ostmt_beq (a b : ostmt) {struct a} : bool :=
  match a, b with
  | OsEnd, OsEnd | OsContinue, OsContinue => true
  | OsReturn xs, OsReturn ys => oexps_beq xs ys
  | OsIf c t r, OsIf c' t' r' => oexp_beq c c' && ostmt_beq t t' && ostmt_beq r r'
  | OsIfInit vs e c t r, OsIfInit vs' e' c' t' r' =>
      lbeq bytes_eqb vs vs' && oexp_beq e e' && oexp_beq c c' && ostmt_beq t t' && ostmt_beq r r'
  | OsDefine vs e r, OsDefine vs' e' r' => lbeq bytes_eqb vs vs' && oexp_beq e e' && ostmt_beq r r'
  | OsRange v c x r, OsRange v' c' x' r' => bytes_eqb v v' && oexp_beq c c' && ostmt_beq x x' && ostmt_beq r r'
  | OsUnrec s p, OsUnrec s' p' => bytes_eqb s s' && bytes_eqb p p'
  | _, _ => false
  end.

Definition ofn_beq (a b : ofn) : bool :=
  bytes_eqb (on_name a) (on_name b) && lbeq bytes_eqb (on_params a) (on_params b) && ostmt_beq (on_body a) (on_body b).

(* ------------------------------------------------------------------ the table condition *)
(* the helpers that walk lists, with the conversion each applies to a single item *)
Definition struct_helpers : list (bytes * bytes) :=
  [ (B "OnObject", B "ToObject"); (B "OnActivity", B "ToActivity");
    (B "OnIntransitiveActivity", B "ToIntransitiveActivity"); (B "OnQuestion", B "ToQuestion");
    (B "OnActor", B "ToActor") ].
(* three more helpers walk lists in the same way (place.go, profile.go, tombstone.go).  No function of the package
   hands them a list, and their loops were not touched by the repair: the condition asks for their shape only, the
   guard is read off the table (on the current tree: links only, links only, none - a typed nil member of a list
   reaches the callback as a nil pointer, which is inside the letter of the property: "at worst a nil pointer") *)
Definition other_list_helpers : list (bytes * bytes) :=
  [ (B "OnPlace", B "ToPlace"); (B "OnProfile", B "ToProfile"); (B "OnTombstone", B "ToTombstone") ].
Definition list_helpers : list (bytes * bytes) := struct_helpers ++ other_list_helpers.
(* ... and those that take one item *)
Definition plain_helpers : list (bytes * bytes) :=
  [ (n_OnItemCollection, n_ToItemCollection);
    (B "OnLink", B "ToLink"); (B "OnCollection", B "ToCollection"); (B "OnCollectionPage", B "ToCollectionPage");
    (B "OnOrderedCollection", B "ToOrderedCollection"); (B "OnOrderedCollectionPage", B "ToOrderedCollectionPage");
    (B "OnRelationship", B "ToRelationship") ].

(* read off a generated body: the name of the local that receives the converted pointer, the guard of the loop *)
Definition local_of (s : ostmt) : option bytes :=
  match s with OsDefine [v; _] _ _ => Some v | _ => None end.
Definition guard_of_closure (e : oexp) : option loop_guard :=
  match e with
  | OxFunc _ (OsIf _ _ (OsRange _ _ body _)) =>
      match body with
      | OsIf (OxOr (OxCall f _) _) _ _ => if bytes_eqb f n_IsNil then Some GNilOrLink else Some GLinkOrNil
      | OsIf (OxOr _ _) _ _ => Some GNilOrLink
      | OsIf (OxCall f _) _ _ => if bytes_eqb f n_IsNil then Some GNilOnly else Some GLinkOnly
      | _ => Some GNone
      end
  | _ => None
  end.
Definition guard_of_walk (s : ostmt) : option loop_guard :=
  match s with
  | OsReturn (OxsCons (OxCall _ (OxsCons _ (OxsCons c OxsNil))) OxsNil) => guard_of_closure c
  | _ => None
  end.

Definition struct_shape (f : ofn) : option (bytes * loop_guard) :=
  match on_body f with
  | OsIf _ _ (OsIf _ w conv) =>
      match local_of conv, guard_of_walk w with Some v, Some g => Some (v, g) | _, _ => None end
  | _ => None
  end.
Definition generic_shape (f : ofn) : option (bytes * loop_guard) :=
  match on_body f with
  | OsIf _ conv w =>
      match local_of conv, guard_of_walk w with Some v, Some g => Some (v, g) | _, _ => None end
  | _ => None
  end.
Definition plain_shape (f : ofn) : option bytes :=
  match on_body f with OsIf _ _ conv => local_of conv | _ => None end.

(* the local that receives the converted pointer: one of the names the source uses (it must not hide the callback or
   the error; a rename to another name fails the condition with the body shown, like any other change of shape) *)
Definition local_names : list bytes := [B "ob"; B "act"; B "col"].
Definition local_ok (v : bytes) : bool := existsb (bytes_eqb v) local_names.

(* does the loop pass over a member for which IsNil holds BEFORE converting it *)
Definition guard_skips_nil (g : loop_guard) : bool :=
  match g with GNilOnly | GNilOrLink | GLinkOrNil => true | _ => false end.
Definition guard_skips_links (g : loop_guard) : bool :=
  match g with GNilOrLink | GLinkOrNil | GLinkOnly => true | _ => false end.

Section Cond.
  Variable tbl : list ofn.
  Let named (n : bytes) : option ofn := find (fun f => bytes_eqb (on_name f) n) tbl.

  (* the shape of a list-walking helper, whatever its guard *)
  Definition struct_matches (h : bytes * bytes) : option loop_guard :=
    match named (fst h) with
    | Some f => match struct_shape f with
                | Some (v, g) => if ofn_beq f (struct_template (fst h) (snd h) v g) && local_ok v then Some g else None
                | None => None
                end
    | None => None
    end.
  Definition generic_matches : option loop_guard :=
    match named n_OnT with
    | Some f => match generic_shape f with
                | Some (v, g) => if ofn_beq f (generic_template v g) && local_ok v then Some g else None
                | None => None
                end
    | None => None
    end.
  Definition plain_matches (h : bytes * bytes) : bool :=
    match named (fst h) with
    | Some f => match plain_shape f with
                | Some v => ofn_beq f (plain_template (fst h) (snd h) v) && local_ok v
                | None => false
                end
    | None => false
    end.

  (* the condition without the guard: every helper has its shape *)
  Definition on_shapes_ok : bool :=
    forallb (fun h => match struct_matches h with Some _ => true | None => false end) list_helpers
    && (match generic_matches with Some _ => true | None => false end)
    && forallb plain_matches plain_helpers.

  Definition guard_ok (o : option loop_guard) : bool :=
    match o with Some g => guard_skips_nil g | None => false end.

  (* THE condition: every helper has its shape, and every loop passes over a member for which IsNil holds before
     converting it *)
  Definition on_table_ok : bool :=
    on_shapes_ok && forallb (fun h => guard_ok (struct_matches h)) struct_helpers && guard_ok generic_matches.

  (* diagnosis: the first helper that is not as expected *)
  Inductive on_diag :=
  | OdMissing (name : bytes)
  | OdShape (name : bytes) (found : ofn)              (* not the template: the body found *)
  | OdNoNilGuard (name : bytes) (g : loop_guard).     (* the template, but the loop converts nil members *)

  Definition diag_struct (h : bytes * bytes) : option on_diag :=
    match named (fst h) with
    | None => Some (OdMissing (fst h))
    | Some f => match struct_matches h with
                | None => Some (OdShape (fst h) f)
                | Some g => if guard_skips_nil g then None else Some (OdNoNilGuard (fst h) g)
                end
    end.
  Definition diag_generic : option on_diag :=
    match named n_OnT with
    | None => Some (OdMissing n_OnT)
    | Some f => match generic_matches with
                | None => Some (OdShape n_OnT f)
                | Some g => if guard_skips_nil g then None else Some (OdNoNilGuard n_OnT g)
                end
    end.
  Definition diag_plain (h : bytes * bytes) : option on_diag :=
    match named (fst h) with
    | None => Some (OdMissing (fst h))
    | Some f => if plain_matches h then None else Some (OdShape (fst h) f)
    end.

  Definition ofirst {A B} (f : A -> option B) (l : list A) : option B :=
    fold_right (fun x acc => match f x with Some y => Some y | None => acc end) None l.

  Definition diag_shape (h : bytes * bytes) : option on_diag :=
    match named (fst h) with
    | None => Some (OdMissing (fst h))
    | Some f => match struct_matches h with None => Some (OdShape (fst h) f) | Some _ => None end
    end.

  Definition first_bad_on : option on_diag :=
    match ofirst diag_struct struct_helpers with
    | Some d => Some d
    | None => match diag_generic with
              | Some d => Some d
              | None => match ofirst diag_shape other_list_helpers with
                        | Some d => Some d
                        | None => ofirst diag_plain plain_helpers
                        end
              end
    end.
End Cond.

(* where a diagnosis points *)
Definition on_diag_where (d : option on_diag) : option (bytes * bool) :=
  match d with
  | Some (OdMissing n) | Some (OdShape n _) => Some (n, false)
  | Some (OdNoNilGuard n _) => Some (n, true)
  | None => None
  end.

(* ------------------------------------------------------------------ the specification *)
Section Spec.
  Variable conv : bytes -> option (item -> conv_result).
  Variable targ : bool * kind.
  Variable cb : otrace -> oval -> bool.

  Definition r_nil : outcome (list oval) := Ok [OvNil].
  Definition r_err : outcome (list oval) := Ok [OvErr].

  (* one item that is no list: convert it; an error ends it, otherwise the callback gets the pointer *)
  Definition visit_one (tofn : bytes) (i : item) : OM (list oval) :=
    fun tr =>
      match leaf conv targ tofn [OvItem i] with
      | Ok [p; OvNil] => (tr ++ [p], Ok [if cb tr p then OvErr else OvNil])
      | Ok [_; OvErr] => (tr, r_err)
      | Ok _ => (tr, Err)
      | Err => (tr, Err)
      | Panic p => (tr, Panic p)
      | OutOfFuel => (tr, OutOfFuel)
      end.

  Definition skips (g : loop_guard) (m : item) : bool :=
    (guard_skips_nil g && is_nil m) || (guard_skips_links g && is_link m).

  (* go on with the next member unless this one ended in an error *)
  Definition and_then (r : otrace * outcome (list oval)) (k : otrace -> otrace * outcome (list oval)) :=
    match r with
    | (tr', Ok [OvNil]) => k tr'
    | (tr', Ok [OvErr]) => (tr', r_err)
    | (tr', Ok _) => (tr', Err)
    | (tr', o) => (tr', o)
    end.

  Section Walk.
    Variable tofn : bytes.
    Variable g : loop_guard.
    Variable top_nil_guard : bool.     (* `if it == nil { return nil }` at the head: every helper but On[T] *)

    (* members that are no lists *)
    Fixpoint walk_flat (l : list item) (tr : otrace) : otrace * outcome (list oval) :=
      match l with
      | [] => (tr, r_nil)
      | m :: r => if skips g m then walk_flat r tr else and_then (visit_one tofn m tr) (walk_flat r)
      end.

    Fixpoint visit (i : item) (tr : otrace) {struct i} : otrace * outcome (list oval) :=
      match i with
      | IItems _ (Some l) =>
          (fix walk (l : list item) (tr : otrace) : otrace * outcome (list oval) :=
             match l with
             | [] => (tr, r_nil)
             | m :: r => if skips g m then walk r tr else and_then (visit m tr) (walk r)
             end) l tr
      | IItems _ None => (tr, r_nil)
      | IIris _ lo => walk_flat (map (IIri false) (olst lo)) tr
      | INil => if top_nil_guard then (tr, r_nil) else visit_one tofn INil tr
      | other => visit_one tofn other tr
      end.
  End Walk.

  (* what the callback is handed by a walk over the members of a list *)
  Definition members_of (i : item) : option (list item) :=
    match i with
    | IItems _ lo => Some (olst lo)
    | IIris _ lo => Some (map (IIri false) (olst lo))
    | _ => None
    end.
End Spec.

(* the members a walk over a list gets to: nested lists opened, the members the loop passes over dropped, in order *)
Fixpoint kept (g : loop_guard) (i : item) {struct i} : list item :=
  match i with
  | IItems _ (Some l) =>
      (fix go (l : list item) : list item :=
         match l with
         | [] => []
         | m :: r => (if skips g m then []
                      else match m with IItems _ _ | IIris _ _ => kept g m | _ => [m] end) ++ go r
         end) l
  | IIris _ lo => filter (fun m => negb (skips g m)) (map (IIri false) (olst lo))
  | _ => []
  end.

(* the pointer the conversion of a member yields *)
Definition ptr_of conv targ (tofn : bytes) (m : item) : oval :=
  match leaf conv targ tofn [OvItem m] with Ok (p :: _) => p | _ => OvNil end.

(* the descriptor of a helper: its conversion, its guard, whether it tests `it == nil` first *)
Definition visit_struct conv targ cb (tofn : bytes) (g : loop_guard) := visit conv targ cb tofn g true.
Definition visit_generic conv targ cb (g : loop_guard) := visit conv targ cb n_ToT g false.

(* ------------------------------------------------------------------ the pinned loops *)
(* before the fix: OnObject / OnActivity / OnActor (and OnPlace / OnProfile) passed over links only, On /
   OnIntransitiveActivity / OnQuestion (and OnTombstone) over nothing *)
Definition pinned_guard (name : bytes) : loop_guard :=
  if bytes_eqb name (B "OnObject") || bytes_eqb name (B "OnActivity") || bytes_eqb name (B "OnActor")
     || bytes_eqb name (B "OnPlace") || bytes_eqb name (B "OnProfile") then GLinkOnly else GNone.

Definition with_guards (guard : bytes -> loop_guard) (tbl : list ofn) : list ofn :=
  map (fun f =>
         match find (fun h => bytes_eqb (fst h) (on_name f)) list_helpers, struct_shape f with
         | Some h, Some (v, _) => struct_template (fst h) (snd h) v (guard (fst h))
         | _, _ => if bytes_eqb (on_name f) n_OnT
                   then match generic_shape f with Some (v, _) => generic_template v (guard n_OnT) | None => f end
                   else f
         end) tbl.
Definition pinned_of (tbl : list ofn) : list ofn := with_guards pinned_guard tbl.

(* ------------------------------------------------------------------ conversions from the generated tables *)
Section FromTables.
  Variable layout_of : kind -> list fdecl.
  Variable sizeof_kind : kind -> nat.
  Variable reflect_convertible : list (kind * kind).
  Variable conv_tables : list (bytes * list conv_case * conv_action).

  Definition conv_of_tables (f : bytes) : option (item -> conv_result) :=
    match to_target f, find (fun t => bytes_eqb (fst (fst t)) f) conv_tables with
    | Some d, Some t => Some (conv_item layout_of sizeof_kind reflect_convertible (snd (fst t)) (snd t) d)
    | _, _ => None
    end.
End FromTables.
