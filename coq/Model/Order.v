(* Model of helpers.go:ItemOrderTimestamp on the object core it reads.
   time.Time.After (no monotonic reading) compares (sec, nsec) lexicographically;
   the zone offset plays no part. *)
From AP.Model Require Import Prelude.
Open Scope Z_scope.

Record instant := { secs : Z; nanos : Z }.

(* time.Time.After *)
Definition after (a b : instant) : bool :=
  (secs b <? secs a) || ((secs a =? secs b) && (nanos b <? nanos a)).

Definition instant_eqb (a b : instant) : bool :=
  (secs a =? secs b) && (nanos a =? nanos b).

Record tsobj := { published : instant; updated : instant }.

(* t1 := o.Published; if o.Updated.After(t1) { t1 = o.Updated } *)
Definition key (o : tsobj) : instant :=
  if after (updated o) (published o) then updated o else published o.

(* ItemOrderTimestamp after ToObject: None = nil or typed-nil object pointer *)
Definition before (a b : option tsobj) : bool :=
  match a with
  | None => match b with None => false | Some _ => true end
  | Some x => match b with None => false | Some y => after (key x) (key y) end
  end.

(* specification-side notions *)
Definition later (a b : instant) : instant := if after b a then b else a.  (* max *)
Definition okey (a : option tsobj) : option instant := option_map key a.

(* rank order on optional keys: None (nil) is above everything *)
Definition okey_gt (a b : option instant) : bool :=
  match a, b with
  | None, Some _ => true
  | Some x, Some y => after x y
  | _, None => false
  end.
