(* ItemOrderTimestamp's table, ToObject's conversion table and the struct layouts as regenerated from the source on
   this run, and what a source change does to them. *)
From AP.Model Require Import Prelude Vocab Pred Layout Views Conv Order OrderItem GoBody OrderTab.
Require AP.Gen.OrderT AP.Gen.Conv AP.Gen.Layout.

Definition gen_order_fns : list (gfn gname) := AP.Gen.OrderT.order_fns.

(* ToObject as Gen/Conv.v and Gen/Layout.v say it *)
Definition to_object_gen : item -> conv_result :=
  to_object_t AP.Gen.Layout.layout_of AP.Gen.Layout.sizeof_kind AP.Gen.Conv.reflect_convertible
              AP.Gen.Conv.conv_ToObject AP.Gen.Conv.conv_ToObject_default.
Notation toobject_gen_ok :=
  (toobject_table_ok AP.Gen.Layout.layout_of AP.Gen.Layout.sizeof_kind AP.Gen.Conv.reflect_convertible
                     AP.Gen.Conv.conv_ToObject AP.Gen.Conv.conv_ToObject_default).
Definition toobject_gen_first_bad : option (cast_kind * bool) :=
  toobject_first_bad AP.Gen.Layout.layout_of AP.Gen.Layout.sizeof_kind AP.Gen.Conv.conv_ToObject.

(* ItemOrderTimestamp as the source says it now: body, conversion cases and layouts all from generated tables *)
Definition item_order_gen (a b : item) := item_order_t gen_order_fns to_object_gen a b.

(* ---- what a source change does to the tables (used by the examples of Props/C17.v) ---- *)
(* the sort key taken from published alone: `if o1.Updated.After(t1) { t1 = o1.Updated }` removed (statement 5) *)
Definition order_fns_published_only : list (gfn gname) := replace_body n_item_order (drop_nth 5) gen_order_fns.

(* a ToObject whose type switch lost the Tombstone cases *)
Definition conv_without (k : kind) (tbl : list conv_case) : list conv_case :=
  filter (fun c => negb (match cv_src c with CK k' => kind_beq k k' | _ => false end)) tbl.

(* a Tombstone whose published and startTime fields changed places in the struct declaration *)
Definition swap_fids (a b : fid) (l : list fdecl) : list fdecl :=
  map (fun d => if fid_beq (fd_fid d) a then mkfd b (fd_type d) (fd_size d) (fd_align d) (fd_off d) (fd_term d)
                else if fid_beq (fd_fid d) b then mkfd a (fd_type d) (fd_size d) (fd_align d) (fd_off d) (fd_term d)
                else d) l.
Definition layout_tombstone_swapped (k : kind) : list fdecl :=
  match k with
  | KTombstone => swap_fids F_Published F_StartTime (AP.Gen.Layout.layout_of KTombstone)
  | _ => AP.Gen.Layout.layout_of k
  end.

(* values for the examples: a note published at 10 and updated at 20, a tombstone published at 15 *)
Definition ex_time (s : Z) : vtime := {| vsecs := s; vnanos := 0; voff := 0 |}.
Definition ex_note : item := IObj true KObject [(F_Published, FTime (ex_time 10)); (F_Updated, FTime (ex_time 20))].
Definition ex_tomb : item := IObj false KTombstone [(F_Published, FTime (ex_time 15))].
