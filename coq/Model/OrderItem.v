(* ItemOrderTimestamp on items: ToObject followed by Order.before. *)
From AP.Model Require Import Prelude Vocab Pred Order.

Definition inst_of (t : vtime) : instant := {| secs := vsecs t; nanos := vnanos t |}.

(* ToObject as far as ItemOrderTimestamp observes it: the two instants, nil, or an error
   (links, non-nil IRIs and non-nil collections cannot be viewed as Object). *)
Definition ts_view (i : item) : outcome (option tsobj) :=
  match i with
  | IObj _ KLink _ => Err
  | IObj _ _ fs =>
      Ok (Some {| published := inst_of (get_time F_Published fs);
                  updated := inst_of (get_time F_Updated fs) |})
  | _ => if is_nil i then Ok None else Err
  end.

Definition item_order_timestamp (a b : item) : bool :=
  match ts_view a, ts_view b with
  | Ok x, Ok y => before x y
  | _, _ => false
  end.
