(* helpers.go ItemOrderTimestamp as a TABLE, and the conversion it rests on through the conversion table.

   Gen/OrderT.v (regenerated from the source on every run by translator/gobody.go) holds the body of ItemOrderTimestamp
   statement by statement in the language of Model/GoBody.v.  What it calls:
     - ToObject: Gen/Conv.v has its type switch case by case (conv_ToObject), Model/Conv.v the interpreter conv_item
       over such a table and the struct layouts of Gen/Layout.v;
     - time.Time.After: the one leaf ([after] of Model/Order.v on (seconds, nanoseconds)).
   This file: the call environment, the statement sequence [item_order_timestamp] of Model/OrderItem.v was written
   after, the decidable condition [order_table_ok] on the body table, and the decidable condition [toobject_table_ok]
   on conversion table + layouts under which ToObject, as the tables say it, is [ts_view] of Model/OrderItem.v.
   Definitions only; Proofs/OrderTabP.v proves interpreter = model for every table satisfying the conditions. *)
From AP.Model Require Import Prelude Vocab Pred Layout Views Conv Order OrderItem TabEq GoBody.

Definition n_item_order := B "ItemOrderTimestamp".
Definition n_to_object := B "ToObject".
Definition n_time_after := B "time.Time.After".

(* ------------------------------------------------------------------ what the calls mean *)
(* the two results of ToObject, a pointer to Object and an error; a nil pointer is the typed nil pointer *)
Definition to_object_vals (r : conv_result) : outcome (list gval) :=
  match r with
  | CRNil | CRNilPtr => Ok [GvItem (ITNil KObject); GvErr true]
  | CRErr => Ok [GvItem (ITNil KObject); GvErr false]
  | CRView _ v => Ok [GvItem v; GvErr true]
  | CRPanic => Panic NilDeref
  | CRBroken | CRUnmodelled => Err
  end.

Definition order_func (tobj : item -> conv_result) (n : bytes) (args : list gval) : option (outcome (list gval)) :=
  if bytes_eqb n n_to_object
  then match args with [GvItem i] => Some (to_object_vals (tobj i)) | _ => None end
  else None.
Definition order_method (n : bytes) (r : gval) (args : list gval) : option (outcome (list gval * option gval)) :=
  if bytes_eqb n n_time_after
  then match r, args with
       | GvTime a, [GvTime b] => Some (Ok ([GvBool (after (inst_of a) (inst_of b))], None))
       | _, _ => None
       end
  else None.
Definition order_env (tobj : item -> conv_result) : genv := mkgenv (order_func tobj) order_method.

(* ItemOrderTimestamp as the table says it, over a ToObject *)
Definition item_order_t (tbl : list (gfn gname)) (tobj : item -> conv_result) (a b : item) :=
  run_named (order_env tobj) tbl n_item_order None [GvItem a; GvItem b].

(* ------------------------------------------------------------------ the model's side of the body condition *)
Local Notation gv x := (GxVar (B x)).
Definition m_item_order : gfn gname := mkgfn n_item_order None [B "i1"; B "i2"] 1 (gblk [
  GsDefine [B "o1"; B "e1"] (GxCall n_to_object (gxs [gv "i1"]));
  GsDefine [B "o2"; B "e2"] (GxCall n_to_object (gxs [gv "i2"]));
  GsIf (GxBin OpOr (GxNot (GxIsNil NcErr (gv "e1"))) (GxNot (GxIsNil NcErr (gv "e2"))))
       (gblk [GsReturn (gxs [GxBool false])]) GsSkip;
  GsIf (GxIsNil NcPtr (gv "o1"))
       (gblk [GsReturn (gxs [GxNot (GxIsNil NcPtr (gv "o2"))])])
       (GsIf (GxIsNil NcPtr (gv "o2")) (gblk [GsReturn (gxs [GxBool false])]) GsSkip);
  GsDefine [B "t1"] (GxField (gv "o1") F_Published TTime);
  GsIf (GxMethod n_time_after (GxField (gv "o1") F_Updated TTime) (gxs [gv "t1"]))
       (gblk [GsAssign (GlVar (B "t1")) (GxField (gv "o1") F_Updated TTime)]) GsSkip;
  GsDefine [B "t2"] (GxField (gv "o2") F_Published TTime);
  GsIf (GxMethod n_time_after (GxField (gv "o2") F_Updated TTime) (gxs [gv "t2"]))
       (gblk [GsAssign (GlVar (B "t2")) (GxField (gv "o2") F_Updated TTime)]) GsSkip;
  GsReturn (gxs [GxMethod n_time_after (gv "t1") (gxs [gv "t2"])])]).

Definition order_model_fns : list (gfn gname) := Eval vm_compute in [m_item_order].
Definition order_table_ok (tbl : list (gfn gname)) : bool := body_table_ok order_model_fns tbl.
Definition order_first_bad (tbl : list (gfn gname)) := first_bad_body order_model_fns tbl.

(* ------------------------------------------------------------------ ToObject through the conversion table *)
(* what ItemOrderTimestamp can observe of a ToObject result: the two instants, nil, or an error;
   None = a result outside what the function body is modelled on *)
Definition view_of_conv (r : conv_result) : option (outcome (option tsobj)) :=
  match r with
  | CRNil | CRNilPtr => Some (Ok None)
  | CRErr => Some Err
  | CRView _ (IObj true _ vf) =>
      Some (Ok (Some {| published := inst_of (get_time F_Published vf); updated := inst_of (get_time F_Updated vf) |}))
  | _ => None
  end.

Section ToObjectCond.
  Variable layout_of : kind -> list fdecl.
  Variable sizeof_kind : kind -> nat.
  Variable reflect_convertible : list (kind * kind).
  Variable tbl : list conv_case.
  Variable dflt : conv_action.

  Definition to_object_t (i : item) : conv_result :=
    conv_item layout_of sizeof_kind reflect_convertible tbl dflt KObject i.

  Definition non_link_kinds : list kind :=
    [KObject; KActor; KActivity; KIntransitive; KQuestion; KCollection; KCollectionPage; KOrdered; KOrderedPage;
     KPlace; KProfile; KRelationship; KTombstone].

  Definition is_reflect (a : conv_action) : bool := match a with AReflect => true | _ => false end.

  (* the case of a struct shape: the pointer itself / a copy, or a reinterpretation as Object that the layouts back *)
  Definition struct_case_ok (k : kind) (p : bool) : bool :=
    match find_case tbl (CK k, p) with
    | Some c =>
        match cv_action c with
        | AIdent => true
        | AAddrOfCopy => negb p
        | ACast (CK KObject) => prefix_compatible layout_of sizeof_kind KObject k
        | ACastOfCopy (CK KObject) => negb p && prefix_compatible layout_of sizeof_kind KObject k
        | _ => false
        end
    | None => false
    end.

  Definition other_shapes : list (cast_kind * bool) :=
    [(CK KLink, true); (CK KLink, false);
     (CKOther (B "IRI"), true); (CKOther (B "IRI"), false);
     (CKOther (B "ItemCollection"), true); (CKOther (B "ItemCollection"), false);
     (CKOther (B "IRIs"), true); (CKOther (B "IRIs"), false)].

  Fixpoint nodup_fids (l : list fid) : bool :=
    match l with [] => true | x :: r => negb (existsb (fid_beq x) r) && nodup_fids r end.
  Definition has_field (f : fid) : bool := existsb (fun d => fid_beq (fd_fid d) f) (layout_of KObject).

  (* every non-link struct type, in both forms, has a case that hands back a view keeping published and updated; a link,
     an IRI, a list has none and falls to the reflection default, which refuses a link *)
  Definition toobject_table_ok : bool :=
    is_reflect dflt
    && forallb (fun k => struct_case_ok k true && struct_case_ok k false) non_link_kinds
    && forallb (fun s => match find_case tbl s with None => true | Some _ => false end) other_shapes
    && negb (reflect_ok reflect_convertible KLink KObject)
    && nodup_fids (map fd_fid (layout_of KObject)) && has_field F_Published && has_field F_Updated.

  (* diagnosis: the first shape whose case is missing / wrong / not backed by the layouts *)
  Definition toobject_first_bad : option (cast_kind * bool) :=
    match find (fun k => negb (struct_case_ok k true)) non_link_kinds with
    | Some k => Some (CK k, true)
    | None =>
        match find (fun k => negb (struct_case_ok k false)) non_link_kinds with
        | Some k => Some (CK k, false)
        | None => find (fun s => match find_case tbl s with None => false | Some _ => true end) other_shapes
        end
    end.
End ToObjectCond.
