(* item.go predicates: IsNil IsIRI IsIRIs IsItemCollection IsObject IsLink, and the
   interface methods GetLink/GetID/GetType/IsLink/IsObject/IsCollection of each item shape.
   Value-receiver methods called through a nil struct pointer panic in Go. *)
From AP.Model Require Import Prelude Vocab.

Definition is_iri (i : item) : bool := match i with IIri _ _ => true | _ => false end.
Definition is_iris (i : item) : bool := match i with IIris _ _ => true | _ => false end.
Definition is_item_collection (i : item) : bool :=
  match i with IItems _ _ | IIris _ _ => true | _ => false end.
Definition is_link (i : item) : bool :=
  match i with IObj _ KLink _ | ITNil KLink => true | _ => false end.
(* the type switch in IsObject: `ob != nil` compares the interface, so typed nils pass *)
Definition is_object (i : item) : bool :=
  match i with
  | IObj _ k _ | ITNil k => match k with KLink => false | _ => true end
  | _ => false
  end.

Definition nil_iri : bytes := B "-".

(* IsNil *)
Definition is_nil (i : item) : bool :=
  match i with
  | INil => true
  | ITNil _ => true
  | IIri _ s => match s with [] => true | _ => fold_eqb s nil_iri end
  | IItems false None => true
  | IIris false None => true
  | _ => false
  end.

(* GetLink / GetID: the id (or the IRI itself); collections of items have none *)
Definition get_link (i : item) : outcome bytes :=
  match i with
  | INil => Panic NilDeref
  | ITNil _ => Panic ValueMethodOnNilPtr
  | IIri _ s => Ok s
  | IObj _ _ fs => Ok (get_str F_ID fs)
  | IItems _ _ => Ok []
  | IIris _ _ => Ok []
  end.

Definition collection_of_items : bytes := B "ItemCollection".
Definition collection_of_iris : bytes := B "IRICollection".
Definition iri_type : bytes := B "IRI".

Definition get_type (i : item) : outcome bytes :=
  match i with
  | INil => Panic NilDeref
  | ITNil _ => Panic ValueMethodOnNilPtr
  | IIri _ _ => Ok iri_type
  | IObj _ _ fs => Ok (get_str F_Type fs)
  | IItems _ _ => Ok collection_of_items
  | IIris _ _ => Ok collection_of_iris
  end.
