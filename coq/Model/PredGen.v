(* The predicate / accessor table as regenerated from the source on this run, and what a source change does to it
   (used by the examples of Props/C20.v and Props/C09.v). *)
From AP.Model Require Import Prelude Vocab Layout PredTab.
Require AP.Gen.PredT.

Definition gen_pred_fns : list pfn := AP.Gen.PredT.pred_fns.

(* the primitives as the source says now *)
Definition is_nil_gen (i : item) : outcome bool := sem_pred gen_pred_fns (B "IsNil") i.
Definition not_empty_gen (i : item) : outcome bool := sem_pred gen_pred_fns (B "NotEmpty") i.
Definition get_link_gen (i : item) : outcome bytes := as_bytes (sem_dyn gen_pred_fns m_GetLink i).
Definition get_type_gen (i : item) : outcome bytes := as_bytes (sem_dyn gen_pred_fns m_GetType i).

Definition replace_body (name : bytes) (f : pstmt -> pstmt) (tbl : list pfn) : list pfn :=
  map (fun g => if bytes_eqb (pf_name g) name then mkpfn (pf_name g) (pf_recv g) (pf_params g) (f (pf_body g)) else g) tbl.

(* IsObject without the two Tombstone entries of its case list *)
Definition not_tombstone (t : gty) : bool := match t with GT _ (TBK KTombstone) => false | _ => true end.
Fixpoint drop_tombstone (s : pstmt) : pstmt :=
  match s with
  | PSeq a b => PSeq (drop_tombstone a) (drop_tombstone b)
  | PSwitch v e c => PSwitch v e (drop_tombstone c)
  | PCase tys body rest => PCase (filter not_tombstone tys) body rest
  | other => other
  end.
Definition fns_object_without_tombstone : list pfn := replace_body (B "IsObject") drop_tombstone gen_pred_fns.

(* Actor.GetLink returning another string property of the receiver *)
Definition getlink_of (f : fid) (s : pstmt) : pstmt :=
  match s with
  | PSeq (PReturn (EConv t (EField r _ ty))) rest => PSeq (PReturn (EConv t (EField r f ty))) rest
  | other => other
  end.
Definition fns_actor_link_is_mediatype : list pfn := replace_body (B "Actor.GetLink") (getlink_of F_MediaType) gen_pred_fns.

(* IsNil testing typed nil pointers to objects with the interface comparison instead of the pointer comparison *)
Fixpoint nil_test_as_iface (s : pstmt) : pstmt :=
  match s with
  | PSeq a b => PSeq (nil_test_as_iface a) (nil_test_as_iface b)
  | PIf c t e => PIf c (nil_test_as_iface t) (nil_test_as_iface e)
  | POn fn a p body => POn fn a p (nil_test_as_iface body)
  | PSet v (EIsNil NPtr x) => PSet v (EIsNil NIface x)
  | other => other
  end.
Definition fns_nil_iface_test : list pfn := replace_body (B "IsNil") nil_test_as_iface gen_pred_fns.

Definition pg_actor : item :=
  IObj true KActor [(F_ID, FStr (B "https://example.com/actors/alice")); (F_Type, FStr (B "Person"));
                    (F_MediaType, FStr (B "text/plain"))].

(* notEmptyObject without its `o.Summary != nil` clause (compare seeded C05-2: a clause of the emptiness test lost) *)
Fixpoint drop_or_clause (f : fid) (e : pexp) : pexp :=
  match e with
  | EOr a (ENot (EIsNil t (EField x g ty))) => if fid_beq f g then drop_or_clause f a else EOr (drop_or_clause f a) (ENot (EIsNil t (EField x g ty)))
  | EOr a b => EOr (drop_or_clause f a) b
  | other => other
  end.
Fixpoint drop_clause_s (f : fid) (s : pstmt) : pstmt :=
  match s with
  | PSeq a b => PSeq (drop_clause_s f a) (drop_clause_s f b)
  | PReturn e => PReturn (drop_or_clause f e)
  | other => other
  end.
Definition fns_object_without_summary : list pfn := replace_body (B "notEmptyObject") (drop_clause_s F_Summary) gen_pred_fns.

(* values for the examples *)
Definition pg_id (s : string) : bytes := B "https://example.com/" ++ B s.
Definition pg_note : item := IObj true KObject [(F_ID, FStr (pg_id "notes/1")); (F_Type, FStr (B "Note"))].
Definition pg_summary_only : item := IObj true KObject [(F_Summary, FNlv (Some [(B "en", B "a summary")]))].
Definition pg_create : item :=
  IObj true KActivity [(F_ID, FStr (pg_id "activities/1")); (F_Type, FStr (B "Create"));
                       (F_Actor, FItem pg_actor); (F_Object, FItem pg_note)].
Definition pg_mention : item := IObj false KLink [(F_Type, FStr (B "Mention")); (F_Href, FStr (pg_id "actors/bob"))].
Definition pg_outbox : item :=
  IObj true KOrdered [(F_ID, FStr (pg_id "actors/alice/outbox")); (F_Type, FStr (B "OrderedCollection")); (F_TotalItems, FUint 3)].
Definition pg_tombstone : item := IObj true KTombstone [(F_ID, FStr (pg_id "notes/2")); (F_Type, FStr (B "Tombstone"))].
Definition pg_fields (i : item) : list (fid * fval) := match i with IObj _ _ fs => fs | _ => [] end.
