(* DerefItem, and NotEmpty on lists: the bodies the specifications below were written after, the table condition
   [deref_table_ok] (= pred_table_ok and the bodies of DerefItem and (ptr ItemCollection).Collection as they are
   today), its diagnosis, and the two specifications.  Definitions only; Proofs/PredListP.v proves, for every table
   satisfying the condition, interpreter = specification, for all items that are no IRI lists / for all lists. *)
From AP.Model Require Import Prelude Bytes Vocab Pred Layout Dispatch Equal TabEq PredTab NilMatrix.
Require AP.Model.JsonDec.

(* helpers.go DerefItem *)
Definition v_items := B "items".
Definition v_col := B "col".
Definition on_set_items (fn callee : bytes) : pstmt :=
  POn fn e_it v_col (pblk [PSet v_items (EMeth callee (EVar v_col) ENoArg); PReturnNil]).
Definition m_deref_item : pfn := mkpfn (B "DerefItem") None [v_it] (pblk [
  PIf (ECall (B "IsNil") (arg1 e_it)) (pblk [PReturn (ENilOf (B "ItemCollection"))]) PSkip;
  PVarZero v_items (B "ItemCollection");
  PIf (ECall (B "IsIRIs") (arg1 e_it))
      (pblk [on_set_items (B "OnIRIs") (B "*IRIs.Collection")])
  (PIf (ECall (B "IsItemCollection") (arg1 e_it))
      (pblk [on_set_items (B "OnItemCollection") (B "*ItemCollection.Collection")])
      (pblk [PSet v_items (ELit1 (B "ItemCollection") e_it)]));
  PReturn (EVar v_items)]).
(* item_collection.go (ptr ItemCollection).Collection *)
Definition m_ptr_collection : pfn :=
  mkpfn (B "*ItemCollection.Collection") (Some (B "i")) [] (pblk [PReturn (EDeref (EVar (B "i")))]).

Definition deref_fns : list pfn := Eval vm_compute in [m_deref_item; m_ptr_collection].

Definition deref_table_ok (tbl : list pfn) : bool := pred_table_ok tbl && forallb (fn_matches tbl) deref_fns.

(* diagnosis: the first of the two functions that differs and the top-level statement at which the bodies part *)
Definition first_bad_deref (tbl : list pfn) : option pred_diag :=
  match find (fun m => negb (fn_matches tbl m)) deref_fns with
  | Some m =>
      Some (BadFn (pf_name m) (match pfn_named tbl (pf_name m) with
                               | Some f => first_diff_stmt 0 (unblk (pf_body f)) (unblk (pf_body m))
                               | None => None
                               end))
  | None => None
  end.

(* what DerefItem answers, as an item (the returned ItemCollection value; IItems false None is the nil list):
   nil for everything IsNil holds of; the list itself (the pointer followed) for an ItemCollection; the one-member
   list for everything else.  IRI lists go through OnIRIs and (ptr IRIs).Collection, a loop outside the language:
   not described (Err) *)
Definition deref_spec (i : item) : outcome item :=
  if is_nil i then Ok (IItems false None)
  else match i with
       | IItems _ lo => Ok (IItems false lo)
       | IIris _ _ => Err
       | _ => Ok (IItems false (Some [i]))
       end.

(* what NotEmpty answers on an ItemCollection (value or pointer form) that IsNil does not hold of: OnCollectionIntf
   sets the answer to true (`c != nil || ...` on the pointer it is handed), then OnObject walks the members
   (PredTab.walk_views) and OVERWRITES the answer with notEmptyObject of each member it gets to: the answer is that of
   the LAST such member, and true when there is none *)
Definition ne_after (b : bool) (ds : list pv) : bool :=
  fold_left (fun acc d => match d with VI (IObj _ _ fs) => JsonDec.obj_not_empty fs | _ => acc end) ds b.
Definition ne_list_spec (i : item) : bool := ne_after true (fst (walk_views KObject i)).

(* the nil-like items *)
Definition all_nil_like : list item := INil :: map ITNil all_kinds.

(* ---- changed tables, for the examples: DerefItem without its IsNil guard; a list walk that takes nil members *)
Definition drop_first_stmt (n : bytes) (tbl : list pfn) : list pfn :=
  map (fun f => if bytes_eqb (pf_name f) n
                then mkpfn (pf_name f) (pf_recv f) (pf_params f) (pblk (tl (unblk (pf_body f)))) else f) tbl.
