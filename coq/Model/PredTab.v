(* The primitive predicates and accessors nearly every model applies, as TABLES.

   Gen/PredT.v (regenerated from the source on every run by translator/predt.go) holds the bodies of
       IsIRI, IsIRIs, IsLink, IsItemCollection, IsObject, IsNil                                   (item.go)
       NotEmpty, notEmptyLink, notEmptyObject, notEmptyInstransitiveActivity, notEmptyActivity,
       notEmptyActor, DerefItem                                                                   (helpers.go)
       GetLink / GetID / GetType / IsObject / IsLink / IsCollection of the 14 struct types, of IRI, IRIs and
       ItemCollection; ItemCollection.Normalize / First, (ptr ItemCollection).Collection, (ptr IRIs).Collection
   statement by statement and expression by expression, in the small imperative language defined here (a Go
   statement or expression outside the language is an explicit PUnrec / EUnrec entry carrying its source text and
   position - never dropped).

   This file: the language; its interpreter over the model's [item] values ([ev] / [exec] / [run_pfn]: what a table
   MEANS, whatever it says - type assertions and type switches on the dynamic Go type of an item (struct kind in
   value or pointer form, IRI, ItemCollection, IRIs, typed nil pointers), comparisons with nil according to the
   static type class of the operand, field reads, method calls through an interface dispatched on the dynamic type
   over the methods of the SAME table with Go's panics for a nil interface and for a value-receiver method called
   through a nil pointer, closures handed to On<T>); the environments that close the functions over each other
   ([env_at]); the statement sequences the hand-written predicates of Model/Pred.v (and Equal.is_collection_m,
   Recip.meth_is_object / meth_is_link, Flatten.normalize, JsonDec.obj_not_empty / not_empty) were written after
   ([model_fns], [model_method]) and the decidable table condition [pred_table_ok] with its diagnosis
   [first_bad_pred].  Definitions only.  Proofs/PredTabP.v proves, for every table satisfying the condition and all
   items, interpreter = hand-written function. *)
From AP.Model Require Import Prelude Bytes Vocab Pred Layout Dispatch Equal TabEq.
From AP.Gen Require Import TypeLists.

(* ------------------------------------------------------------------ the language (what the translator emits) *)
Definition var := bytes.

(* the Go types an item can hold *)
Inductive tbase := TBK (k : kind) | TBIri | TBItems | TBIris.
(* a type named in an assertion or a case: T / pointer to T, an interface type, anything else *)
Inductive gty := GT (ptr : bool) (b : tbase) | GIface (n : bytes) | GOther (n : bytes).
(* the static type class of an operand compared with nil: a typed nil pointer held by an interface is not a nil
   interface *)
Inductive nilty := NIface | NPtr | NSlice.

Inductive pexp :=
| EVar (v : var)
| EBool (b : bool)
| EInt (n : nat)                               (* an integer literal or constant *)
| EStr (s : bytes)                             (* a string literal or (typed) string constant, by its value *)
| ENilOf (t : bytes)                           (* nil as a value of the Go type t *)
| EIsNil (t : nilty) (e : pexp)                (* e == nil; != is emitted as ENot *)
| ENot (e : pexp)
| EAnd (e f : pexp)                            (* short-circuit *)
| EOr (e f : pexp)
| EEq (e f : pexp)
| EGt (e f : pexp)
| EAdd (e f : pexp)
| ELen (e : pexp)
| EField (e : pexp) (f : fid) (t : gotype)     (* e.F on a struct of the vocabulary (through a pointer too), F of Go type t *)
| ESub (e : pexp) (n : bytes)                  (* a member of a leaf struct: Source.MediaType, PublicKey.ID *)
| EConv (t : bytes) (e : pexp)                 (* T(e) *)
| EDeref (e : pexp)
| EIndex (e : pexp) (n : nat)
| ELit1 (t : bytes) (e : pexp)                 (* T{e} *)
| ETypeIn (l : bytes) (e : pexp)               (* <l>.Contains(e): l names a type list of Gen/TypeLists.v *)
| ECall (f : bytes) (args : pexp)              (* a package-level function; of another package as "pkg.F" *)
| EDyn (m : bytes) (recv : pexp) (args : pexp) (* recv.M(args) through an interface: dispatched on the dynamic type *)
| EMeth (m : bytes) (recv : pexp) (args : pexp)(* statically resolved: "T.M", "*T.M", "pkg.T.M" (go/types) *)
| ENoArg
| EArg (e rest : pexp)                         (* argument lists *)
| EUnrec (src pos : bytes).

Inductive pstmt :=
| PSkip
| PSeq (a b : pstmt)
| PReturn (e : pexp)
| PReturnNil                                   (* return nil, inside a closure returning error *)
| PIf (c : pexp) (t e : pstmt)
| PDecl (v : var) (e : pexp)                   (* v := e *)
| PVarZero (v : var) (t : bytes)               (* var v T *)
| PSet (v : var) (e : pexp)                    (* v = e *)
| PAssert (v ok : var) (t : gty) (e : pexp)    (* v, ok := e.(T); the blank name is "_" *)
| PSwitch (bind : var) (e : pexp) (cases : pstmt)   (* switch bind := e.(type) { cases }; bind "_" when there is none *)
| PCase (tys : list gty) (body rest : pstmt)   (* case T1, T2, ...: body; the default clause closes the chain *)
| PDefault (body : pstmt)
| PEndCases
| POn (fn : bytes) (arg : pexp) (param : var) (body : pstmt)   (* [_ =] On<X>(arg, func(param T) error { body }) *)
| PUnrec (src pos : bytes).

Record pfn := mkpfn { pf_name : bytes; pf_recv : option var; pf_params : list var; pf_body : pstmt }.

Definition pblk (l : list pstmt) : pstmt := fold_right PSeq PSkip l.

(* ------------------------------------------------------------------ values and state *)
Inductive pv :=
| VI (i : item)                                (* an interface value; a struct value or pointer, an IRI, a list *)
| VB (b : bool)
| VS (s : bytes)                               (* every string-kinded Go type *)
| VZ (z : Z)                                   (* every integer-kinded Go type, durations included *)
| VT (t : vtime)
| VN (l : nlv)
| VSrc (mt : bytes) (c : nlv)
| VEp (e : option (list (fid * item)))
| VPk (id owner pem : bytes)
| VZero                                        (* the zero value of a type the model has no other value of: a nil pointer
                                                  to ItemCollection / IRIs / IRI *)
| VRefl (i : item).                            (* reflect.ValueOf(i) *)

Definition pstate := list (var * pv).

Fixpoint pget (k : var) (m : pstate) : option pv :=
  match m with
  | [] => None
  | (k', v) :: r => if bytes_eqb k k' then Some v else pget k r
  end.
Fixpoint pset (k : var) (v : pv) (m : pstate) : pstate :=
  match m with
  | [] => [(k, v)]
  | (k', v') :: r => if bytes_eqb k k' then (k, v) :: r else (k', v') :: pset k v r
  end.
Definition blank : var := B "_".
Definition pbind (k : var) (v : pv) (s : pstate) : pstate := if bytes_eqb k blank then s else pset k v s.

Inductive psignal :=
| GNormal (s : pstate)
| GRet (v : pv)                                (* the function returned v *)
| GRetNil (s : pstate).                        (* the closure returned nil *)

(* what On<X>(x, fn) does with x: run fn on a view, do nothing (nil, or a conversion error that these callers drop),
   run fn on one view after the other (PwRunAll: OnObject handed a list walks its members; fn answers nil each time,
   so the walk goes on), or something the model does not describe (the other On<struct> helpers handed a list) *)
Inductive pview := PwRun (d : pv) | PwRunAll (ds : list pv) | PwSkip | PwOutside.

(* what calls mean; None = a callee the environment does not know *)
Record penv := mkpenv {
  pe_func : bytes -> list pv -> option (outcome pv);
  pe_meth : bytes -> pv -> list pv -> option (outcome pv);
  pe_dyn  : bytes -> item -> list pv -> option (outcome pv);
  pe_on   : bytes -> item -> pview }.

(* ------------------------------------------------------------------ Go types of items *)
Definition dyn_type (i : item) : option (bool * tbase) :=
  match i with
  | INil => None
  | ITNil k => Some (true, TBK k)
  | IIri p _ => Some (p, TBIri)
  | IObj p k _ => Some (p, TBK k)
  | IItems p _ => Some (p, TBItems)
  | IIris p _ => Some (p, TBIris)
  end.

Definition tbase_beq (a b : tbase) : bool :=
  match a, b with
  | TBK x, TBK y => kind_beq x y
  | TBIri, TBIri | TBItems, TBItems | TBIris, TBIris => true
  | _, _ => false
  end.

(* the interface types every item type implements *)
Definition item_ifaces : list bytes := [B "Item"; B "ObjectOrLink"; B "LinkOrIRI"].

(* does the value held by the interface have type t; None = the model cannot tell *)
Definition has_type (t : gty) (i : item) : option bool :=
  match t with
  | GT p b => Some (match dyn_type i with Some (p', b') => Bool.eqb p p' && tbase_beq b b' | None => false end)
  | GIface n => if existsb (bytes_eqb n) item_ifaces
                then Some (match i with INil => false | _ => true end) else None
  | GOther _ => None
  end.

(* the zero value of a type *)
Definition zero_of (t : gty) : pv :=
  match t with
  | GT false (TBK k) => VI (IObj false k [])
  | GT true (TBK k) => VI (ITNil k)
  | GT false TBIri => VI (IIri false [])
  | GT false TBItems => VI (IItems false None)
  | GT false TBIris => VI (IIris false None)
  | GT true _ => VZero
  | GIface _ => VI INil
  | GOther _ => VZero
  end.
Definition zero_named (t : bytes) : option pv :=
  if bytes_eqb t (B "bool") then Some (VB false)
  else if bytes_eqb t (B "ItemCollection") then Some (VI (IItems false None))
  else if bytes_eqb t (B "IRIs") then Some (VI (IIris false None))
  else if existsb (bytes_eqb t) item_ifaces then Some (VI INil)
  else None.

Definition deref_item (i : item) : outcome item :=
  match i with
  | ITNil _ => Panic NilDeref
  | IIri true s => Ok (IIri false s)
  | IObj true k fs => Ok (IObj false k fs)
  | IItems true l => Ok (IItems false l)
  | IIris true l => Ok (IIris false l)
  | _ => Err                                    (* not a pointer *)
  end.

(* ------------------------------------------------------------------ expressions *)
Definition as_str (v : pv) : option bytes :=
  match v with VS s => Some s | VI (IIri false s) => Some s | _ => None end.

Definition lst {A} (o : option (list A)) : list A := match o with Some l => l | None => [] end.

Definition len_of (v : pv) : option nat :=
  match v with
  | VS s | VI (IIri false s) => Some (length s)
  | VI (IItems false l) => Some (length (lst l))
  | VI (IIris false l) => Some (length (lst l))
  | VN l => Some (length (lst l))
  | _ => None
  end.

Definition is_nil_v (t : nilty) (v : pv) : option bool :=
  match t, v with
  | NIface, VI i => Some (match i with INil => true | _ => false end)
  | NIface, VZero => Some true
  | NPtr, VI (ITNil _) => Some true
  | NPtr, VI (IObj true _ _ | IIri true _ | IItems true _ | IIris true _) => Some false
  | NPtr, VZero => Some true
  | NPtr, VEp e => Some (match e with None => true | Some _ => false end)
  | NSlice, VI (IItems false l) => Some (match l with None => true | Some _ => false end)
  | NSlice, VI (IIris false l) => Some (match l with None => true | Some _ => false end)
  | NSlice, VN l => Some (match l with None => true | Some _ => false end)
  | _, _ => None
  end.

(* x.F, F of Go type t, on the property list of a struct *)
Definition field_val (t : gotype) (f : fid) (fs : list (fid * fval)) : option pv :=
  match t with
  | TItem => Some (VI (get_item f fs))
  | TItems => Some (VI (IItems false (get_items f fs)))
  | TNlv => Some (VN (get_nlv f fs))
  | TString => Some (VS (get_str f fs))
  | TTime => Some (VT (get_time f fs))
  | TDur => Some (VZ (get_dur f fs))
  | TUint => Some (VZ (Z.of_N (get_uint f fs)))
  | TInt64 => Some (VZ (match getf f fs with Some (FInt z) => z | _ => 0%Z end))
  | TBool => Some (VB (match getf f fs with Some (FBool b) => b | _ => false end))
  | TFloat => None
  | TSource => Some (match getf f fs with Some (FSource mt c) => VSrc mt c | _ => VSrc [] None end)
  | TEndpoints => Some (VEp (match getf f fs with Some (FEndpoints e) => e | _ => None end))
  | TPubKey => Some (match getf f fs with Some (FPubKey a b c) => VPk a b c | _ => VPk [] [] [] end)
  | TOther _ => None
  end.

Definition sub_val (v : pv) (n : bytes) : option pv :=
  match v with
  | VSrc mt c => if bytes_eqb n (B "MediaType") then Some (VS mt)
                 else if bytes_eqb n (B "Content") then Some (VN c) else None
  | VPk a b c => if bytes_eqb n (B "ID") then Some (VS a)
                 else if bytes_eqb n (B "Owner") then Some (VS b)
                 else if bytes_eqb n (B "PublicKeyPem") then Some (VS c) else None
  | _ => None
  end.

Definition type_list (n : bytes) : option (list bytes) :=
  match find (fun p => bytes_eqb (fst p) n) type_lists with Some p => Some (snd p) | None => None end.

(* functions of other packages *)
Definition leaf_func (f : bytes) (args : list pv) : option (outcome pv) :=
  if bytes_eqb f (B "strings.EqualFold") then
    match args with
    | [a; b] => match as_str a, as_str b with Some x, Some y => Some (Ok (VB (fold_eqb x y))) | _, _ => Some Err end
    | _ => Some Err
    end
  else if bytes_eqb f (B "reflect.ValueOf") then
    match args with [VI i] => Some (Ok (VRefl i)) | _ => Some Err end
  else None.

(* reflect.Kind numbers (reflect/type.go): Pointer = 22, Slice = 23, String = 24, Struct = 25; Invalid = 0 *)
Definition reflect_kind (i : item) : Z :=
  match dyn_type i with
  | None => 0
  | Some (true, _) => 22
  | Some (false, TBK _) => 25
  | Some (false, TBIri) => 24
  | Some (false, _) => 23
  end%Z.

(* methods of types that are no items *)
Definition leaf_meth (m : bytes) (r : pv) (args : list pv) : option (outcome pv) :=
  if bytes_eqb m (B "IRI.String") then
    match as_str r, args with Some s, [] => Some (Ok (VS s)) | _, _ => Some Err end
  else if bytes_eqb m (B "time.Time.IsZero") then
    match r, args with VT t, [] => Some (Ok (VB (vtime_is_zero t))) | _, _ => Some Err end
  else if bytes_eqb m (B "reflect.Value.Kind") then
    match r, args with VRefl i, [] => Some (Ok (VZ (reflect_kind i))) | _, _ => Some Err end
  else if bytes_eqb m (B "reflect.Value.IsNil") then
    match r, args with
    | VRefl (ITNil _), [] => Some (Ok (VB true))
    | VRefl (IItems false None | IIris false None), [] => Some (Ok (VB true))
    | VRefl (IObj true _ _ | IIri true _ | IItems _ _ | IIris _ _), [] => Some (Ok (VB false))
    | VRefl _, [] => Some (Panic BadTypeAssert)          (* reflect: call of Value.IsNil on a struct / string / zero Value *)
    | _, _ => Some Err
    end
  else None.

Definition ocall (o : option (outcome pv)) : outcome pv := match o with Some r => r | None => Err end.

Section Exec.
  Variable E : penv.

  Fixpoint ev (s : pstate) (e : pexp) {struct e} : outcome pv :=
    match e with
    | EVar v => match pget v s with Some x => Ok x | None => Err end
    | EBool b => Ok (VB b)
    | EInt n => Ok (VZ (Z.of_nat n))
    | EStr x => Ok (VS x)
    | ENilOf t => match zero_named t with Some z => Ok z | None => Err end
    | EIsNil t e => obind (ev s e) (fun v => match is_nil_v t v with Some b => Ok (VB b) | None => Err end)
    | ENot e => obind (ev s e) (fun v => match v with VB b => Ok (VB (negb b)) | _ => Err end)
    | EAnd e f => obind (ev s e) (fun v => match v with VB true => ev s f | VB false => Ok (VB false) | _ => Err end)
    | EOr e f => obind (ev s e) (fun v => match v with VB true => Ok (VB true) | VB false => ev s f | _ => Err end)
    | EEq e f =>
        obind (ev s e) (fun a => obind (ev s f) (fun b =>
          match a, b with
          | VZ x, VZ y => Ok (VB (x =? y)%Z)
          | VB x, VB y => Ok (VB (Bool.eqb x y))
          | _, _ => match as_str a, as_str b with Some x, Some y => Ok (VB (bytes_eqb x y)) | _, _ => Err end
          end))
    | EGt e f =>
        obind (ev s e) (fun a => obind (ev s f) (fun b =>
          match a, b with VZ x, VZ y => Ok (VB (y <? x)%Z) | _, _ => Err end))
    | EAdd e f =>
        obind (ev s e) (fun a => obind (ev s f) (fun b =>
          match a, b with VZ x, VZ y => Ok (VZ (x + y)%Z) | _, _ => Err end))
    | ELen e => obind (ev s e) (fun v => match len_of v with Some n => Ok (VZ (Z.of_nat n)) | None => Err end)
    | EField e f t =>
        obind (ev s e) (fun v =>
          match v with
          | VI (IObj _ _ fs) => match field_val t f fs with Some x => Ok x | None => Err end
          | VI (ITNil _) => Panic NilDeref
          | _ => Err
          end)
    | ESub e n => obind (ev s e) (fun v => match sub_val v n with Some x => Ok x | None => Err end)
    | EConv _ e => obind (ev s e) (fun v => match as_str v with Some x => Ok (VS x) | None => Err end)
    | EDeref e => obind (ev s e) (fun v => match v with
                                           | VI i => omap VI (deref_item i)
                                           | VZero => Panic NilDeref
                                           | _ => Err
                                           end)
    | EIndex e n =>
        obind (ev s e) (fun v =>
          match v with
          | VI (IItems false l) => match nth_error (lst l) n with Some x => Ok (VI x) | None => Panic IndexOutOfRange end
          | _ => Err
          end)
    | ELit1 t e =>
        if bytes_eqb t (B "ItemCollection")
        then obind (ev s e) (fun v => match v with VI x => Ok (VI (IItems false (Some [x]))) | _ => Err end)
        else Err
    | ETypeIn l e =>
        match type_list l with
        | Some tl => obind (ev s e) (fun v => match as_str v with Some x => Ok (VB (tl_contains tl x)) | None => Err end)
        | None => Err
        end
    | ECall f args =>
        obind (evl s args) (fun vs =>
          match leaf_func f vs with Some r => r | None => ocall (pe_func E f vs) end)
    | EDyn m r args =>
        obind (ev s r) (fun v => obind (evl s args) (fun vs =>
          match v with VI i => ocall (pe_dyn E m i vs) | _ => Err end))
    | EMeth m r args =>
        obind (ev s r) (fun v => obind (evl s args) (fun vs =>
          match leaf_meth m v vs with Some r => r | None => ocall (pe_meth E m v vs) end))
    | ENoArg | EArg _ _ => Err
    | EUnrec _ _ => Err
    end
  with evl (s : pstate) (e : pexp) {struct e} : outcome (list pv) :=
    match e with
    | ENoArg => Ok []
    | EArg a r => obind (ev s a) (fun v => obind (evl s r) (fun vs => Ok (v :: vs)))
    | _ => Err
    end.

  Definition ev_bool (s : pstate) (e : pexp) : outcome bool :=
    obind (ev s e) (fun v => match v with VB b => Ok b | _ => Err end).

  Fixpoint exec (c : pstmt) (s : pstate) {struct c} : outcome psignal :=
    match c with
    | PSkip => Ok (GNormal s)
    | PSeq a b => obind (exec a s) (fun g => match g with GNormal s' => exec b s' | other => Ok other end)
    | PReturn e => obind (ev s e) (fun v => Ok (GRet v))
    | PReturnNil => Ok (GRetNil s)
    | PIf c t e => obind (ev_bool s c) (fun b => if b then exec t s else exec e s)
    | PDecl v e => obind (ev s e) (fun x => Ok (GNormal (pbind v x s)))
    | PVarZero v t => match zero_named t with Some z => Ok (GNormal (pbind v z s)) | None => Err end
    | PSet v e =>
        match pget v s with
        | Some _ => obind (ev s e) (fun x => Ok (GNormal (pset v x s)))
        | None => Err                              (* assignment to an undeclared variable *)
        end
    | PAssert v ok t e =>
        obind (ev s e) (fun x =>
          match x with
          | VI i => match has_type t i with
                    | Some true => Ok (GNormal (pbind ok (VB true) (pbind v (VI i) s)))
                    | Some false => Ok (GNormal (pbind ok (VB false) (pbind v (zero_of t) s)))
                    | None => Err
                    end
          | _ => Err
          end)
    | PSwitch bind e cases =>
        obind (ev s e) (fun x => match x with VI i => exec_cases cases bind i s | _ => Err end)
    | PCase _ _ _ | PDefault _ | PEndCases => Err    (* outside a switch *)
    | POn fn arg param body =>
        obind (ev s arg) (fun x =>
          match x with
          | VI i =>
              match pe_on E fn i with
              | PwOutside => Err
              | PwSkip => Ok (GNormal s)
              | PwRunAll ds =>
                  (fix all (ds : list pv) (s : pstate) {struct ds} : outcome psignal :=
                     match ds with
                     | [] => Ok (GNormal s)
                     | d :: r =>
                         obind (exec body (pbind param d s))
                               (fun g => match g with
                                         | GNormal s' | GRetNil s' => all r s'
                                         | GRet _ => Err
                                         end)
                     end) ds s
              | PwRun d =>
                  obind (exec body (pbind param d s))
                        (fun g => match g with
                                  | GNormal s' | GRetNil s' => Ok (GNormal s')
                                  | GRet _ => Err    (* a closure returning error cannot return a value *)
                                  end)
              end
          | _ => Err
          end)
    | PUnrec _ _ => Err
    end
  with exec_cases (c : pstmt) (bind : var) (i : item) (s : pstate) {struct c} : outcome psignal :=
    match c with
    | PCase tys body rest =>
        (fix any (l : list gty) : outcome psignal :=
           match l with
           | [] => exec_cases rest bind i s
           | t :: r => match has_type t i with
                       | Some true => exec body (pbind bind (VI i) s)
                       | Some false => any r
                       | None => Err
                       end
           end) tys
    | PDefault body => exec body (pbind bind (VI i) s)
    | PEndCases => Ok (GNormal s)
    | _ => Err
    end.

  Fixpoint bind_all (ps : list var) (ds : list pv) (s : pstate) : option pstate :=
    match ps, ds with
    | [], [] => Some s
    | p :: ps', d :: ds' => bind_all ps' ds' (pbind p d s)
    | _, _ => None
    end.

  (* a call: falling off the end of a function that returns a value is not Go *)
  Definition run_pfn (f : pfn) (recv : option pv) (args : list pv) : outcome pv :=
    match (match pf_recv f, recv with
           | Some r, Some d => bind_all (pf_params f) args (pbind r d [])
           | None, None => bind_all (pf_params f) args []
           | _, _ => None
           end) with
    | None => Err
    | Some s => obind (exec (pf_body f) s) (fun g => match g with GRet v => Ok v | _ => Err end)
    end.
End Exec.

(* ------------------------------------------------------------------ the table closed over itself *)
Definition pfn_named (tbl : list pfn) (n : bytes) : option pfn := find (fun f => bytes_eqb (pf_name f) n) tbl.

Definition base_name (b : tbase) : bytes :=
  match b with TBK k => kind_go_name k | TBIri => B "IRI" | TBItems => B "ItemCollection" | TBIris => B "IRIs" end.
Definition meth_name (b : tbase) (m : bytes) : bytes := base_name b ++ x2e :: m.
Definition pmeth_name (b : tbase) (m : bytes) : bytes := x2a :: meth_name b m.

(* i.M(args) through an interface: the method of the dynamic type, from the table.  A nil interface and a
   value-receiver method reached through a nil pointer panic; a value-receiver method receives a copy of what the
   pointer points to; a pointer-receiver method is not in the method set of a value *)
Definition dyn_call (E : penv) (tbl : list pfn) (m : bytes) (i : item) (args : list pv) : outcome pv :=
  match dyn_type i with
  | None => Panic NilDeref
  | Some (p, b) =>
      match pfn_named tbl (meth_name b m) with
      | Some f =>
          if p then match i with
                    | ITNil _ => Panic ValueMethodOnNilPtr
                    | _ => obind (deref_item i) (fun d => run_pfn E f (Some (VI d)) args)
                    end
          else run_pfn E f (Some (VI i)) args
      | None =>
          match pfn_named tbl (pmeth_name b m) with
          | Some f => if p then run_pfn E f (Some (VI i)) args else Err
          | None => Err
          end
      end
  end.

(* a statically resolved method of an item type: value receivers take a copy (a pointer is dereferenced at the
   call), pointer receivers the pointer *)
Definition static_call (E : penv) (tbl : list pfn) (m : bytes) (r : pv) (args : list pv) : option (outcome pv) :=
  match pfn_named tbl m with
  | None => None
  | Some f =>
      Some (match m, r with
            | x2a :: _, _ => run_pfn E f (Some r) args
            | _, VI i => match dyn_type i with
                         | Some (true, _) => obind (deref_item i) (fun d => run_pfn E f (Some (VI d)) args)
                         | _ => run_pfn E f (Some r) args
                         end
            | _, _ => run_pfn E f (Some r) args
            end)
  end.

(* ---- On<X>(x, fn): hand-written (the conversion family is the subject of Gen/Conv.v, Gen/Casts.v and C08);
   [on_view_nil_ok] below compares the nil-like rows with the generated conversion tables ---- *)
Definition on_target (fn : bytes) : option kind :=
  match fn with
  | x4f :: x6e :: r => kind_named r
  | _ => None
  end.

Definition is_coll_kind (k : kind) : bool :=
  match k with KCollection | KCollectionPage | KOrdered | KOrderedPage => true | _ => false end.

(* OnObject handed a list (helpers.go OnObject: OnItemCollection, then for each member `if IsNil(it) || IsLink(it)
   { continue }; if err := OnObject(it, fn); err != nil { return err }`): the pointers fn is handed, in order -
   nested lists opened, nil and Link members passed over, every other member converted with ToObject; the first
   member ToObject refuses (a struct whose layout Object is no prefix of, an IRI that is not nil) ends the walk (the
   flag is false then).  Hand-written after the code (the loops themselves are generated into Gen/OnT.v and proved
   against Model/OnTab.visit); tied to the real NotEmpty by the list cases of Cases_C20_predlist *)
Fixpoint walk_views (d : kind) (i : item) {struct i} : list pv * bool :=
  match i with
  | IItems _ (Some l) =>
      (fix go (l : list item) : list pv * bool :=
         match l with
         | [] => ([], true)
         | m :: r => if is_nil m || is_link m then go r
                     else let (a, ok) := walk_views d m in
                          if ok then let (b, ok') := go r in (a ++ b, ok') else (a, false)
         end) l
  | IItems _ None => ([], true)
  | IIris _ lo => ([], forallb (fun s => is_nil (IIri false s)) (lst lo))
  | IObj _ k fs => if Equal.cast_ok d k then ([VI (IObj true d fs)], true) else ([], false)
  | IIri _ _ => ([], false)
  | INil | ITNil _ => ([], true)
  end.

(* the pointer handed to fn: the value seen at the target type (the property list is shared: C08) *)
Definition on_view (fn : bytes) (i : item) : pview :=
  if bytes_eqb fn (B "OnCollectionIntf") then
    (* IsNil -> nothing; then a switch on GetType() over the six collection type names, To<that type>, fn *)
    if is_nil i then PwSkip else
    match i with
    | IItems _ l => PwRun (VI (IItems true l))
    | IIris _ l => PwRun (VI (IItems true (Some (map (IIri false) (lst l)))))
    | IObj _ k fs =>
        match kind_named (get_str F_Type fs) with
        | Some d => if is_coll_kind d && Equal.cast_ok d k then PwRun (VI (IObj true d fs)) else PwSkip
        | None => PwSkip
        end
    | _ => PwSkip
    end
  else if bytes_eqb fn (B "OnItemCollection") then
    match i with
    | INil => PwSkip
    | _ => if is_nil i then PwRun VZero                    (* ToItemCollection: IsNil -> (nil, nil); fn(nil) *)
           else match to_item_collection i with
                | Some l => PwRun (VI (IItems true (match i with IItems _ None => None | _ => Some l end)))
                | None => PwSkip
                end
    end
  else match on_target fn with
       | None => PwOutside
       | Some d =>
           match i with
           | INil => PwSkip                                 (* `if it == nil { return nil }` *)
           | ITNil k =>                                     (* a case of the switch casts the nil pointer; the default
                                                               (reflectItemToType) answers (nil, nil) for what IsNil *)
               match d with KLink => if kind_beq k KLink then PwRun (VI (ITNil KLink)) else PwSkip
                          | _ => PwRun (VI (ITNil d)) end
           | IObj _ k fs => if Equal.cast_ok d k then PwRun (VI (IObj true d fs)) else PwSkip
           | IIri _ _ => match d with KLink => PwSkip
                                 | _ => if is_nil i then PwRun (VI (ITNil d)) else PwSkip end
           | IItems _ _ | IIris _ _ => match d with
                                       | KLink => PwSkip
                                       | KObject => PwRunAll (fst (walk_views KObject i))
                                       | _ => PwOutside
                                       end
           end
       end.

(* the functions of the table, closed over each other level by level: at level n+1 every call is answered by the
   callee's body run at level n (no function of the table is recursive; the longest chain is
   NotEmpty > notEmptyActivity > notEmptyInstransitiveActivity > notEmptyObject, plus one for a method call) *)
Fixpoint env_at (tbl : list pfn) (n : nat) : penv :=
  match n with
  | O => mkpenv (fun _ _ => None) (fun _ _ _ => None) (fun _ _ _ => None) on_view
  | S k =>
      let E := env_at tbl k in
      mkpenv (fun f args => match pfn_named tbl f with
                            | Some g => Some (run_pfn E g None args)
                            | None => None
                            end)
             (fun m r args => static_call E tbl m r args)
             (fun m i args => Some (dyn_call E tbl m i args))
             on_view
  end.

Definition pred_depth : nat := 6.

(* f(args) / i.M() as the table says *)
Definition sem_func (tbl : list pfn) (f : bytes) (args : list pv) : outcome pv :=
  ocall (pe_func (env_at tbl pred_depth) f args).
Definition sem_dyn (tbl : list pfn) (m : bytes) (i : item) : outcome pv :=
  ocall (pe_dyn (env_at tbl pred_depth) m i []).
Definition sem_static (tbl : list pfn) (m : bytes) (r : pv) : outcome pv :=
  ocall (pe_meth (env_at tbl pred_depth) m r []).

Definition as_bool (o : outcome pv) : outcome bool := obind o (fun v => match v with VB b => Ok b | _ => Err end).
Definition as_bytes (o : outcome pv) : outcome bytes :=
  obind o (fun v => match as_str v with Some s => Ok s | None => Err end).
Definition as_item (o : outcome pv) : outcome item := obind o (fun v => match v with VI i => Ok i | _ => Err end).

Definition sem_pred (tbl : list pfn) (f : bytes) (i : item) : outcome bool := as_bool (sem_func tbl f [VI i]).

(* ------------------------------------------------------------------ the model's side of the condition *)
(* the statement sequences the hand-written functions were written after.  Proofs/PredTabP.v proves that,
   interpreted, they ARE those functions. *)
Definition v_it := B "it".
Definition arg1 (e : pexp) : pexp := EArg e ENoArg.
Definition e_it := EVar v_it.

Definition two_asserts (n : bytes) (ok1 ok2 : var) (b : tbase) (tail : pexp -> pexp) : pfn :=
  mkpfn n None [v_it] (pblk [
    PAssert blank ok1 (GT false b) e_it;
    PAssert blank ok2 (GT true b) e_it;
    PReturn (tail (EOr (EVar ok1) (EVar ok2)))]).

Definition m_is_iri : pfn := two_asserts (B "IsIRI") (B "okV") (B "okP") TBIri (fun e => e).
Definition m_is_iris : pfn := two_asserts (B "IsIRIs") (B "okV") (B "okP") TBIris (fun e => e).
Definition m_is_link : pfn := two_asserts (B "IsLink") (B "okV") (B "okP") (TBK KLink) (fun e => e).
Definition m_is_item_collection : pfn :=
  two_asserts (B "IsItemCollection") (B "ok") (B "okP") TBItems (fun e => EOr e (ECall (B "IsIRIs") (arg1 e_it))).

(* the case list of IsObject: the thirteen object kinds, value and pointer form, in the order of the source *)
Definition object_case_kinds : list kind :=
  [KActor; KObject; KProfile; KPlace; KRelationship; KTombstone; KActivity; KIntransitive; KQuestion;
   KCollection; KCollectionPage; KOrdered; KOrderedPage].
Definition m_is_object : pfn := mkpfn (B "IsObject") None [v_it] (pblk [
  PSwitch (B "ob") e_it
    (PCase (flat_map (fun k => [GT false (TBK k); GT true (TBK k)]) object_case_kinds)
           (pblk [PReturn (ENot (EIsNil NIface (EVar (B "ob"))))])
           (PDefault (pblk [PReturn (EBool false)])))]).

Definition assert_return (b : tbase) (p : bool) : list pstmt :=
  [PAssert (B "v") (B "ok") (GT p b) e_it;
   PIf (EVar (B "ok")) (pblk [PReturn (EIsNil (if p then NPtr else NSlice) (EVar (B "v")))]) PSkip].
Definition on_nil_test (fn : bytes) (arg : pexp) (p : var) : pstmt :=
  POn fn arg p (pblk [PSet (B "isNil") (EIsNil NPtr (EVar p)); PReturnNil]).
Definition e_getlink := EDyn (B "GetLink") e_it ENoArg.

Definition m_is_nil : pfn := mkpfn (B "IsNil") None [v_it] (pblk [
  PIf (EIsNil NIface e_it) (pblk [PReturn (EBool true)]) PSkip;
  PDecl (B "isNil") (EBool false);
  PIf (ECall (B "IsIRI") (arg1 e_it))
    (pblk [(* since the repair "IsNil panicked on a nil *IRI": a nil pointer to an IRI is nil, asked before the value-receiver
              method GetLink is called through it (a nil *IRI has no rendering as a model item: on every item of the model
              this test is false) *)
           PAssert (B "p") (B "ok") (GT true TBIri) e_it;
           PIf (EAnd (EVar (B "ok")) (EIsNil NPtr (EVar (B "p")))) (pblk [PReturn (EBool true)]) PSkip;
           PSet (B "isNil")
             (EOr (EEq (ELen e_getlink) (EInt 0))
                  (ECall (B "strings.EqualFold")
                         (EArg (EMeth (B "IRI.String") e_getlink ENoArg)
                               (EArg (EMeth (B "IRI.String") (EStr (B "-")) ENoArg) ENoArg))))])
  (PIf (ECall (B "IsItemCollection") (arg1 e_it))
    (pblk (assert_return TBItems false ++ assert_return TBItems true ++ assert_return TBIris false ++ assert_return TBIris true))
  (PIf (ECall (B "IsObject") (arg1 e_it))
    (pblk [PAssert (B "ob") (B "ok") (GIface (B "Item")) e_it;
           PIf (EVar (B "ok")) (pblk [on_nil_test (B "OnObject") (EVar (B "ob")) (B "o")]) PSkip])
  (PIf (ECall (B "IsLink") (arg1 e_it))
    (pblk [on_nil_test (B "OnLink") e_it (B "l")])
    (pblk [PDecl (B "v") (ECall (B "reflect.ValueOf") (arg1 e_it));
           PSet (B "isNil") (EAnd (EEq (EMeth (B "reflect.Value.Kind") (EVar (B "v")) ENoArg) (EInt 22))
                                  (EMeth (B "reflect.Value.IsNil") (EVar (B "v")) ENoArg))]))));
  PReturn (EVar (B "isNil"))]).

(* ItemCollection.Normalize *)
Definition e_i := EVar (B "i").
Definition m_normalize : pfn := mkpfn (B "ItemCollection.Normalize") (Some (B "i")) [] (pblk [
  PIf (EEq (ELen e_i) (EInt 0)) (pblk [PReturn (ENilOf (B "ObjectOrLink"))]) PSkip;
  PIf (EEq (ELen e_i) (EInt 1)) (pblk [PReturn (EIndex e_i 0)]) PSkip;
  PReturn e_i]).

(* ---- NotEmpty and its helpers ---- *)
Definition set_str (x : pexp) (f : fid) : pexp := EGt (ELen (EField x f TString)) (EInt 0).
Definition nn_item (x : pexp) (f : fid) : pexp := ENot (EIsNil NIface (EField x f TItem)).
Definition nn_items (x : pexp) (f : fid) : pexp := ENot (EIsNil NSlice (EField x f TItems)).
Definition nn_nlv (x : pexp) (f : fid) : pexp := ENot (EIsNil NSlice (EField x f TNlv)).
Definition set_time (x : pexp) (f : fid) : pexp := ENot (EMeth (B "time.Time.IsZero") (EField x f TTime) ENoArg).
Definition ors (l : list pexp) : pexp :=
  match l with [] => EBool false | a :: r => fold_left EOr r a end.

Definition e_o := EVar (B "o").
Definition object_clauses : list pexp :=
  [set_str e_o F_ID; set_str e_o F_Type; ETypeIn (B "ActivityTypes") (EField e_o F_Type TString);
   nn_nlv e_o F_Content; nn_item e_o F_Attachment; nn_item e_o F_AttributedTo; nn_items e_o F_Audience;
   nn_items e_o F_BCC; nn_items e_o F_Bto; nn_items e_o F_CC; nn_item e_o F_Context;
   ENot (EEq (EField e_o F_Duration TDur) (EInt 0)); set_time e_o F_EndTime; nn_item e_o F_Generator;
   nn_item e_o F_Icon; nn_item e_o F_Image; nn_item e_o F_InReplyTo; nn_item e_o F_Likes; nn_item e_o F_Location;
   set_str e_o F_MediaType; nn_nlv e_o F_Name; nn_item e_o F_Preview; set_time e_o F_Published; nn_item e_o F_Replies;
   nn_item e_o F_Shares;
   ENot (EEq (ESub (EField e_o F_Source TSource) (B "MediaType")) (EStr []));
   ENot (EIsNil NSlice (ESub (EField e_o F_Source TSource) (B "Content")));
   set_time e_o F_StartTime; nn_nlv e_o F_Summary; nn_items e_o F_Tag; nn_items e_o F_To; set_time e_o F_Updated;
   nn_item e_o F_URL].
Definition m_ne_object : pfn := mkpfn (B "notEmptyObject") None [B "o"] (pblk [
  PIf (EIsNil NPtr e_o) (pblk [PReturn (EBool false)]) PSkip;
  PReturn (ors object_clauses)]).

Definition e_l := EVar (B "l").
Definition m_ne_link : pfn := mkpfn (B "notEmptyLink") None [B "l"] (pblk [
  PReturn (ors [set_str e_l F_ID; ETypeIn (B "LinkTypes") (EField e_l F_Type TString); set_str e_l F_MediaType;
                nn_item e_l F_Preview; nn_nlv e_l F_Name; set_str e_l F_Href; set_str e_l F_Rel; set_str e_l F_HrefLang;
                EGt (EField e_l F_Height TUint) (EInt 0); EGt (EField e_l F_Width TUint) (EInt 0)])]).

Definition v_ne := B "notEmpty".
Definition on_set_ne (fn : bytes) (arg : pexp) (p : var) (callee : bytes) : pstmt :=
  POn fn arg p (pblk [PSet v_ne (ECall callee (arg1 (EVar p))); PReturnNil]).

Definition m_ne_intransitive : pfn := mkpfn (B "notEmptyInstransitiveActivity") None [B "i"] (pblk [
  PDecl v_ne (ors [nn_item e_i F_Actor; nn_item e_i F_Target; nn_item e_i F_Result; nn_item e_i F_Origin;
                   nn_item e_i F_Instrument]);
  PIf (EVar v_ne) (pblk [PReturn (EBool true)]) PSkip;
  on_set_ne (B "OnObject") e_i (B "ob") (B "notEmptyObject");
  PReturn (EVar v_ne)]).

Definition e_a := EVar (B "a").
Definition m_ne_activity : pfn := mkpfn (B "notEmptyActivity") None [B "a"] (pblk [
  PVarZero v_ne (B "bool");
  on_set_ne (B "OnIntransitiveActivity") e_a (B "i") (B "notEmptyInstransitiveActivity");
  PReturn (EOr (EVar v_ne) (nn_item e_a F_Object))]).

Definition pk_len (n : bytes) : pexp := ELen (ESub (EField e_a F_PublicKey TPubKey) n).
Definition m_ne_actor : pfn := mkpfn (B "notEmptyActor") None [B "a"] (pblk [
  PVarZero v_ne (B "bool");
  on_set_ne (B "OnObject") e_a (B "o") (B "notEmptyObject");
  PReturn (ors [EVar v_ne; nn_item e_a F_Inbox; nn_item e_a F_Outbox; nn_item e_a F_Following; nn_item e_a F_Followers;
                nn_item e_a F_Liked; nn_nlv e_a F_PreferredUsername;
                ENot (EIsNil NPtr (EField e_a F_Endpoints TEndpoints)); nn_items e_a F_Streams;
                EGt (EAdd (EAdd (pk_len (B "ID")) (pk_len (B "Owner"))) (pk_len (B "PublicKeyPem"))) (EInt 0)])]).

Definition e_gettype := EDyn (B "GetType") e_i ENoArg.
Definition m_not_empty : pfn := mkpfn (B "NotEmpty") None [B "i"] (pblk [
  PIf (ECall (B "IsNil") (arg1 e_i)) (pblk [PReturn (EBool false)]) PSkip;
  PVarZero v_ne (B "bool");
  PIf (ECall (B "IsIRI") (arg1 e_i))
      (pblk [PSet v_ne (EGt (ELen (EDyn (B "GetLink") e_i ENoArg)) (EInt 0))]) PSkip;
  PIf (EDyn (B "IsCollection") e_i ENoArg)
      (pblk [POn (B "OnCollectionIntf") e_i (B "c") (pblk [
               PSet v_ne (EOr (ENot (EIsNil NIface (EVar (B "c"))))
                              (EGt (ELen (EDyn (B "Collection") (EVar (B "c")) ENoArg)) (EInt 0)));
               PReturnNil])]) PSkip;
  PIf (ETypeIn (B "ActivityTypes") e_gettype)
      (pblk [on_set_ne (B "OnActivity") e_i (B "a") (B "notEmptyActivity")])
  (PIf (ETypeIn (B "ActorTypes") e_gettype)
      (pblk [on_set_ne (B "OnActor") e_i (B "a") (B "notEmptyActor")])
  (PIf (EDyn (B "IsLink") e_i ENoArg)
      (pblk [on_set_ne (B "OnLink") e_i (B "l") (B "notEmptyLink")])
      (pblk [on_set_ne (B "OnObject") e_i (B "o") (B "notEmptyObject")])));
  PReturn (EVar v_ne)]).

Definition model_fns : list pfn := Eval vm_compute in
  [m_is_iri; m_is_iris; m_is_link; m_is_item_collection; m_is_object; m_is_nil; m_normalize;
   m_ne_object; m_ne_link; m_ne_intransitive; m_ne_activity; m_ne_actor; m_not_empty].

(* ---- the interface methods of the seventeen item types: the body each must have, up to the name of the receiver ---- *)
Inductive mshape :=
| MConstBool (b : bool)                        (* return true / false *)
| MConstStr (s : bytes)                        (* return <string constant> *)
| MRecv                                        (* return r *)
| MField (f : fid)                             (* return r.F *)
| MConvField (t : bytes) (f : fid)             (* return T(r.F) *)
| MTypeIs (c l : bytes).                       (* return r.Type == c || <l>.Contains(r.Type) *)

Definition shape_body (r : var) (sh : mshape) : pstmt :=
  pblk [PReturn (match sh with
                 | MConstBool b => EBool b
                 | MConstStr s => EStr s
                 | MRecv => EVar r
                 | MField f => EField (EVar r) f TString
                 | MConvField t f => EConv t (EField (EVar r) f TString)
                 | MTypeIs c l => EOr (EEq (EField (EVar r) F_Type TString) (EStr c)) (ETypeIn l (EField (EVar r) F_Type TString))
                 end)].

Definition m_GetLink := B "GetLink".
Definition m_GetID := B "GetID".
Definition m_GetType := B "GetType".
Definition m_IsObject := B "IsObject".
Definition m_IsLink := B "IsLink".
Definition m_IsCollection := B "IsCollection".
Definition iface_methods : list bytes := [m_GetLink; m_GetID; m_GetType; m_IsObject; m_IsLink; m_IsCollection].

Definition all_tbases : list tbase := map TBK all_kinds ++ [TBIri; TBItems; TBIris].

(* what the hand-written model says each method is *)
Definition expected_shape (b : tbase) (m : bytes) : option mshape :=
  if bytes_eqb m m_GetLink then
    Some (match b with TBK _ => MConvField (B "IRI") F_ID | TBIri => MRecv | _ => MConstStr [] end)
  else if bytes_eqb m m_GetID then
    Some (match b with TBK _ => MField F_ID | TBIri => MRecv | _ => MConstStr [] end)
  else if bytes_eqb m m_GetType then
    Some (match b with TBK _ => MField F_Type | TBIri => MConstStr iri_type
                     | TBItems => MConstStr collection_of_items | TBIris => MConstStr collection_of_iris end)
  else if bytes_eqb m m_IsObject then
    Some (match b with TBK KLink => MTypeIs (B "Object") (B "ObjectTypes") | TBK _ => MConstBool true | _ => MConstBool false end)
  else if bytes_eqb m m_IsLink then
    Some (match b with TBK KLink => MTypeIs (B "Link") (B "LinkTypes") | TBIri => MConstBool true | _ => MConstBool false end)
  else if bytes_eqb m m_IsCollection then
    Some (match b with TBK k => MConstBool (is_coll_kind k) | TBIri => MConstBool false | _ => MConstBool true end)
  else None.

(* ------------------------------------------------------------------ decidable equality of bodies *)
Definition gty_beq (a b : gty) : bool :=
  match a, b with
  | GT p x, GT q y => Bool.eqb p q && tbase_beq x y
  | GIface x, GIface y | GOther x, GOther y => bytes_eqb x y
  | _, _ => false
  end.
Definition nilty_beq (a b : nilty) : bool :=
  match a, b with NIface, NIface | NPtr, NPtr | NSlice, NSlice => true | _, _ => false end.

Fixpoint pexp_beq (a b : pexp) : bool :=
  match a, b with
  | EVar x, EVar y | EStr x, EStr y | ENilOf x, ENilOf y => bytes_eqb x y
  | EBool x, EBool y => Bool.eqb x y
  | EInt x, EInt y => Nat.eqb x y
  | EIsNil t x, EIsNil u y => nilty_beq t u && pexp_beq x y
  | ENot x, ENot y | ELen x, ELen y | EDeref x, EDeref y => pexp_beq x y
  | EAnd x1 x2, EAnd y1 y2 | EOr x1 x2, EOr y1 y2 | EEq x1 x2, EEq y1 y2 | EGt x1 x2, EGt y1 y2
  | EAdd x1 x2, EAdd y1 y2 | EArg x1 x2, EArg y1 y2 => pexp_beq x1 y1 && pexp_beq x2 y2
  | EField x f t, EField y g u => pexp_beq x y && fid_beq f g && gotype_eqb t u
  | ESub x n, ESub y m => pexp_beq x y && bytes_eqb n m
  | EConv t x, EConv u y | ELit1 t x, ELit1 u y | ETypeIn t x, ETypeIn u y | ECall t x, ECall u y =>
      bytes_eqb t u && pexp_beq x y
  | EIndex x n, EIndex y m => pexp_beq x y && Nat.eqb n m
  | EDyn m r x, EDyn m' r' y | EMeth m r x, EMeth m' r' y => bytes_eqb m m' && pexp_beq r r' && pexp_beq x y
  | ENoArg, ENoArg => true
  | EUnrec s p, EUnrec s' p' => bytes_eqb s s' && bytes_eqb p p'
  | _, _ => false
  end.

Fixpoint pstmt_beq (a b : pstmt) : bool :=
  match a, b with
  | PSkip, PSkip | PReturnNil, PReturnNil | PEndCases, PEndCases => true
  | PSeq x1 x2, PSeq y1 y2 => pstmt_beq x1 y1 && pstmt_beq x2 y2
  | PReturn x, PReturn y => pexp_beq x y
  | PIf c t e, PIf c' t' e' => pexp_beq c c' && pstmt_beq t t' && pstmt_beq e e'
  | PDecl v e, PDecl v' e' | PSet v e, PSet v' e' => bytes_eqb v v' && pexp_beq e e'
  | PVarZero v t, PVarZero v' t' => bytes_eqb v v' && bytes_eqb t t'
  | PAssert v o t e, PAssert v' o' t' e' => bytes_eqb v v' && bytes_eqb o o' && gty_beq t t' && pexp_beq e e'
  | PSwitch v e c, PSwitch v' e' c' => bytes_eqb v v' && pexp_beq e e' && pstmt_beq c c'
  | PCase l x r, PCase l' x' r' => lbeq gty_beq l l' && pstmt_beq x x' && pstmt_beq r r'
  | PDefault x, PDefault y => pstmt_beq x y
  | POn f a p x, POn f' a' p' y => bytes_eqb f f' && pexp_beq a a' && bytes_eqb p p' && pstmt_beq x y
  | PUnrec s p, PUnrec s' p' => bytes_eqb s s' && bytes_eqb p p'
  | _, _ => false
  end.

Definition ovar_beq (a b : option var) : bool :=
  match a, b with Some x, Some y => bytes_eqb x y | None, None => true | _, _ => false end.
Definition pfn_beq (a b : pfn) : bool :=
  bytes_eqb (pf_name a) (pf_name b) && ovar_beq (pf_recv a) (pf_recv b)
  && lbeq bytes_eqb (pf_params a) (pf_params b) && pstmt_beq (pf_body a) (pf_body b).

(* ------------------------------------------------------------------ the table condition *)
Fixpoint nodup_bytes (l : list bytes) : bool :=
  match l with [] => true | x :: r => negb (existsb (bytes_eqb x) r) && nodup_bytes r end.

Definition fn_matches (tbl : list pfn) (m : pfn) : bool :=
  match pfn_named tbl (pf_name m) with Some f => pfn_beq f m | None => false end.

(* the method M of type b: declared with a value receiver, no parameters, the expected body *)
Definition method_matches (tbl : list pfn) (b : tbase) (m : bytes) : bool :=
  match pfn_named tbl (meth_name b m), expected_shape b m with
  | Some f, Some sh =>
      match pf_recv f with
      | Some r => pfn_beq f (mkpfn (meth_name b m) (Some r) [] (shape_body r sh)) && negb (bytes_eqb r blank)
      | None => false
      end
  | _, _ => false
  end.

Definition methods_ok (tbl : list pfn) : bool :=
  forallb (fun b => forallb (method_matches tbl b) iface_methods) all_tbases.
Definition fns_ok (tbl : list pfn) : bool := forallb (fn_matches tbl) model_fns.

Definition pred_table_ok (tbl : list pfn) : bool :=
  fns_ok tbl && methods_ok tbl && nodup_bytes (map pf_name tbl).

(* diagnosis: the first function or method that differs; for a function the top-level statement at which the bodies
   part (position, generated, modelled); for a method the body found and the shape expected *)
Fixpoint unblk (s : pstmt) : list pstmt :=
  match s with PSeq a b => a :: unblk b | PSkip => [] | other => [other] end.
Fixpoint first_diff_stmt (n : nat) (a b : list pstmt) : option (nat * option pstmt * option pstmt) :=
  match a, b with
  | [], [] => None
  | x :: a', y :: b' => if pstmt_beq x y then first_diff_stmt (S n) a' b' else Some (n, Some x, Some y)
  | x :: _, [] => Some (n, Some x, None)
  | [], y :: _ => Some (n, None, Some y)
  end.

Inductive pred_diag :=
| BadFn (name : bytes) (d : option (nat * option pstmt * option pstmt))
| BadMethod (name : bytes) (found : option pfn) (expected : option mshape).

Definition first_bad_pred (tbl : list pfn) : option pred_diag :=
  match find (fun m => negb (fn_matches tbl m)) model_fns with
  | Some m =>
      Some (BadFn (pf_name m) (match pfn_named tbl (pf_name m) with
                               | Some f => first_diff_stmt 0 (unblk (pf_body f)) (unblk (pf_body m))
                               | None => None
                               end))
  | None =>
      match find (fun bm => negb (method_matches tbl (fst bm) (snd bm)))
                 (flat_map (fun b => map (fun m => (b, m)) iface_methods) all_tbases) with
      | Some (b, m) => Some (BadMethod (meth_name b m) (pfn_named tbl (meth_name b m)) (expected_shape b m))
      | None => None
      end
  end.

(* where a diagnosis points: name, and for a function the position of the first differing top-level statement *)
Definition diag_where (d : option pred_diag) : option (bytes * option nat) :=
  match d with
  | Some (BadFn n (Some (k, _, _))) => Some (n, Some k)
  | Some (BadFn n None) | Some (BadMethod n _ _) => Some (n, None)
  | None => None
  end.

(* ------------------------------------------------------------------ On<X> on nil-like items against the conversion tables *)
(* what Model/NilMatrix.on_out computes from Gen/Conv.v for On<X>(n, fn), n nil-like: is fn called (with a nil
   pointer), or not *)
From AP.Model Require Import Views Conv NilMatrix.
Definition on_struct_names : list bytes :=
  [B "OnObject"; B "OnLink"; B "OnActivity"; B "OnIntransitiveActivity"; B "OnActor"].
Definition view_class (v : pview) : nil_cb :=
  match v with PwRun (VI (ITNil _)) | PwRun VZero => CbNilPtr | PwRun _ => CbNonNil | _ => CbNone end.
Definition on_view_nil_ok (conv_tables : list (bytes * list conv_case * conv_action)) : bool :=
  forallb (fun fn => forallb (fun n =>
      match no_cb (nil_matrix conv_tables fn n), view_class (on_view fn n) with
      | CbNone, CbNone | CbNilPtr, CbNilPtr => true
      | _, _ => false
      end) (INil :: map ITNil all_kinds)) on_struct_names.

(* the same for struct values: for each On<X> used by the predicates, each of the 14 struct kinds and both forms, fn runs
   on a pointer of the target kind exactly where To<X> of Gen/Conv.v answers with a view (a case of its switch, over a
   prefix-compatible layout), and is skipped exactly where To<X> answers with an error *)
Definition on_view_struct_ok (conv_tables : list (bytes * list conv_case * conv_action))
           (layout_of : kind -> list fdecl) (sizeof_kind : kind -> nat) : bool :=
  forallb (fun fn =>
    match on_target fn, find (fun p => bytes_eqb (fst p) fn) on_helpers with
    | Some d, Some (_, tofn) =>
        match find (fun t => bytes_eqb (fst (fst t)) tofn) conv_tables with
        | Some (_, tbl, dflt) =>
            forallb (fun k => forallb (fun p =>
              match conv_item layout_of sizeof_kind [] tbl dflt d (IObj p k []), on_view fn (IObj p k []) with
              | CRView _ (IObj true d' []), PwRun (VI (IObj true d'' [])) => kind_beq d d' && kind_beq d d''
              | CRErr, PwSkip => true
              | _, _ => false
              end) [true; false]) all_kinds
        | None => false
        end
    | _, _ => false
    end) on_struct_names.
