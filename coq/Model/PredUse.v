(* Where the predicate table of Model/PredTab.v meets its users: the package-level predicates the ItemsEqual
   interpreter of Model/ItemsEqTab.v applies (BPred), by the name of the Go function each stands for. *)
From AP.Model Require Import Prelude Vocab Pred.
Require AP.Model.ItemsEqTab.

Definition ipred_fn (p : ItemsEqTab.ipred) : bytes :=
  match p with
  | ItemsEqTab.PIsNil => B "IsNil"
  | ItemsEqTab.PIsIRI => B "IsIRI"
  | ItemsEqTab.PIsIRIs => B "IsIRIs"
  | ItemsEqTab.PIsItemCollection => B "IsItemCollection"
  | ItemsEqTab.PIsObject => B "IsObject"
  | ItemsEqTab.PIsLink => B "IsLink"
  end.
