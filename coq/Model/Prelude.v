(* Prelude: byte strings, hex literals, outcome monad.  Definitions only. *)
From Coq Require Export String Ascii.
From Coq Require Export List Bool Arith ZArith NArith Lia.
From Coq.Strings Require Export Byte.
Export ListNotations.
Open Scope bool_scope.

Definition bytes := list byte.

Definition byte_eqb (a b : byte) : bool := Byte.eqb a b.

Fixpoint bytes_eqb (a b : bytes) : bool :=
  match a, b with
  | [], [] => true
  | x :: a', y :: b' => Byte.eqb x y && bytes_eqb a' b'
  | _, _ => false
  end.

(* B "text" : the bytes of an ASCII literal *)
Definition B (s : string) : bytes := list_byte_of_string s.

Definition hexval (c : ascii) : N :=
  let n := N_of_ascii c in
  if (48 <=? n)%N && (n <=? 57)%N then (n - 48)%N
  else if (97 <=? n)%N && (n <=? 102)%N then (n - 87)%N
  else if (65 <=? n)%N && (n <=? 70)%N then (n - 55)%N
  else 0%N.

Definition byte_of_N_total (n : N) : byte :=
  match Byte.of_N n with Some b => b | None => x00 end.

(* hx "68656c6c6f" : bytes from a hex literal (used by generated case files) *)
Fixpoint hx (s : string) : bytes :=
  match s with
  | String a (String b rest) => byte_of_N_total (hexval a * 16 + hexval b)%N :: hx rest
  | _ => []
  end.

Definition byteN (b : byte) : N := Byte.to_N b.

(* Outcomes of partial Go operations: panics are values the theorems talk about. *)
Inductive panickind := IndexOutOfRange | NilDeref | ValueMethodOnNilPtr | BadTypeAssert | SliceBounds.
Inductive outcome (A : Type) :=
| Ok (a : A)
| Err
| Panic (p : panickind)
| OutOfFuel.
Arguments Ok {A} a.
Arguments Err {A}.
Arguments Panic {A} p.
Arguments OutOfFuel {A}.

Definition obind {A B} (o : outcome A) (f : A -> outcome B) : outcome B :=
  match o with
  | Ok a => f a
  | Err => Err
  | Panic p => Panic p
  | OutOfFuel => OutOfFuel
  end.

Definition omap {A B} (f : A -> B) (o : outcome A) : outcome B :=
  obind o (fun a => Ok (f a)).

Definition is_panic {A} (o : outcome A) : bool :=
  match o with Panic _ => true | _ => false end.
Definition is_ok {A} (o : outcome A) : bool :=
  match o with Ok _ => true | _ => false end.

(* ASCII lower-casing, the part of strings.EqualFold / strings.ToLower the model uses *)
Definition lower_byte (b : byte) : byte :=
  let n := Byte.to_N b in
  if (65 <=? n)%N && (n <=? 90)%N then byte_of_N_total (n + 32)%N else b.
Definition lower (s : bytes) : bytes := map lower_byte s.
Definition fold_eqb (a b : bytes) : bool := bytes_eqb (lower a) (lower b).

Definition all_bytes : list byte := map byte_of_N_total (map N.of_nat (seq 0 256)).

(* checksum over small numbers (cheap in the VM): the two Adler sums and a polynomial hash modulo a 31-bit prime; long
   observed outputs are compared by (length, checksum) in case files instead of being shipped as literals *)
Definition fnv64 (s : bytes) : N :=
  let '(a, c, h) := fold_left (fun st b => let '(a, c, h) := st in
                                           let a' := ((a + Byte.to_N b) mod 65521)%N in
                                           (a', ((c + a') mod 65521)%N, ((h * 1000003 + Byte.to_N b + 1) mod 2147483629)%N))
                              s (1%N, 0%N, 7%N) in
  (h * 4294967296 + c * 65536 + a)%N.
