(* ReadOnly: which of the exported functions / methods with an item parameter (Gen/Helpers.v, regenerated
   from the source on every run) property C12 counts as read-only - "encoding a value (JSON or gob),
   comparing, formatting, inspecting (IsNil, NotEmpty, type predicates, DerefItem) or viewing it through
   On*/To* without writing" - and which it does not.  Every name of the generated tables must be classified:
   a new exported helper makes [classified_all] false until it is put in one of the two lists.
   Methods WITHOUT an item parameter (each type's MarshalJSON, GobEncode, MarshalBinary, Format, String,
   GetType ...) are not in Gen/Helpers.v; the harness exercises them through the interfaces. *)
From AP.Model Require Import Prelude.
From AP.Gen Require Import Helpers.

Definition read_only_ops : list bytes := [
  (* inspecting *)
  B "DerefItem"; B "IsIRI"; B "IsIRIs"; B "IsItemCollection"; B "IsLink"; B "IsNil"; B "IsObject"; B "NotEmpty";
  B "ErrorInvalidType";
  (* encoding *)
  B "GobEncode"; B "MarshalJSON";
  B "JSONWriteIRIProp"; B "JSONWriteItemCollectionProp"; B "JSONWriteItemCollectionValue"; B "JSONWriteItemProp";
  (* comparing *)
  B "ItemOrderTimestamp"; B "ItemsEqual";
  B "Activity.Equals"; B "Actor.Equals"; B "Collection.Contains"; B "Collection.Equals"; B "Collection.ItemsMatch";
  B "CollectionPage.Contains"; B "CollectionPage.Equals"; B "CollectionPage.ItemsMatch"; B "IRI.ItemsMatch"; B "IRIs.Contains";
  B "IntransitiveActivity.Equals"; B "Link.Equals"; B "ItemCollection.Contains"; B "ItemCollection.Equals"; B "ItemCollection.ItemsMatch";
  B "Object.Equals"; B "OrderedCollection.Contains"; B "OrderedCollection.Equals"; B "OrderedCollection.ItemsMatch";
  B "OrderedCollectionPage.Contains"; B "OrderedCollectionPage.Equals"; B "OrderedCollectionPage.ItemsMatch";
  (* viewing (with a callback that only reads) *)
  B "On"; B "OnActivity"; B "OnActor"; B "OnCollection"; B "OnCollectionIntf"; B "OnCollectionPage"; B "OnIRIs";
  B "OnIntransitiveActivity"; B "OnItem"; B "OnItemCollection"; B "OnLink"; B "OnObject"; B "OnOrderedCollection";
  B "OnOrderedCollectionPage"; B "OnPlace"; B "OnProfile"; B "OnQuestion"; B "OnRelationship"; B "OnTombstone";
  B "To"; B "ToActivity"; B "ToActor"; B "ToCollection"; B "ToCollectionPage"; B "ToIRIs"; B "ToIntransitiveActivity";
  B "ToItemCollection"; B "ToLink"; B "ToObject"; B "ToOrderedCollection"; B "ToOrderedCollectionPage"; B "ToPlace";
  B "ToProfile"; B "ToQuestion"; B "ToRelationship"; B "ToTombstone"].

(* not counted as read-only: constructors (build a new activity around the item), operations that derive a
   new value or are documented to modify their argument (Append, Remove, Clean*, Flatten*, Copy*, AddTo) *)
Definition not_read_only_ops : list bytes := [
  B "AcceptNew"; B "ActivityNew"; B "AddNew"; B "AnnounceNew"; B "BlockNew"; B "CreateNew"; B "DeleteNew"; B "DislikeNew";
  B "FlagNew"; B "FollowNew"; B "IgnoreNew"; B "InviteNew"; B "JoinNew"; B "LeaveNew"; B "LikeNew"; B "ListenNew"; B "MoveNew";
  B "OfferNew"; B "ReadNew"; B "RejectNew"; B "RemoveNew"; B "TentativeAcceptNew"; B "TentativeRejectNew"; B "UndoNew";
  B "UpdateNew"; B "ViewNew";
  B "CleanRecipients"; B "CopyItemProperties"; B "Flatten"; B "FlattenItemCollection"; B "FlattenProperties"; B "FlattenToIRI";
  B "Collection.Append"; B "CollectionPage.Append"; B "IRIs.Append"; B "ItemCollection.Append"; B "ItemCollection.Remove";
  B "OrderedCollection.Append"; B "OrderedCollectionPage.Append";
  B "CollectionPath.AddTo"; B "CollectionPath.IRI"; B "CollectionPath.Of"].

Definition name_in (n : bytes) (l : list bytes) : bool := existsb (bytes_eqb n) l.
Definition all_helpers : list bytes := item_funcs ++ item_methods.

(* every read-only name exists in the source tables; every name of the tables is classified, once *)
Definition read_only_ops_in_tables : bool := forallb (fun n => name_in n all_helpers) read_only_ops.
Definition classified_all : bool :=
  forallb (fun n => xorb (name_in n read_only_ops) (name_in n not_read_only_ops)) all_helpers
  && forallb (fun n => name_in n all_helpers) not_read_only_ops.

Definition same_names (a b : list bytes) : bool :=
  forallb (fun n => name_in n b) a && forallb (fun n => name_in n a) b.
