(* item_collection.go ItemCollectionDeduplication, activity.go removeFromCollection / removeFromAudience /
   Activity.Recipients, and the Recipients() methods of the other twelve addressable struct types.
   Definitions only.  Everything is parametric in the id comparison
        eqv a b  =  a.Equals(b, false)            (instantiated with iri_eqb . . false at the end),
   so that the theorems of Props/C10.v can state exactly what they need from it.

   ItemCollectionDeduplication is modelled LITERALLY:
     - per list, in range order, an entry contributes a test IRI (object: GetID, link: GetLink; nil entries and
       entries that are neither object nor link are skipped);
     - for EVERY element of rec that equals the test IRI the index is appended to toRemove (so an index can be
       collected more than once) and save is cleared; the test IRI is appended to rec when save is still set;
     - toRemove is sorted into descending order and the indices are deleted one by one with
       append(s[:idx], s[idx+1:]...), which panics (slice bounds) when idx+1 > len(s).
   The pinned tree deleted inside the shared backing array, which is observable through the copied slice header
   `aud := o.Audience` of every Recipients(): see delete_at_inplace / recipients_pinned.  The repaired code
   deletes with append(s[:idx:idx], s[idx+1:]...) - same indices, same result, fresh array. *)
From AP.Model Require Import Prelude Vocab Pred IriEq.
From AP.Gen Require Import TypeLists.

(* ActivityVocabularyTypes.Contains: strings.EqualFold against every member (ASCII names) *)
Definition tl_contains (l : list bytes) (t : bytes) : bool := existsb (fun v => fold_eqb v t) l.

(* the METHODS it.IsObject() / it.IsLink() (not the functions IsObject(it) / IsLink(it) of item.go) *)
Definition meth_is_object (i : item) : outcome bool :=
  match i with
  | INil => Panic NilDeref
  | ITNil _ => Panic ValueMethodOnNilPtr
  | IObj _ KLink fs => let t := get_str F_Type fs in Ok (bytes_eqb t (B "Object") || tl_contains tl_ObjectTypes t)
  | IObj _ _ _ => Ok true
  | _ => Ok false
  end.
Definition meth_is_link (i : item) : outcome bool :=
  match i with
  | INil => Panic NilDeref
  | ITNil _ => Panic ValueMethodOnNilPtr
  | IIri _ _ => Ok true
  | IObj _ KLink fs => let t := get_str F_Type fs in Ok (bytes_eqb t (B "Link") || tl_contains tl_LinkTypes t)
  | _ => Ok false
  end.

(* the test IRI of one entry of ItemCollectionDeduplication; None = the entry is skipped.
   Repaired code: `if IsNil(cur) { continue }` - untyped nil, typed nil pointers, empty and "-" IRIs, nil lists *)
Definition entry_key_body (cur : item) : outcome (option bytes) :=
  obind (meth_is_object cur) (fun o =>
    if o then omap Some (get_link cur)                         (* cur.GetID() *)
    else obind (meth_is_link cur) (fun l =>
           if l then omap Some (get_link cur)                  (* cur.GetLink() *)
           else Ok None)).
(* repaired code, second guard: `if len(testIt) == 0 { continue }` - an entry without an id is no addressee *)
Definition drop_empty (k : option bytes) : option bytes :=
  match k with Some [] => None | _ => k end.
Definition entry_key (cur : item) : outcome (option bytes) :=
  if is_nil cur then Ok None else omap drop_empty (entry_key_body cur).
(* pinned tree: `if cur == nil { continue }` - a typed nil pointer reaches cur.IsObject() - and no test for the
   empty id, so all id-less objects are "the same addressee" *)
Definition entry_key_pinned (cur : item) : outcome (option bytes) :=
  match cur with INil => Ok None | _ => entry_key_body cur end.

(* sort.Sort(sort.Reverse(sort.IntSlice(.))): any sort yields the one descending arrangement *)
Fixpoint insert_desc (x : nat) (l : list nat) : list nat :=
  match l with
  | [] => [x]
  | y :: r => if y <? x then x :: y :: r else y :: insert_desc x r
  end.
Fixpoint sort_desc (l : list nat) : list nat :=
  match l with [] => [] | x :: r => insert_desc x (sort_desc r) end.

Section Slices.
  Context {A : Type}.
  (* s = append(s[:idx], s[idx+1:]...) seen as a value (also the repaired append(s[:idx:idx], ...)) *)
  Definition delete_at (idx : nat) (l : list A) : outcome (list A) :=
    if idx <? length l then Ok (firstn idx l ++ skipn (S idx) l) else Panic SliceBounds.
  Fixpoint delete_all (idxs : list nat) (l : list A) : outcome (list A) :=
    match idxs with
    | [] => Ok l
    | i :: r => obind (delete_at i l) (delete_all r)
    end.
  (* the same statement executed inside the backing array: (visible part, what lies behind it up to the
     original length).  The old last element stays where it was. *)
  Definition delete_at_inplace (idx : nat) (st : list A * list A) : outcome (list A * list A) :=
    let '(l, g) := st in
    if idx <? length l then Ok (firstn idx l ++ skipn (S idx) l, skipn (length l - 1) l ++ g)
    else Panic SliceBounds.
  Fixpoint delete_all_inplace (idxs : list nat) (st : list A * list A) : outcome (list A * list A) :=
    match idxs with
    | [] => Ok st
    | i :: r => obind (delete_at_inplace i st) (delete_all_inplace r)
    end.
End Slices.

Section Dedup.
  Variable eqv : bytes -> bytes -> bool.      (* eqv a b = a.Equals(b, false) *)

  (* the loop over one list: returns rec and toRemove (in collection order) *)
  Fixpoint scan (i : nat) (l : list item) (rec : list bytes) (rem : list nat)
    : outcome (list bytes * list nat) :=
    match l with
    | [] => Ok (rec, rem)
    | cur :: r =>
        obind (entry_key cur) (fun k =>
          match k with
          | None => scan (S i) r rec rem
          | Some t =>
              let m := length (filter (eqv t) rec) in          (* one append per matching element of rec *)
              scan (S i) r (if Nat.eqb m 0 then rec ++ [t] else rec) (rem ++ repeat i m)
          end)
    end.

  (* one *ItemCollection argument (None = nil slice: nothing to range over, stays nil) *)
  Definition dedup_one (rec : list bytes) (col : option (list item))
    : outcome (list bytes * option (list item)) :=
    match col with
    | None => Ok (rec, None)
    | Some l =>
        obind (scan 0 l rec []) (fun '(rec', rem) =>
          obind (delete_all (sort_desc rem) l) (fun l' => Ok (rec', Some l')))
    end.

  (* ItemCollectionDeduplication(cols...): returns rec and the lists as they are afterwards *)
  Fixpoint dedup_from (rec : list bytes) (cols : list (option (list item)))
    : outcome (list bytes * list (option (list item))) :=
    match cols with
    | [] => Ok (rec, [])
    | c :: r =>
        obind (dedup_one rec c) (fun '(rec', c') =>
          obind (dedup_from rec' r) (fun '(rec'', r') => Ok (rec'', c' :: r')))
    end.
  Definition dedup (cols : list (option (list item))) := dedup_from [] cols.

  (* pinned tree: same loop with the pinned nil test, and the deletion happens inside the backing array; per
     list also what is left behind the shortened slice *)
  Fixpoint scan_pinned (i : nat) (l : list item) (rec : list bytes) (rem : list nat)
    : outcome (list bytes * list nat) :=
    match l with
    | [] => Ok (rec, rem)
    | cur :: r =>
        obind (entry_key_pinned cur) (fun k =>
          match k with
          | None => scan_pinned (S i) r rec rem
          | Some t =>
              let m := length (filter (eqv t) rec) in
              scan_pinned (S i) r (if Nat.eqb m 0 then rec ++ [t] else rec) (rem ++ repeat i m)
          end)
    end.
  Definition dedup_one_pinned (rec : list bytes) (col : option (list item))
    : outcome (list bytes * option (list item * list item)) :=
    match col with
    | None => Ok (rec, None)
    | Some l =>
        obind (scan_pinned 0 l rec []) (fun '(rec', rem) =>
          obind (delete_all_inplace (sort_desc rem) (l, [])) (fun st => Ok (rec', Some st)))
    end.
  Fixpoint dedup_from_pinned (rec : list bytes) (cols : list (option (list item)))
    : outcome (list bytes * list (option (list item * list item))) :=
    match cols with
    | [] => Ok (rec, [])
    | c :: r =>
        obind (dedup_one_pinned rec c) (fun '(rec', c') =>
          obind (dedup_from_pinned rec' r) (fun '(rec'', r') => Ok (rec'', c' :: r')))
    end.

  (* ---- activity.go ---- *)
  (* removeFromCollection(col, it) for the single item the caller passes; result is a fresh non-nil slice.
     Repaired code: nil entries (IsNil) are kept without looking at their id, a nil item removes nothing. *)
  Fixpoint remove_loop (l : list item) (it : item) : outcome (list item) :=
    match l with
    | [] => Ok []
    | ob :: r =>
        obind (if is_nil ob || is_nil it then Ok false
               else obind (get_link ob) (fun a => obind (get_link it) (fun b => Ok (eqv a b)))) (fun found =>
        obind (remove_loop r it) (fun r' => Ok (if found then r' else ob :: r')))
    end.
  (* pinned tree: ob.GetID() and it.GetID() on whatever is there *)
  Fixpoint remove_loop_pinned (l : list item) (it : item) : outcome (list item) :=
    match l with
    | [] => Ok []
    | ob :: r =>
        obind (obind (get_link ob) (fun a => obind (get_link it) (fun b => Ok (eqv a b)))) (fun found =>
        obind (remove_loop_pinned r it) (fun r' => Ok (if found then r' else ob :: r')))
    end.

  Section WithRemove.
    Variable rloop : list item -> item -> outcome (list item).
    (* `if a.X != nil { a.X = removeFromCollection(a.X, items...) }` *)
    Definition remove_field (f : fid) (it : item) (fs : list (fid * fval)) : outcome (list (fid * fval)) :=
      match get_items f fs with
      | None => Ok fs
      | Some l => obind (rloop l it) (fun l' => Ok (setf f (FItems (Some l')) fs))
      end.
    (* removeFromAudience: To, Bto, CC, BCC, Audience *)
    Definition remove_from_audience (it : item) (fs : list (fid * fval)) : outcome (list (fid * fval)) :=
      obind (remove_field F_To it fs) (fun fs =>
      obind (remove_field F_Bto it fs) (fun fs =>
      obind (remove_field F_CC it fs) (fun fs =>
      obind (remove_field F_BCC it fs) (fun fs =>
      remove_field F_Audience it fs)))).
  End WithRemove.

  Definition block_type : bytes := B "Block".

  (* the first lines of Activity.Recipients.  Repaired: `!IsNil(a.Object)`; pinned: `a.Object != nil` *)
  Definition block_clause (fs : list (fid * fval)) : outcome (list (fid * fval)) :=
    let ob := get_item F_Object fs in
    if bytes_eqb (get_str F_Type fs) block_type && negb (is_nil ob)
    then remove_from_audience remove_loop ob fs else Ok fs.
  Definition block_clause_pinned (fs : list (fid * fval)) : outcome (list (fid * fval)) :=
    let ob := get_item F_Object fs in
    if bytes_eqb (get_str F_Type fs) block_type && negb (match ob with INil => true | _ => false end)
    then remove_from_audience remove_loop_pinned ob fs else Ok fs.

  (* which struct types have Recipients() and whether the actor takes part *)
  Definition has_recipients (k : kind) : bool := match k with KLink => false | _ => true end.
  Definition actor_in_scan (k : kind) : bool :=
    match k with KIntransitive | KQuestion => true | _ => false end.

  (* the argument list of ItemCollectionDeduplication: &x.To, &x.CC, &x.Bto, &x.BCC,
     [&ItemCollection{x.Actor}], &aud *)
  Definition scan_lists (k : kind) (fs : list (fid * fval)) : list (option (list item)) :=
    [get_items F_To fs; get_items F_CC fs; get_items F_Bto fs; get_items F_BCC fs]
    ++ (if actor_in_scan k then [Some [get_item F_Actor fs]] else [])
    ++ [get_items F_Audience fs].

  Definition set_items (f : fid) (l : option (list item)) (fs : list (fid * fval)) := setf f (FItems l) fs.

  (* write back the four lists that were passed by address; aud is a local copy *)
  Definition write_back (cols : list (option (list item))) (fs : list (fid * fval)) : list (fid * fval) :=
    match cols with
    | t :: c :: b :: bc :: _ => set_items F_BCC bc (set_items F_Bto b (set_items F_CC c (set_items F_To t fs)))
    | _ => fs
    end.

  Definition iri_items (l : list bytes) : item := IItems false (Some (map (IIri false) l)).

  (* what happens before the de-duplication: only Activity.Recipients does something *)
  Definition recip_pre (k : kind) (fs : list (fid * fval)) : outcome (list (fid * fval)) :=
    match k with KActivity => block_clause fs | _ => Ok fs end.

  (* x.Recipients() for a pointer to one of the 13 addressable struct types: (returned list, x afterwards) *)
  Definition recipients (x : item) : outcome (item * item) :=
    match x with
    | IObj true k fs =>
        if has_recipients k then
          obind (recip_pre k fs) (fun fs1 =>
          obind (dedup (scan_lists k fs1)) (fun '(rec, cols) =>
            Ok (iri_items rec, IObj true k (write_back cols fs1))))
        else Err
    | _ => Err
    end.

  (* pinned tree: the audience array is rewritten in place behind the copied header *)
  Definition full_view (c : option (list item * list item)) : option (list item) :=
    match c with None => None | Some (l, g) => Some (l ++ g) end.
  Definition visible (c : option (list item * list item)) : option (list item) :=
    match c with None => None | Some (l, _) => Some l end.
  Definition recipients_pinned (x : item) : outcome (item * item) :=
    match x with
    | IObj true k fs =>
        if has_recipients k then
          obind (match k with KActivity => block_clause_pinned fs | _ => Ok fs end) (fun fs1 =>
          obind (dedup_from_pinned [] (scan_lists k fs1)) (fun '(rec, cols) =>
            let fs2 := write_back (map visible cols) fs1 in
            Ok (iri_items rec, IObj true k (set_items F_Audience (full_view (last cols None)) fs2))))
        else Err
    | _ => Err
    end.
End Dedup.

(* ---- the specification (Props/C10.v proves the model refines it) ---- *)
Section Spec.
  Variable eqv : bytes -> bytes -> bool.

  (* total view of entry_key for entries that do not panic *)
  Definition key_of (i : item) : option bytes := match entry_key i with Ok k => k | _ => None end.
  Definition keys_of (l : list item) : list bytes :=
    flat_map (fun x => match key_of x with Some t => [t] | None => [] end) l.

  (* keep a mention iff no EARLIER mention (kept or not) is equivalent *)
  Fixpoint first_mentions_from (seen : list bytes) (ks : list bytes) : list bytes :=
    match ks with
    | [] => []
    | k :: r => (if existsb (eqv k) seen then [] else [k]) ++ first_mentions_from (seen ++ [k]) r
    end.
  Definition first_mentions (ks : list bytes) : list bytes := first_mentions_from [] ks.

  (* the same for the entries of a list: entries without a key (nil, nested lists) stay *)
  Fixpoint keep_first (seen : list bytes) (l : list item) : list item :=
    match l with
    | [] => []
    | x :: r =>
        match key_of x with
        | None => x :: keep_first seen r
        | Some t => (if existsb (eqv t) seen then [] else [x]) ++ keep_first (seen ++ [t]) r
        end
    end.
  Definition opt_keys (c : option (list item)) : list bytes :=
    match c with None => [] | Some l => keys_of l end.
  Fixpoint keep_first_lists (seen : list bytes) (cols : list (option (list item))) : list (option (list item)) :=
    match cols with
    | [] => []
    | None :: r => None :: keep_first_lists seen r
    | Some l :: r => Some (keep_first seen l) :: keep_first_lists (seen ++ keys_of l) r
    end.
  Definition scan_order (cols : list (option (list item))) : list bytes := flat_map opt_keys cols.

  (* the value's own four addressing lists, in scan order *)
  Definition addressing (fs : list (fid * fval)) : list (option (list item)) :=
    [get_items F_To fs; get_items F_CC fs; get_items F_Bto fs; get_items F_BCC fs].
  Definition five_lists (fs : list (fid * fval)) : list (option (list item)) :=
    addressing fs ++ [get_items F_Audience fs].

  (* boolean form of "eqv is an equivalence on the ids in dom" (decidable, so checkable per input) *)
  Definition refl_on (dom : list bytes) : bool := forallb (fun a => eqv a a) dom.
  Definition sym_on (dom : list bytes) : bool :=
    forallb (fun a => forallb (fun b => Bool.eqb (eqv a b) (eqv b a)) dom) dom.
  Definition trans_on (dom : list bytes) : bool :=
    forallb (fun a => forallb (fun b =>
      if eqv a b then forallb (fun c => if eqv b c then eqv a c else true) dom else true) dom) dom.
End Spec.

(* order-preserving sub-list *)
Inductive subseq {A : Type} : list A -> list A -> Prop :=
| subseq_nil : subseq [] []
| subseq_keep x a b : subseq a b -> subseq (x :: a) (x :: b)
| subseq_drop x a b : subseq a b -> subseq a (x :: b).

(* every entry of every list evaluates without panicking (true of every list since the IsNil guard:
   Proofs/RecipP.v entries_ok_all) *)
Definition entries_ok (cols : list (option (list item))) : Prop :=
  forall l x, In (Some l) cols -> In x l -> is_ok (entry_key x) = true.
Definition has_no_key (x : item) : bool := match key_of x with None => true | Some _ => false end.

(* list by list: nothing invented, relative order kept *)
Definition col_sub (c' c : option (list item)) : Prop :=
  match c', c with
  | None, None => True
  | Some l', Some l => subseq l' l
  | _, _ => False
  end.
(* list by list: the entries without an id (nil entries, nested lists) are exactly the ones there were *)
Definition col_nokey_same (c' c : option (list item)) : Prop :=
  match c', c with
  | None, None => True
  | Some l', Some l => filter has_no_key l' = filter has_no_key l
  | _, _ => False
  end.

Definition is_addr4 (f : fid) : bool :=
  match f with F_To | F_CC | F_Bto | F_BCC => true | _ => false end.
Definition is_addr5 (f : fid) : bool :=
  match f with F_To | F_CC | F_Bto | F_BCC | F_Audience => true | _ => false end.

(* Block: an entry does not address the object with id o; a list holds only such entries *)
Definition clear_of (eqv : bytes -> bytes -> bool) (o : bytes) (e : item) : Prop :=
  is_nil e = false -> forall a, get_link e = Ok a -> eqv a o = false.
Definition list_clear (eqv : bytes -> bytes -> bool) (o : bytes) (c : option (list item)) : Prop :=
  forall l e, c = Some l -> In e l -> clear_of eqv o e.

(* ---- instance used by the correspondence check ---- *)
Definition ideq (a b : bytes) : bool := iri_eqb a b false.
Definition recipients_m (x : item) := recipients ideq x.
Definition recipients_pinned_m (x : item) := recipients_pinned ideq x.
Definition dedup_m cols := dedup ideq cols.
Definition remove_from_collection_m (l : list item) (it : item) := remove_loop ideq l it.
