(* The Recipients tables as regenerated from the source on this run. *)
From AP.Model Require Import Prelude Vocab Recip RecipTab.
Require AP.Gen.RecipT.

Definition gen_recip_tables : recip_tables :=
  mkrt AP.Gen.RecipT.recip_methods AP.Gen.RecipT.remove_from_audience AP.Gen.RecipT.recip_other_receivers.

(* x.Recipients() as the source says now *)
Definition recipients_gen (eqv : bytes -> bytes -> bool) (x : item) := recipients_t eqv gen_recip_tables x.

(* ---- what a source change does to the table (used by the examples of Props/C10.v) ---- *)
(* the first two arguments of ItemCollectionDeduplication exchanged in Object.Recipients *)
Definition swap_two (s : rstmt) : rstmt :=
  match s with
  | RSReturnDedup (a :: b :: r) => RSReturnDedup (b :: a :: r)
  | s => s
  end.
Definition swap_in_object (fn : recipfn) : recipfn :=
  match rf_kind fn with
  | KObject => mkrecipfn (rf_kind fn) (rf_ptr fn) (map swap_two (rf_body fn))
  | _ => fn
  end.
Definition recip_tables_swapped : recip_tables :=
  mkrt (map swap_in_object (rt_methods gen_recip_tables)) (rt_remove gen_recip_tables) (rt_other gen_recip_tables).

Definition tg_alice : item := IIri false (B "https://example.com/actors/alice").
Definition tg_bob : item := IIri false (B "https://example.com/actors/bob").
Definition tg_addressed : item :=
  IObj true KObject [(F_ID, FStr (B "https://example.com/notes/1")); (F_Type, FStr (B "Note"));
                     (F_To, FItems (Some [tg_alice; tg_bob])); (F_CC, FItems (Some [tg_bob; tg_alice]))].
