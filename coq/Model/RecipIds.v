(* The ids the Block clause of Activity.Recipients looks at (builder b56): removeFromAudience compares the link of
   the blocked object with the link of every non-nil member of To, Bto, CC, BCC and Audience - GetLink() of the
   member, which differs from the key of the de-duplication for an id-less object or a list (link "", no key).
   Used to state that two id comparisons agreeing on the ids that occur give the same Recipients() (C10).
   Definitions only. *)
From AP.Model Require Import Prelude Vocab Pred IriEq Recip.

Definition link_of (x : item) : list bytes := match get_link x with Ok a => [a] | _ => [] end.
Definition member_links (l : list item) : list bytes := flat_map (fun x => if is_nil x then [] else link_of x) l.
Definition olist (c : option (list item)) : list item := match c with Some l => l | None => [] end.
Definition audience_fields : list fid := [F_To; F_Bto; F_CC; F_BCC; F_Audience].

(* nothing unless the value is an Activity of type Block with a non-nil object *)
Definition block_ids (k : kind) (fs : list (fid * fval)) : list bytes :=
  match k with
  | KActivity =>
      let ob := get_item F_Object fs in
      if bytes_eqb (get_str F_Type fs) block_type && negb (is_nil ob)
      then link_of ob ++ flat_map (fun f => member_links (olist (get_items f fs))) audience_fields
      else []
  | _ => []
  end.

(* removeFromAudience as a loop over the five fields *)
Fixpoint remove_seq (rloop : list item -> item -> outcome (list item)) (it : item) (fl : list fid)
  (fs : list (fid * fval)) : outcome (list (fid * fval)) :=
  match fl with
  | [] => Ok fs
  | f :: r => obind (remove_field rloop f it fs) (remove_seq rloop it r)
  end.
