(* item_collection.go  ItemCollection.Recipients()  - the Recipients() of a LIST of values:

     func (i ItemCollection) Recipients() ItemCollection {
         all := make(ItemCollection, 0)
         for _, it := range i {
             _ = OnObject(it, func(ob *Object) error {
                 if ob == nil { return nil }                         (fix df7dbaf)
                 aud := ob.Audience
                 _ = all.Append(ItemCollectionDeduplication(&ob.To, &ob.CC, &ob.Bto, &ob.BCC, &aud)...)
                 return nil
             })
         }
         return ItemCollectionDeduplication(&all)
     }

   together with the part of helpers.go OnObject / OnItemCollection / object.go ToObject it runs through.
   Definitions only; NEW definitions, nothing of Model/Recip.v is changed.  Parametric in the id comparison
   eqv a b = a.Equals(b, false), like Model/Recip.v; instantiated with ideq at the end.

   What OnObject(it, fn) does with a member `it` (model: [visit]):
     - untyped nil: nothing.  Typed nil pointer to a struct type (links included: reflectItemToType answers
       nil, nil for everything IsNil): fn(nil), which returns at once.
     - a struct other than Link, value or pointer form (ToObject views all 13 as *Object; a value-form member is
       COPIED by the type switch): the five lists to, cc, bto, bcc, audience of THAT member are de-duplicated -
       not the actor, and no Block clause: the member is seen as an Object - the ids found are appended to `all`
       (ItemCollection.Append: skipped when Contains, i.e. ItemsEqual with some element, which on two IRI values is
       "both nil-like, or neither and a.Equals(b, false)"); a POINTER member has its to/cc/bto/bcc written back
       (its audience was passed as a copy of the slice header), a value member stays as it was.
     - an IRI that IsNil (empty, "-"): reflectItemToType answers nil, nil: fn(nil).  Any other IRI, and a Link in
       value or pointer form: ToObject fails with an error.  At the top level the error is dropped (`_ =`).
     - a list (ItemCollection, *ItemCollection, IRIs, *IRIs): a nil one (IsNil) is handed to the callback as a nil
       pointer and skipped (fix "the On* helpers panicked on a nil list item"; before, `range *col` crashed:
       [visit_pinned]); otherwise its members are visited in order, links skipped (IsLink: also the typed nil
       *Link), and the FIRST ERROR ENDS THE LOOP over that list: in a nested list the members after a plain IRI
       are not visited (their addressees are lost - nested lists are outside the vocabulary; the model follows
       the code and the correspondence check covers it).
   The members of an IRIs list are IRIs: the loop ends at the first one that is not nil-like; nothing changes.

   Pointer members are shared between the list and the caller: the model returns the list AFTERWARDS next to the
   result.  (Two entries holding the same pointer cannot be expressed in the value model; the harness builds
   distinct pointers.) *)
From AP.Model Require Import Prelude Vocab Pred IriEq Equal Coll Recip.

Section RecipList.
  Variable eqv : bytes -> bytes -> bool.      (* eqv a b = a.Equals(b, false) *)

  (* ItemsEqual(it, r) on two IRI values - the only values `all` and the appended lists hold *)
  Definition iri_item_eqb (it r : item) : bool :=
    if is_nil it || is_nil r then is_nil r && is_nil it else eqv (lnk it) (lnk r).
  (* all.Append(rec...) *)
  Definition all_append (all : list item) (rec : list bytes) : list item :=
    g_append item iri_item_eqb all (map (IIri false) rec).

  (* the callback on a member seen as *Object (k is not KLink): new `all`, fields afterwards *)
  Definition member_step (fs : list (fid * fval)) (all : list item) : outcome (list item * list (fid * fval)) :=
    obind (dedup eqv (five_lists fs)) (fun '(rec, cols) => Ok (all_append all rec, write_back cols fs)).

  Section Visit.
    (* the callback on a struct member; an argument of the loop so that Model/RecipListTab.v can run the same loop with the
       argument list the translator reads off the source *)
    Variable step : list (fid * fval) -> list item -> outcome (list item * list (fid * fval)).
    Variable nil_list_panics : bool.          (* true: the tree before the nil-list fix *)

    (* OnObject(it, fn): (did it return an error?, all afterwards, the member afterwards) *)
    Fixpoint visit (it : item) (all : list item) {struct it} : outcome (bool * list item * item) :=
      match it with
      | INil | ITNil _ => Ok (false, all, it)
      | IIri _ _ => Ok (negb (is_nil it), all, it)
      | IObj _ KLink _ => Ok (true, all, it)
      | IObj p k fs =>
          obind (step fs all) (fun '(all', fs') => Ok (false, all', if p then IObj true k fs' else it))
      | IIris p None => if negb p && nil_list_panics then Panic NilDeref else Ok (false, all, it)
      | IIris _ (Some l) => Ok (existsb (fun s => negb (is_nil (IIri false s))) l, all, it)
      | IItems p None => if negb p && nil_list_panics then Panic NilDeref else Ok (false, all, it)
      | IItems p (Some l) =>
          obind ((fix go (l : list item) (all : list item) {struct l} : outcome (bool * list item * list item) :=
                    match l with
                    | [] => Ok (false, all, [])
                    | m :: r =>
                        if is_link m then omap (fun '(e, a, r') => (e, a, m :: r')) (go r all)
                        else obind (visit m all) (fun '(e, a, m') =>
                               if (e : bool) then Ok (true, a, m' :: r)
                               else omap (fun '(e', a', r') => (e', a', m' :: r')) (go r a))
                    end) l all)
                (fun '(e, a, l') => Ok (e, a, IItems p (Some l')))
      end.

    (* the loop of ItemCollection.Recipients: errors are dropped *)
    Fixpoint visit_all (l : list item) (all : list item) : outcome (list item * list item) :=
      match l with
      | [] => Ok (all, [])
      | m :: r =>
          obind (visit m all) (fun '(_, a, m') =>
          obind (visit_all r a) (fun '(a', r') => Ok (a', m' :: r')))
      end.

    (* i.Recipients() for an ItemCollection value i (None = nil slice): (returned list, the list afterwards) *)
    Definition recipients_list_with (i : option (list item)) : outcome (item * option (list item)) :=
      let l := match i with Some l => l | None => [] end in
      obind (visit_all l []) (fun '(all, l') =>
      obind (dedup eqv [Some all]) (fun '(rec, _) =>
        Ok (iri_items rec, match i with Some _ => Some l' | None => None end))).
  End Visit.

  Definition recipients_list := recipients_list_with member_step false.
  (* before the nil-list fix (the typed-nil fix df7dbaf is older than this model) *)
  Definition recipients_list_pinned := recipients_list_with member_step true.
End RecipList.

(* ---- the specification (Props/C10.v, list block) ---- *)
Section Spec.
  Variable eqv : bytes -> bytes -> bool.

  (* a member that the loop treats as an Object: a struct other than Link *)
  Definition object_member (m : item) : bool :=
    match m with IObj _ KLink _ => false | IObj _ _ _ => true | _ => false end.
  (* a member without addressing lists of its own: nil, typed nil pointer, IRI, link, nil list *)
  Definition plain_member (m : item) : bool :=
    match m with
    | INil | ITNil _ | IIri _ _ | IObj _ KLink _ => true
    | IItems false None | IIris false None => true
    | _ => false
    end.
  (* the domain of the list theorems: no list inside the list (nil lists are nil-like members) *)
  Definition flat_member (m : item) : bool := object_member m || plain_member m.

  (* the five lists of a member, in scan order; the ids mentioned by the whole list, member by member *)
  Definition member_lists (m : item) : list (option (list item)) :=
    match m with IObj _ k fs => if object_member m then five_lists fs else [] | _ => [] end.
  Definition list_mentions (l : list item) : list bytes := flat_map (fun m => scan_order (member_lists m)) l.

  (* a member afterwards: a pointer to a struct has its own to/cc/bto/bcc reduced to ITS first mentions (as its own
     Recipients() would, C10_addressing); everything else is what it was *)
  Definition member_after (m : item) : item :=
    match m with
    | IObj true k fs =>
        if object_member m then IObj true k (write_back (keep_first_lists eqv [] (five_lists fs)) fs) else m
    | _ => m
    end.

  (* every id a de-duplication inside the call can compare, lists inside the list included (an over-approximation:
     the members behind a member that ends a nested loop are counted too) - the domain of the no-panic theorem *)
  Fixpoint deep_mentions (it : item) : list bytes :=
    match it with
    | IObj _ KLink _ => []
    | IObj _ _ fs => scan_order (five_lists fs)
    | IItems _ (Some l) =>
        (fix go (l : list item) : list bytes := match l with [] => [] | m :: r => deep_mentions m ++ go r end) l
    | _ => []
    end.
  Definition deep_mentions_list (l : list item) : list bytes := flat_map deep_mentions l.

  (* an id that can be named in the result: IsNil does not take it for nothing (not empty, not "-") *)
  Definition nameable (a : bytes) : bool := negb (is_nil (IIri false a)).
End Spec.

(* ---- instance used by the correspondence check ---- *)
Definition recipients_list_m (i : option (list item)) := recipients_list ideq i.
Definition recipients_list_pinned_m (i : option (list item)) := recipients_list_pinned ideq i.
(* all.Append as the container operation of Model/Coll.v (ItemCollection.Append over ItemsEqual) *)
Definition all_append_coll (all : list item) (rec : list bytes) : list item := ic_append all (map (IIri false) rec).
