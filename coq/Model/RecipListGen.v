(* The table of ItemCollection.Recipients() as regenerated from the source on this run. *)
From AP.Model Require Import Prelude Vocab Recip RecipTab RecipList RecipListTab.
Require AP.Gen.RecipListT.

Definition gen_recip_list_table : list reciplistfn := AP.Gen.RecipListT.recip_list_methods.

(* i.Recipients() for an ItemCollection i as the source says now *)
Definition recipients_list_gen (eqv : bytes -> bytes -> bool) (i : option (list item)) :=
  recipients_list_t eqv gen_recip_list_table i.

(* ---- what a source change does to the table (used by the examples of Props/C10.v) ---- *)
(* the callback without its nil guard (the tree before fix df7dbaf) *)
Definition drop_guard (s : rlstmt) : rlstmt :=
  match s with
  | RLRangeOnObject it ob (RINilGuard _ :: r) => RLRangeOnObject it ob r
  | s => s
  end.
Definition recip_list_table_unguarded : list reciplistfn :=
  map (fun fn => mkreciplistfn (rl_recv fn) (rl_ptr fn) (map drop_guard (rl_body fn))) gen_recip_list_table.
(* cc scanned before to *)
Definition swap_inner (s : rlinner) : rlinner :=
  match s with RIAppendDedup a (x :: y :: r) => RIAppendDedup a (y :: x :: r) | s => s end.
Definition swap_stmt (s : rlstmt) : rlstmt :=
  match s with RLRangeOnObject it ob body => RLRangeOnObject it ob (map swap_inner body) | s => s end.
Definition recip_list_table_swapped : list reciplistfn :=
  map (fun fn => mkreciplistfn (rl_recv fn) (rl_ptr fn) (map swap_stmt (rl_body fn))) gen_recip_list_table.
