(* ItemCollection.Recipients() as a TABLE: vocabulary of coq/Gen/RecipListT.v (regenerated from the source on every
   run by translator/reciplistt.go), the interpreter, and the decidable table condition that ties the hand-written
   Model/RecipList.v - which lists of a member are scanned, in which order, which are passed by address and hence
   written back, the nil guard, the final de-duplication of `all` - to the generated table.  Definitions only;
   the argument vocabulary (rarg / carg / resolve_args / scan_lists_t / write_back_t) is Model/RecipTab.v's.

   Proofs/RecipListTabP.v proves, for every table satisfying [recip_list_table_ok] and every id comparison,
        recipients_list_t eqv T i = recipients_list eqv i                       (for all i). *)
From AP.Model Require Import Prelude Vocab Pred IriEq Recip RecipTab TabEq RecipList.

(* a statement of the callback  func(ob *Object) error { ... } *)
Inductive rlinner :=
| RINilGuard (ob : bytes)                            (* if ob == nil { return nil } *)
| RICopy (v : bytes) (f : fid)                       (* v := ob.F *)
| RIAppendDedup (all : bytes) (args : list rarg)     (* _ = all.Append(ItemCollectionDeduplication(args...)...) *)
| RIReturnNil                                        (* return nil *)
| RIUnrecognised (src pos : bytes).

(* a statement of the method body *)
Inductive rlstmt :=
| RLInit (v : bytes)                                          (* v := make(ItemCollection, 0) *)
| RLRangeOnObject (it ob : bytes) (body : list rlinner)       (* for _, it := range recv { _ = OnObject(it, func(ob *Object) error { body }) } *)
| RLReturnDedup (args : list rarg)                            (* return ItemCollectionDeduplication(args...) *)
| RLUnrecognised (src pos : bytes).

Record reciplistfn := mkreciplistfn { rl_recv : bytes; rl_ptr : bool; rl_body : list rlstmt }.

(* the shape all of it must have; what remains free is the argument list of the inner de-duplication *)
Definition rlshape_of (fn : reciplistfn) : option (list carg) :=
  if rl_ptr fn then None
  else match rl_body fn with
       | [RLInit a; RLRangeOnObject _ ob [RINilGuard ob'; RICopy v f; RIAppendDedup a' args; RIReturnNil];
          RLReturnDedup [RLocal a'']] =>
           if bytes_eqb a a' && bytes_eqb a a'' && bytes_eqb ob ob' && negb (bytes_eqb a v)
           then resolve_args v f args else None
       | _ => None
       end.

Definition find_reciplistfn (tbl : list reciplistfn) : option reciplistfn :=
  find (fun fn => bytes_eqb (rl_recv fn) (B "ItemCollection")) tbl.
Definition table_rlshape (tbl : list reciplistfn) : option (list carg) :=
  match find_reciplistfn tbl with Some fn => rlshape_of fn | None => None end.

Section Interp.
  Variable eqv : bytes -> bytes -> bool.

  (* the callback with the argument list of the table *)
  Definition member_step_t (args : list carg) (fs : list (fid * fval)) (all : list item)
    : outcome (list item * list (fid * fval)) :=
    obind (dedup eqv (scan_lists_t args fs)) (fun '(rec, cols) =>
      Ok (all_append eqv all rec, write_back_t args cols fs)).

  Definition recipients_list_t (tbl : list reciplistfn) (i : option (list item)) : outcome (item * option (list item)) :=
    match table_rlshape tbl with
    | Some args => recipients_list_with eqv (member_step_t args) false i
    | None => Err
    end.
End Interp.

(* the model's side *)
Definition model_list_args : list carg := [AAddr F_To; AAddr F_CC; AAddr F_Bto; AAddr F_BCC; ACopy F_Audience].

Definition ocargs_beq (a b : option (list carg)) : bool :=
  match a, b with
  | Some x, Some y => lbeq carg_beq x y
  | None, None => true
  | _, _ => false
  end.
(* the table condition: exactly one Recipients() on a list type, receiver ItemCollection by value, of the frame
   above, scanning to, cc, bto, bcc by address and a copy of audience, in this order *)
Definition recip_list_table_ok (tbl : list reciplistfn) : bool :=
  ocargs_beq (table_rlshape tbl) (Some model_list_args) && Nat.eqb (length tbl) 1.

(* diagnosis: what the table says instead *)
Definition first_bad_recip_list (tbl : list reciplistfn) : option (option reciplistfn * option (list carg)) :=
  if recip_list_table_ok tbl then None else Some (find_reciplistfn tbl, table_rlshape tbl).
