(* The Recipients() methods and removeFromAudience as TABLES: vocabulary of coq/Gen/RecipT.v (regenerated from
   the source on every run by translator/recipt.go), an interpreter, and the decidable table condition that ties
   the hand-written scan order / write-back / Block clause of Model/Recip.v to the generated table.
   Definitions only.

   Proofs/RecipTabP.v proves, for every table set satisfying [recip_table_ok] and every id comparison,
        recipients_t T eqv x = recipients eqv x                          (for all x)
   and [recip_table_ok gen_recip_tables = true] is evaluated by vm_compute on every run. *)
From AP.Model Require Import Prelude Vocab Pred IriEq Recip TabEq.

(* ------------------------------------------------------------------ table vocabulary (what the translator emits) *)
(* one argument of ItemCollectionDeduplication(...) *)
Inductive rarg :=
| RAddr (f : fid)          (* &x.F : the caller's field is de-duplicated in place *)
| RLocal (v : bytes)       (* &v, v a local variable *)
| RSingle (f : fid)        (* &ItemCollection{x.F} : a fresh one-element list *)
| RArgUnrecognised (src pos : bytes).

Inductive rstmt :=
| RSCopy (v : bytes) (f : fid)                     (* v := x.F *)
| RSRemoveDecl (v : bytes)                         (* var v ItemCollection *)
| RSRemoveIf (ty : bytes) (f : fid) (v : bytes)    (* if x.GetType() == <constant ty> && !IsNil(x.F) { v = append(v, x.F) } *)
| RSRemoveApply (v fn : bytes)                     (* if len(v) > 0 { _ = fn(x, v...) } *)
| RSReturnDedup (args : list rarg)                 (* return ItemCollectionDeduplication(args...) *)
| RSUnrecognised (src pos : bytes).

Record recipfn := mkrecipfn { rf_kind : kind; rf_ptr : bool; rf_body : list rstmt }.

(* removeFromAudience(a *Activity, items ...Item) *)
Inductive remstep :=
| RemField (f : fid)        (* if a.F != nil { a.F = removeFromCollection(a.F, items...) } *)
| RemReturnNil              (* return nil *)
| RemUnrecognised (src pos : bytes).

Record recip_tables := mkrt {
  rt_methods : list recipfn;       (* Recipients() of the struct types *)
  rt_remove : list remstep;        (* removeFromAudience *)
  rt_other : list bytes }.         (* other receiver types with a Recipients() method *)

(* ------------------------------------------------------------------ the shape of a method, locals resolved *)
Inductive carg :=
| AAddr (f : fid)      (* passed by address: written back *)
| ACopy (f : fid)      (* a copy of the slice header in a local: the field itself is not written *)
| ASingle (f : fid).   (* one-element list made on the spot *)

Record rshape := mkrs { rs_block : option (bytes * fid); rs_args : list carg }.

Fixpoint resolve_args (v : bytes) (f : fid) (args : list rarg) : option (list carg) :=
  match args with
  | [] => Some []
  | RAddr g :: r => option_map (cons (AAddr g)) (resolve_args v f r)
  | RSingle g :: r => option_map (cons (ASingle g)) (resolve_args v f r)
  | RLocal u :: r => if bytes_eqb u v then option_map (cons (ACopy f)) (resolve_args v f r) else None
  | RArgUnrecognised _ _ :: _ => None
  end.

Definition rshape_of (fn : recipfn) : option rshape :=
  if negb (rf_ptr fn) then None                (* all Recipients() of struct types have pointer receivers *)
  else match rf_body fn with
       | [RSCopy v f; RSReturnDedup args] => option_map (mkrs None) (resolve_args v f args)
       | [RSRemoveDecl r; RSRemoveIf ty g r'; RSRemoveApply r'' fn; RSCopy v f; RSReturnDedup args] =>
           if bytes_eqb r r' && bytes_eqb r r'' && bytes_eqb fn (B "removeFromAudience")
           then option_map (mkrs (Some (ty, g))) (resolve_args v f args) else None
       | _ => None
       end.

Definition find_recipfn (tbl : list recipfn) (k : kind) : option recipfn :=
  find (fun fn => kind_beq (rf_kind fn) k) tbl.
Definition table_rshape (T : recip_tables) (k : kind) : option rshape :=
  match find_recipfn (rt_methods T) k with Some fn => rshape_of fn | None => None end.

Fixpoint remove_fields_of (ss : list remstep) : option (list fid) :=
  match ss with
  | [RemReturnNil] => Some []
  | RemField f :: r => option_map (cons f) (remove_fields_of r)
  | _ => None
  end.

(* ------------------------------------------------------------------ the interpreter *)
Section Interp.
  Variable eqv : bytes -> bytes -> bool.
  Variable T : recip_tables.

  Definition arg_list (a : carg) (fs : list (fid * fval)) : option (list item) :=
    match a with
    | AAddr f | ACopy f => get_items f fs
    | ASingle f => Some [get_item f fs]
    end.
  Definition scan_lists_t (args : list carg) (fs : list (fid * fval)) : list (option (list item)) :=
    map (fun a => arg_list a fs) args.

  (* after the call: the fields passed by address hold the de-duplicated lists *)
  Fixpoint write_back_t (args : list carg) (cols : list (option (list item))) (fs : list (fid * fval))
    : list (fid * fval) :=
    match args, cols with
    | AAddr f :: ar, c :: cr => write_back_t ar cr (set_items f c fs)
    | _ :: ar, _ :: cr => write_back_t ar cr fs
    | _, _ => fs
    end.

  Fixpoint remove_fields_t (fl : list fid) (it : item) (fs : list (fid * fval)) : outcome (list (fid * fval)) :=
    match fl with
    | [] => Ok fs
    | f :: r => obind (remove_field (remove_loop eqv) f it fs) (remove_fields_t r it)
    end.

  Definition pre_t (b : option (bytes * fid)) (fs : list (fid * fval)) : outcome (list (fid * fval)) :=
    match b with
    | None => Ok fs
    | Some (ty, f) =>
        let ob := get_item f fs in
        if bytes_eqb (get_str F_Type fs) ty && negb (is_nil ob)
        then match remove_fields_of (rt_remove T) with
             | Some fl => remove_fields_t fl ob fs
             | None => Err
             end
        else Ok fs
    end.

  Definition recipients_t (x : item) : outcome (item * item) :=
    match x with
    | IObj true k fs =>
        match table_rshape T k with
        | None => Err
        | Some sh =>
            obind (pre_t (rs_block sh) fs) (fun fs1 =>
            obind (dedup eqv (scan_lists_t (rs_args sh) fs1)) (fun '(rec, cols) =>
              Ok (iri_items rec, IObj true k (write_back_t (rs_args sh) cols fs1))))
        end
    | _ => Err
    end.
End Interp.

(* ------------------------------------------------------------------ the model's side of the condition *)
Definition model_rshape (k : kind) : option rshape :=
  if has_recipients k then
    Some (mkrs (match k with KActivity => Some (block_type, F_Object) | _ => None end)
               ([AAddr F_To; AAddr F_CC; AAddr F_Bto; AAddr F_BCC]
                ++ (if actor_in_scan k then [ASingle F_Actor] else [])
                ++ [ACopy F_Audience]))
  else None.
Definition model_remove_fields : list fid := [F_To; F_Bto; F_CC; F_BCC; F_Audience].

Scheme Equality for carg.

Definition oblock_beq (a b : option (bytes * fid)) : bool :=
  match a, b with
  | Some (t, f), Some (u, g) => bytes_eqb t u && fid_beq f g
  | None, None => true
  | _, _ => false
  end.
Definition rshape_beq (a b : rshape) : bool :=
  oblock_beq (rs_block a) (rs_block b) && lbeq carg_beq (rs_args a) (rs_args b).
Definition orshape_beq (a b : option rshape) : bool :=
  match a, b with
  | Some x, Some y => rshape_beq x y
  | None, None => true
  | _, _ => false
  end.

Definition recip_shapes_ok (T : recip_tables) : bool :=
  forallb (fun k => orshape_beq (table_rshape T k) (model_rshape k)) all_kinds.
Definition recip_remove_ok (T : recip_tables) : bool :=
  match remove_fields_of (rt_remove T) with
  | Some fl => lbeq fid_beq fl model_remove_fields
  | None => false
  end.
(* the table condition: every struct type's Recipients() scans the lists the model scans, in the model's order,
   passing by address what the model writes back; Activity's Block clause; removeFromAudience's field list; the
   only other receiver is ItemCollection (not modelled, see Props/C10.v) *)
Definition recip_table_ok (T : recip_tables) : bool :=
  recip_shapes_ok T && nodup_kinds (map rf_kind (rt_methods T)) && recip_remove_ok T
  && lbeq bytes_eqb (rt_other T) [B "ItemCollection"].

Definition first_bad_recip (T : recip_tables) : option (kind * option rshape * option rshape) :=
  match find (fun k => negb (orshape_beq (table_rshape T k) (model_rshape k))) all_kinds with
  | Some k => Some (k, table_rshape T k, model_rshape k)
  | None => None
  end.
