(* Recipients() over the WIDE model of IRI.Equals (builder b47): the definitions of Model/Recip.v and Model/RecipList.v
   are parametric in the id comparison; Model/Recip.v instantiates them with [ideq] = IRI.Equals over the plain URL
   grammar, this file with [idequ] = the real IRI.Equals on all byte strings (Model/IriEqU.v: net/url as Model/UrlU.v -
   percent-escapes, userinfo, IP literals, bytes >= 0x80 - and iri.go equalFold as Model/Fold.v).  There is no second
   model of the de-duplication.  Definitions only. *)
From AP.Model Require Import Prelude Vocab Pred IriEq IriEqU Recip RecipList.

Definition idequ (a b : bytes) : bool := iri_equ a b false.        (* a.Equals(b, false) *)
Definition recipients_u (x : item) := recipients idequ x.
Definition dedup_u cols := dedup idequ cols.
Definition remove_from_collection_u (l : list item) (it : item) := remove_loop idequ l it.
Definition recipients_list_u (i : option (list item)) := recipients_list idequ i.
