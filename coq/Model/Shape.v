(* What the decoder makes of a document, property by property (C05: "decoding yields a value that holds
   exactly the document's properties - none ignored, none invented, none attached to the wrong property";
   "a property as IRI string, embedded object, or array of those").  Specification-side definitions over the
   read tables regenerated from the source (Gen/JsonR.v) and the decoder model (Model/JsonDec.v); the
   theorems are in Proofs/ShapeP.v.  Definitions only. *)
From AP.Model Require Import Prelude Bytes Vocab Pred Text Coll Layout JsonTables JsonCheck JsonDec.

Section Shape.
  Variable jr_tables : list (bytes * list rstmt).
  Variable layout_of : kind -> list fdecl.
  Variable rec : fjv -> option item.               (* the loader of embedded values *)

  (* the value one read entry gives its field on the document object [val]:
     None = outside the model, Some None = the field stays unset, Some (Some x) = the field is x (never a zero value) *)
  Definition entry_value (val : fjv) (r : rflat) : option (option fval) :=
    match get_value jr_tables rec 3%nat val (rf_getter r) (rf_term r) (rf_conv r) with
    | None => None
    | Some None => Some None
    | Some (Some x) => let x' := link_guard (rf_guard r) x in Some (if fval_is_zero x' then None else Some x')
    end.

  (* all read entries of a type (delegations flattened), one after the other *)
  Fixpoint apply_reads (val : fjv) (rs : list rflat) (acc : list (fid * fval)) : option (list (fid * fval)) :=
    match rs with
    | [] => Some acc
    | r :: rest =>
        match entry_value val r with
        | None => None
        | Some None => apply_reads val rest acc
        | Some (Some x) => apply_reads val rest (setf (rf_fid r) x acc)
        end
    end.

  (* table condition: the read entries of kind k are recognised, no field is read twice, every field read is a
     field of the struct *)
  Fixpoint fids_nodup (l : list fid) : bool :=
    match l with
    | [] => true
    | f :: r => negb (existsb (fid_beq f) r) && fids_nodup r
    end.
  Definition reads_ok (k : kind) : bool :=
    match reads_of jr_tables k with
    | Some rs => fids_nodup (map rf_fid rs)
                 && forallb (fun r => existsb (fun d => fid_beq (fd_fid d) (rf_fid r)) (layout_of k)) rs
    | None => false
    end.

  (* ---- the admissible shapes of a value in item position ---- *)
  (* an element: an IRI string or an embedded object that loads to the (non-nil) item i *)
  Definition elem_loads (x : fjv) (i : item) : Prop :=
    rec x = Some i /\ i <> INil /\
    match x with
    | FStr raw => as_iri x = Some (Some (fj_unescape raw)) /\ fj_unescape raw <> [] /\ i = IIri false (fj_unescape raw)
    | FObj _ => True
    | _ => False
    end.
  (* a list of elements; ItemCollection.Append keeps the first of equal items (C13) *)
  Definition list_value (its : list item) : list item := ic_append [] its.
End Shape.

Definition is_item_getter (r : rflat) : bool := bytes_eqb (rf_getter r) (B "JSONGetItem") && bytes_eqb (rf_guard r) [].
(* JSONGetURIItem (the url property): as JSONGetItem, but a string is taken as it is *)
Definition is_uri_getter (r : rflat) : bool := bytes_eqb (rf_getter r) (B "JSONGetURIItem") && bytes_eqb (rf_guard r) [].
Definition is_items_getter (r : rflat) : bool := bytes_eqb (rf_getter r) (B "JSONGetItems") && bytes_eqb (rf_guard r) [].
