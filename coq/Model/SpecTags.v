From AP.Model Require Import Prelude Vocab.
From AP.Spec Require Import Properties.
Definition range_tag (r : prange) : bytes :=
  match r with RItem => B "item" | RItems => B "items" | RText => B "text" | RString => B "string" | RTime => B "time"
             | RDuration => B "duration" | RUInt => B "uint" | RInt => B "int" | RFloat => B "float" | RBool => B "bool" | RStruct => B "struct" end.
Definition spec_props (k : kind) : list (bytes * bytes) := map (fun p => (fst p, range_tag (snd p))) (props_of k).
