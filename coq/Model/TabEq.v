(* Shared by the table vocabularies EqualsTab / RecipTab / FlattenTab: boolean list equality, the list of all
   struct types.  Definitions only. *)
From AP.Model Require Import Prelude Vocab.

Fixpoint lbeq {A} (e : A -> A -> bool) (a b : list A) : bool :=
  match a, b with
  | [], [] => true
  | x :: a', y :: b' => e x y && lbeq e a' b'
  | _, _ => false
  end.

Definition all_kinds : list kind :=
  [KObject; KActor; KActivity; KIntransitive; KQuestion; KCollection; KCollectionPage; KOrdered; KOrderedPage;
   KPlace; KProfile; KRelationship; KTombstone; KLink].

Fixpoint nodup_kinds (l : list kind) : bool :=
  match l with [] => true | k :: r => negb (existsb (kind_beq k) r) && nodup_kinds r end.
